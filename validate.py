#!/usr/bin/env python3-vt
"""Validates MANIFEST.json and every evidence file against the schemas."""
import json, sys, glob, jsonschema
ok = True
def v(path, schema):
    global ok
    try:
        jsonschema.validate(json.load(open(path)), json.load(open(schema)))
        print("ok  ", path)
    except Exception as e:
        ok = False
        print("FAIL", path, str(e)[:300])
v("MANIFEST.json", "/root/.vp/MANIFEST.schema.json")
for p in sorted(glob.glob("evidence/*.json")):
    v(p, "/root/.vp/EVIDENCE.schema.json")
m = json.load(open("MANIFEST.json"))
props = [json.loads(l)["id"] for l in open("properties.jsonl")]
claimed = [c["property_id"] for c in m["checks"]]
na = [c["property_id"] for c in m.get("not_applicable", [])]
missing = [p for p in props if p not in claimed and p not in na]
print("claimed:", claimed)
print("not_applicable:", na)
print("unaccounted:", missing)
sys.exit(0 if ok else 1)
