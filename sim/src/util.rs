//! Small shared helpers: field elements in scenarios, big-integer conversion.
use ff::{Field, PrimeField};
use midnight_curves::Fq;
use num_bigint::BigUint;
use serde::{Deserialize, Deserializer, Serialize, Serializer};

use crate::core::prng::Prng;

/// A native field element inside a scenario (serialised as a hex big-endian
/// string without leading zeros; small values stay readable).
#[derive(Clone, Copy, Debug, PartialEq, Eq)]
pub struct Fe(pub Fq);

impl Serialize for Fe {
    fn serialize<S: Serializer>(&self, s: S) -> Result<S::Ok, S::Error> {
        s.serialize_str(&format!("0x{}", fq_to_big(&self.0).to_str_radix(16)))
    }
}
impl<'de> Deserialize<'de> for Fe {
    fn deserialize<D: Deserializer<'de>>(d: D) -> Result<Self, D::Error> {
        let s = String::deserialize(d)?;
        let h = s.strip_prefix("0x").unwrap_or(&s);
        let b = BigUint::parse_bytes(h.as_bytes(), 16)
            .ok_or_else(|| serde::de::Error::custom("bad field element"))?;
        Ok(Fe(big_to_fq(&b)))
    }
}
impl From<Fq> for Fe {
    fn from(f: Fq) -> Self {
        Fe(f)
    }
}
impl From<u64> for Fe {
    fn from(f: u64) -> Self {
        Fe(Fq::from(f))
    }
}

pub fn fq_to_big(f: &Fq) -> BigUint {
    BigUint::from_bytes_le(&f.to_bytes_le())
}
/// reduces modulo the field order
pub fn big_to_fq(b: &BigUint) -> Fq {
    let m = fq_modulus();
    let r = b % &m;
    let mut bytes = r.to_bytes_le();
    bytes.resize(32, 0);
    Fq::from_bytes_le(&bytes.try_into().unwrap()).unwrap()
}
pub fn fq_modulus() -> BigUint {
    BigUint::parse_bytes(&Fq::MODULUS.as_bytes()[2..], 16).unwrap()
}

/// A field element drawn from the boundary classes or uniformly.
pub fn draw_fq(rng: &mut Prng) -> Fq {
    match rng.below(10) {
        0 => Fq::ZERO,
        1 => Fq::ONE,
        2 => -Fq::ONE,
        3 => Fq::from(rng.below(8)),
        4 => Fq::from(rng.u64()),
        5 => -Fq::from(rng.below(1000)),
        _ => uniform_fq(rng),
    }
}
pub fn uniform_fq(rng: &mut Prng) -> Fq {
    let mut wide = [0u8; 64];
    for c in wide.chunks_mut(8) {
        c.copy_from_slice(&rng.u64().to_le_bytes());
    }
    <Fq as ff::FromUniformBytes<64>>::from_uniform_bytes(&wide)
}

pub fn hex(b: &[u8]) -> String {
    b.iter().map(|x| format!("{x:02x}")).collect()
}
pub fn unhex(s: &str) -> Vec<u8> {
    (0..s.len() / 2).map(|i| u8::from_str_radix(&s[2 * i..2 * i + 2], 16).unwrap()).collect()
}
