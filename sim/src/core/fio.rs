//! Storage / channel seam: `Read` and `Write` implementations over an
//! in-memory "disk" that execute a fault plan.
use std::io::{self, Read, Write};

use super::prng::Prng;

/// What the reader / writer did (fired faults, not configured ones).
#[derive(Default, Debug, Clone)]
pub struct IoCounts {
    pub calls: u64,
    pub short: u64,
    pub interrupted: u64,
    pub failed: u64,
}

#[derive(Clone, Debug, serde::Serialize, serde::Deserialize, PartialEq, Eq)]
pub struct IoPlan {
    /// seed of the io stream (chunk sizes, interrupt positions)
    pub seed: u64,
    /// split transfers into PRNG-chosen shorter ones
    pub short: bool,
    /// return `ErrorKind::Interrupted` with probability n/16 per call
    pub interrupt_16: u8,
    /// fail with an I/O error once this many bytes were transferred
    pub fail_at: Option<usize>,
}
impl IoPlan {
    pub fn clean() -> Self {
        IoPlan { seed: 0, short: false, interrupt_16: 0, fail_at: None }
    }
    pub fn benign(rng: &mut Prng) -> Self {
        IoPlan {
            seed: rng.u64(),
            short: rng.chance(3, 4),
            interrupt_16: if rng.chance(1, 2) { rng.range(1, 6) as u8 } else { 0 },
            fail_at: None,
        }
    }
    pub fn is_clean(&self) -> bool {
        !self.short && self.interrupt_16 == 0 && self.fail_at.is_none()
    }
}

pub struct FaultyReader<'a> {
    data: &'a [u8],
    pos: usize,
    plan: IoPlan,
    rng: Prng,
    pub counts: IoCounts,
}
impl<'a> FaultyReader<'a> {
    pub fn new(data: &'a [u8], plan: &IoPlan) -> Self {
        FaultyReader {
            data,
            pos: 0,
            plan: plan.clone(),
            rng: Prng::new(plan.seed, "io-read"),
            counts: IoCounts::default(),
        }
    }
    pub fn position(&self) -> usize {
        self.pos
    }
}
impl Read for FaultyReader<'_> {
    fn read(&mut self, buf: &mut [u8]) -> io::Result<usize> {
        self.counts.calls += 1;
        if buf.is_empty() {
            return Ok(0);
        }
        if let Some(t) = self.plan.fail_at {
            if self.pos >= t {
                self.counts.failed += 1;
                return Err(io::Error::other("simulated disk read error"));
            }
        }
        if self.plan.interrupt_16 > 0 && self.rng.below(16) < self.plan.interrupt_16 as u64 {
            self.counts.interrupted += 1;
            return Err(io::Error::new(io::ErrorKind::Interrupted, "simulated EINTR"));
        }
        let mut n = buf.len().min(self.data.len() - self.pos);
        if let Some(t) = self.plan.fail_at {
            n = n.min(t - self.pos);
        }
        if self.plan.short && n > 1 {
            let m = 1 + self.rng.usize(n);
            if m < n {
                self.counts.short += 1;
            }
            n = m;
        }
        buf[..n].copy_from_slice(&self.data[self.pos..self.pos + n]);
        self.pos += n;
        Ok(n)
    }
}

/// A writer whose durable content is `out`. `fail_at` models a full disk or a
/// crash: bytes beyond it never become durable.
pub struct FaultyWriter {
    pub out: Vec<u8>,
    plan: IoPlan,
    rng: Prng,
    pub counts: IoCounts,
}
impl FaultyWriter {
    pub fn new(plan: &IoPlan) -> Self {
        FaultyWriter {
            out: vec![],
            plan: plan.clone(),
            rng: Prng::new(plan.seed, "io-write"),
            counts: IoCounts::default(),
        }
    }
}
impl Write for FaultyWriter {
    fn write(&mut self, buf: &[u8]) -> io::Result<usize> {
        self.counts.calls += 1;
        if buf.is_empty() {
            return Ok(0);
        }
        if let Some(t) = self.plan.fail_at {
            if self.out.len() >= t {
                self.counts.failed += 1;
                return Err(io::Error::other("simulated disk full"));
            }
        }
        if self.plan.interrupt_16 > 0 && self.rng.below(16) < self.plan.interrupt_16 as u64 {
            self.counts.interrupted += 1;
            return Err(io::Error::new(io::ErrorKind::Interrupted, "simulated EINTR"));
        }
        let mut n = buf.len();
        if let Some(t) = self.plan.fail_at {
            n = n.min(t - self.out.len());
        }
        if self.plan.short && n > 1 {
            let m = 1 + self.rng.usize(n);
            if m < n {
                self.counts.short += 1;
            }
            n = m;
        }
        self.out.extend_from_slice(&buf[..n]);
        Ok(n)
    }
    fn flush(&mut self) -> io::Result<()> {
        Ok(())
    }
}
