//! Batch runner: seeded runs on worker threads, violation triage against the
//! known-findings file, minimisation, replay files, evidence.
use std::{
    cell::RefCell,
    collections::BTreeMap,
    panic::{self, AssertUnwindSafe},
    path::{Path, PathBuf},
    sync::{
        atomic::{AtomicBool, AtomicU64, Ordering},
        Mutex,
    },
    time::Instant,
};

use serde::{Deserialize, Serialize};
use serde_json::{json, Value};

use super::{
    prng::{self, Prng},
    stats::Stats,
};

#[derive(Clone, Copy, PartialEq, Eq, Debug)]
pub enum Tier {
    Quick,
    Thorough,
}
impl Tier {
    pub fn name(self) -> &'static str {
        match self {
            Tier::Quick => "quick",
            Tier::Thorough => "thorough",
        }
    }
}

#[derive(Clone, Debug, Serialize, Deserialize, PartialEq, Eq)]
pub struct Viol {
    /// violation class, e.g. `HonestRejected`, `Soundness`, `Panic`
    pub class: String,
    /// signature used for known-finding matching and for "same class persists"
    /// during minimisation: class + entry point + discriminating detail, never a seed
    pub sig: String,
    /// human-readable detail (may differ between a violation and its minimised form)
    pub detail: String,
    /// machine-readable pointer for the minimiser (e.g. the failing delivery)
    #[serde(default)]
    pub hint: Option<Value>,
}
impl Viol {
    pub fn new(class: &str, sig: impl Into<String>, detail: impl Into<String>) -> Self {
        Viol { class: class.to_string(), sig: sig.into(), detail: detail.into(), hint: None }
    }
    pub fn with_hint(mut self, hint: Value) -> Self {
        self.hint = Some(hint);
        self
    }
}

pub enum Verdict {
    Pass,
    Violation(Viol),
    /// the harness itself is wrong (generator produced an unsatisfiable honest
    /// scenario, replay file malformed ...): exit 2, never a violation
    Harness(String),
}

pub struct Meta {
    pub level: &'static str,
    pub rule: &'static str,
    pub assumptions: Vec<&'static str>,
    /// component -> "real" | "stub: ..." | "simulated: ..."
    pub components: Vec<(&'static str, &'static str)>,
    /// probes that should be non-zero after a batch (warn otherwise)
    pub expected_probes: Vec<&'static str>,
}

pub trait Check: Sync {
    fn id(&self) -> &'static str;
    fn meta(&self) -> Meta;
    /// number of runs in a batch of the tier
    fn runs(&self, tier: Tier) -> u64;
    /// a scenario: explicit data, everything execution needs
    fn generate(&self, rng: &mut Prng, tier: Tier, idx: u64) -> Value;
    /// pure function of the scenario and the code under test
    fn execute(&self, scn: &Value, st: &mut Stats) -> Verdict;
    /// simpler candidate scenarios, most aggressive first
    fn shrink(&self, _scn: &Value, _viol: &Viol) -> Vec<Value> {
        vec![]
    }
}

// ---------------------------------------------------------------- panics

#[derive(Clone, Debug)]
pub struct PanicInfo {
    pub msg: String,
    pub file: String,
    pub line: u32,
}
impl PanicInfo {
    pub fn in_harness(&self) -> bool {
        self.file.contains("/verif/") || self.file.starts_with("src/")
    }
    pub fn site(&self) -> String {
        // path relative to the repository / registry, stable across machines
        let f = self.file.rsplit_once("/repo/").map(|x| x.1).unwrap_or(&self.file);
        format!("{f}:{}", self.line)
    }
    pub fn site_file(&self) -> String {
        self.file.rsplit_once("/repo/").map(|x| x.1).unwrap_or(&self.file).to_string()
    }
}

thread_local! { static LAST_PANIC: RefCell<Option<PanicInfo>> = const { RefCell::new(None) }; }

pub fn install_panic_hook() {
    panic::set_hook(Box::new(|info| {
        let msg = if let Some(s) = info.payload().downcast_ref::<&str>() {
            s.to_string()
        } else if let Some(s) = info.payload().downcast_ref::<String>() {
            s.clone()
        } else {
            "<non-string panic>".to_string()
        };
        let (file, line) =
            info.location().map(|l| (l.file().to_string(), l.line())).unwrap_or_default();
        LAST_PANIC.with(|p| *p.borrow_mut() = Some(PanicInfo { msg, file, line }));
    }));
}

/// Runs `f`, turning a panic into a value. Thread-local simulator state that a
/// panic may have left half-way (hook plans) is cleared.
pub fn catch<R>(f: impl FnOnce() -> R) -> Result<R, PanicInfo> {
    match panic::catch_unwind(AssertUnwindSafe(f)) {
        Ok(r) => Ok(r),
        Err(_) => {
            let p = LAST_PANIC.with(|p| p.borrow_mut().take()).unwrap_or(PanicInfo {
                msg: "<unknown>".into(),
                file: String::new(),
                line: 0,
            });
            Err(p)
        }
    }
}

// ---------------------------------------------------------------- known findings

#[derive(Deserialize, Default, Debug)]
pub struct KnownFile {
    #[serde(default)]
    pub findings: Vec<KnownEntry>,
    #[serde(default)]
    pub fixed: Vec<Value>,
}
#[derive(Deserialize, Debug, Clone)]
pub struct KnownEntry {
    pub property: String,
    /// exact violation signature
    pub sig: String,
    pub text: String,
}

pub fn root() -> PathBuf {
    std::env::var("ZKSIM_ROOT").map(PathBuf::from).unwrap_or_else(|_| PathBuf::from("/verif"))
}

fn load_known() -> KnownFile {
    let p = root().join("known_findings.json");
    match std::fs::read_to_string(&p) {
        Ok(s) => serde_json::from_str(&s).unwrap_or_else(|e| {
            eprintln!("HARNESS-ERROR: cannot parse {}: {e}", p.display());
            std::process::exit(2)
        }),
        Err(_) => KnownFile::default(),
    }
}

// ---------------------------------------------------------------- one run

pub struct RunResult {
    pub verdict: Verdict,
    pub stats: Stats,
}

/// Fresh simulator state on a thread spawned inside a run.
pub fn install_thread_state() {
    reset_thread_state();
    // threads spawned inside a run get a fixed entropy stream of their own
    midnight_proofs::verif_hooks::seed_entropy(Some(0x7ead));
}

fn reset_thread_state() {
    rayon::sim::set(0, 1, false);
    rayon::sim::reset_stats();
    let _ = midnight_proofs::verif_hooks::clear();
}

/// Runs `f` on a thread of its own with fresh simulator state and a fixed
/// entropy stream: shared fixtures (proof pools, aggregation fixtures) are
/// built this way, so that they do not depend on which scenario needs them
/// first, and building them does not disturb the calling scenario's streams.
pub fn on_fresh_thread<R: Send + 'static>(f: impl FnOnce() -> R + Send + 'static) -> R {
    std::thread::Builder::new()
        .stack_size(512 << 20)
        .spawn(move || {
            install_thread_state();
            catch(f)
        })
        .expect("spawn")
        .join()
        .expect("fixture thread died")
        .unwrap_or_else(|p| panic!("on a fixture thread, at {}: {}", p.site(), p.msg))
}

/// Executes one scenario on the current thread with fresh simulator state.
pub fn execute_scn(check: &dyn Check, scn: &Value) -> RunResult {
    reset_thread_state();
    // entropy seam (hook H5): what the prover draws from the operating system is a function of the scenario
    midnight_proofs::verif_hooks::seed_entropy(Some(prng::digest(scn.to_string().as_bytes())));
    let mut st = Stats::default();
    let verdict = match catch(|| check.execute(scn, &mut st)) {
        Ok(v) => v,
        Err(p) => {
            if p.in_harness() {
                Verdict::Harness(format!("panic in harness at {}: {}", p.site(), p.msg))
            } else {
                // a panic that escaped the check's own classification: library
                // code panicked where the check expected a value
                Verdict::Violation(Viol::new(
                    "UnexpectedPanic",
                    format!("UnexpectedPanic@{}", p.site_file()),
                    format!("library panicked at {}: {}", p.site(), p.msg),
                ))
            }
        }
    };
    st.absorb_schedule();
    reset_thread_state();
    RunResult { verdict, stats: st }
}

fn run_digest(v: &Verdict, st: &Stats) -> u64 {
    let vs = match v {
        Verdict::Pass => "pass".to_string(),
        Verdict::Violation(v) => format!("viol:{}", v.sig),
        Verdict::Harness(m) => format!("harness:{m}"),
    };
    let s = format!("{vs}|{:?}|{:?}|{:?}|{}", st.counters, st.nontrivial, st.schedules, st.events);
    if std::env::var("ZKSIM_DUMP_RUN").is_ok() {
        eprintln!("RUN-STATE {s}");
    }
    prng::digest(s.as_bytes())
}

// ---------------------------------------------------------------- batch

pub struct Opts {
    pub tier: Tier,
    pub seed: u64,
    pub workers: usize,
    pub runs_override: Option<u64>,
    pub max_wall_s: u64,
    pub digest_out: Option<PathBuf>,
    pub write_evidence: bool,
}

pub struct Batch {
    pub stats: Stats,
    pub violations: Vec<(u64, Value, Viol)>,
    pub harness_errors: Vec<(u64, String)>,
    pub executed: u64,
    pub planned: u64,
    pub truncated: bool,
    pub wall_s: f64,
}

pub fn gen_scn(check: &dyn Check, seed: u64, tier: Tier, idx: u64) -> Value {
    let rs = prng::run_seed(seed, check.id(), idx);
    let mut rng = Prng::new(rs, "scenario");
    check.generate(&mut rng, tier, idx)
}

pub fn run_batch(check: &dyn Check, o: &Opts) -> Batch {
    let planned = o.runs_override.unwrap_or_else(|| check.runs(o.tier));
    let next = AtomicU64::new(0);
    let stop = AtomicBool::new(false);
    let start = Instant::now();
    let agg: Mutex<(Stats, Vec<(u64, Value, Viol)>, Vec<(u64, String)>, u64)> =
        Mutex::new((Stats::default(), vec![], vec![], 0));
    std::thread::scope(|sc| {
        for w in 0..o.workers.max(1) {
            let (next, stop, agg) = (&next, &stop, &agg);
            std::thread::Builder::new()
                .name(format!("w{w}"))
                .stack_size(512 << 20)
                .spawn_scoped(sc, move || {
                    let mut local = Stats::default();
                    let mut viols = vec![];
                    let mut herrs = vec![];
                    let mut done = 0u64;
                    loop {
                        if stop.load(Ordering::Relaxed) {
                            break;
                        }
                        let idx = next.fetch_add(1, Ordering::Relaxed);
                        if idx >= planned {
                            break;
                        }
                        let scn = match catch(|| gen_scn(check, o.seed, o.tier, idx)) {
                            Ok(s) => s,
                            Err(p) => {
                                herrs.push((idx, format!("generator panicked at {}: {}", p.site(), p.msg)));
                                continue;
                            }
                        };
                        let r = execute_scn(check, &scn);
                        let mut st = r.stats;
                        let d = run_digest(&r.verdict, &st);
                        st.run_digests.insert(idx, d);
                        match r.verdict {
                            Verdict::Pass => {}
                            Verdict::Violation(v) => viols.push((idx, scn, v)),
                            Verdict::Harness(m) => herrs.push((idx, m)),
                        }
                        local.merge(st);
                        done += 1;
                        if start.elapsed().as_secs() > o.max_wall_s {
                            stop.store(true, Ordering::Relaxed);
                        }
                    }
                    let mut a = agg.lock().unwrap();
                    a.0.merge(local);
                    a.1.extend(viols);
                    a.2.extend(herrs);
                    a.3 += done;
                })
                .expect("spawn worker");
        }
    });
    let (stats, mut violations, mut harness_errors, executed) = agg.into_inner().unwrap();
    violations.sort_by_key(|v| v.0);
    harness_errors.sort_by_key(|v| v.0);
    Batch {
        stats,
        violations,
        harness_errors,
        executed,
        planned,
        truncated: stop.load(Ordering::Relaxed),
        wall_s: start.elapsed().as_secs_f64(),
    }
}

// ---------------------------------------------------------------- minimise / replay

#[derive(Serialize, Deserialize)]
pub struct ReplayFile {
    pub property: String,
    pub violation: Viol,
    pub seed: u64,
    pub run_index: u64,
    pub minimised: bool,
    pub shrink_steps: u64,
    pub scenario: Value,
}

pub fn minimise(check: &dyn Check, scn: Value, v: &Viol, budget: u64) -> (Value, Viol, u64) {
    let mut cur = scn;
    let mut cur_v = v.clone();
    let mut spent = 0u64;
    let mut steps = 0u64;
    'outer: loop {
        for cand in check.shrink(&cur, &cur_v) {
            if spent >= budget {
                break 'outer;
            }
            if cand == cur {
                continue;
            }
            spent += 1;
            if let Verdict::Violation(nv) = execute_scn(check, &cand).verdict {
                if nv.sig == v.sig {
                    cur = cand;
                    cur_v = nv;
                    steps += 1;
                    continue 'outer;
                }
            }
        }
        break;
    }
    (cur, cur_v, steps)
}

pub fn replay(check: &dyn Check, file: &Path) -> i32 {
    let s = match std::fs::read_to_string(file) {
        Ok(s) => s,
        Err(e) => {
            eprintln!("HARNESS-ERROR: cannot read {}: {e}", file.display());
            return 2;
        }
    };
    let rf: ReplayFile = match serde_json::from_str(&s) {
        Ok(r) => r,
        Err(e) => {
            eprintln!("HARNESS-ERROR: cannot parse {}: {e}", file.display());
            return 2;
        }
    };
    match execute_scn(check, &rf.scenario).verdict {
        Verdict::Violation(v) => {
            println!("REPLAY property={} sig={} detail={}", rf.property, v.sig, v.detail);
            if v.sig == rf.violation.sig {
                println!("VIOLATION property={} replay={}", rf.property, file.display());
                1
            } else {
                println!("REPLAY-DIFFERENT expected_sig={}", rf.violation.sig);
                3
            }
        }
        Verdict::Pass => {
            println!("REPLAY property={} passes (violation not reproduced)", rf.property);
            0
        }
        Verdict::Harness(m) => {
            eprintln!("HARNESS-ERROR: {m}");
            2
        }
    }
}

// ---------------------------------------------------------------- check driver

pub fn run_check(check: &dyn Check, o: &Opts) -> i32 {
    let id = check.id();
    let meta = check.meta();
    println!("zksim check {id} tier={} seed={} workers={}", o.tier.name(), o.seed, o.workers);
    let b = run_batch(check, o);
    let known = load_known();

    let mut exit = 0;
    let mut unknown: Vec<&(u64, Value, Viol)> = vec![];
    let mut known_hits: BTreeMap<String, (String, u64)> = BTreeMap::new();
    for v in &b.violations {
        if let Some(k) = known.findings.iter().find(|k| k.property == id && k.sig == v.2.sig) {
            known_hits.entry(k.sig.clone()).or_insert((k.text.clone(), 0)).1 += 1;
        } else {
            unknown.push(v);
        }
    }
    for (sig, (text, n)) in &known_hits {
        println!("KNOWN-FINDING: property={id} {text} [sig={sig}, runs={n}]");
    }

    {
        // all distinct unknown signatures of this batch (the lowest run is minimised below)
        let mut by_sig: BTreeMap<&str, (u64, u64, &str)> = BTreeMap::new();
        for v in &unknown {
            let e = by_sig.entry(v.2.sig.as_str()).or_insert((v.0, 0, v.2.detail.as_str()));
            e.1 += 1;
        }
        for (sig, (first, n, detail)) in &by_sig {
            println!("violation signature: {sig} (first run {first}, {n} runs): {detail}");
        }
    }
    let mut replay_path = None;
    if let Some((idx, scn, v)) = unknown.first().map(|x| (*x).clone()) {
        println!("violation in run {idx}: {} :: {}", v.sig, v.detail);
        let (mscn, mv, steps) = minimise(check, scn.clone(), &v, 200);
        let rf = ReplayFile {
            property: id.to_string(),
            violation: mv.clone(),
            seed: o.seed,
            run_index: idx,
            minimised: steps > 0,
            shrink_steps: steps,
            scenario: mscn,
        };
        let dir = root().join("replays");
        let _ = std::fs::create_dir_all(&dir);
        let body = serde_json::to_string_pretty(&rf).unwrap();
        let name = format!("{id}-{:016x}.json", prng::digest(body.as_bytes()));
        let path = dir.join(name);
        std::fs::write(&path, &body).expect("write replay");
        // replay once in a fresh process before reporting
        let exe = std::env::current_exe().expect("exe");
        // (up to three attempts: a violation that depends on a source the
        // simulator cannot seed - HashMap iteration order - reproduces with
        // high but not full probability per execution)
        let mut out = std::process::Command::new(&exe).arg("replay").arg(&path).output();
        for _ in 0..2 {
            if matches!(&out, Ok(o) if o.status.code() == Some(1)) {
                break;
            }
            out = std::process::Command::new(&exe).arg("replay").arg(&path).output();
        }
        let ok = matches!(&out, Ok(o) if o.status.code() == Some(1));
        if ok {
            println!("minimised in {steps} steps: {} :: {}", mv.sig, mv.detail);
            println!("VIOLATION property={id} replay={}", path.display());
            exit = 1;
            replay_path = Some(path);
        } else {
            eprintln!(
                "HARNESS-ERROR: violation {} of run {idx} did not replay in a fresh process ({:?})",
                v.sig,
                out.map(|o| o.status.code())
            );
            exit = 2;
        }
    }
    for (idx, m) in b.harness_errors.iter().take(5) {
        eprintln!("HARNESS-ERROR: run {idx}: {m}");
    }
    if !b.harness_errors.is_empty() && exit == 0 {
        exit = 2;
    }

    for p in &meta.expected_probes {
        if b.stats.get(&format!("probe.{p}")) == 0 && b.stats.get(&format!("fault.{p}")) == 0 {
            println!("WARNING: probe '{p}' never fired in this batch");
        }
    }

    if let Some(p) = &o.digest_out {
        let lines: Vec<String> =
            b.stats.run_digests.iter().map(|(i, d)| format!("{i} {d:016x}")).collect();
        std::fs::write(p, lines.join("\n") + "\n").expect("write digests");
    }

    if o.write_evidence {
        write_evidence(check, &meta, o, &b, unknown.len() as u64, &known_hits, replay_path.as_deref());
    }
    println!(
        "{id}: runs={} distinct_nontrivial={} schedules={} events={} wall={:.1}s violations={} known={} exit={exit}",
        b.executed,
        b.stats.nontrivial.len(),
        b.stats.schedules.len(),
        b.stats.events,
        b.wall_s,
        unknown.len(),
        known_hits.len()
    );
    exit
}

fn write_evidence(
    check: &dyn Check,
    meta: &Meta,
    o: &Opts,
    b: &Batch,
    unknown: u64,
    known_hits: &BTreeMap<String, (String, u64)>,
    replay: Option<&Path>,
) {
    let faults: BTreeMap<&str, u64> = b
        .stats
        .counters
        .iter()
        .filter_map(|(k, v)| k.strip_prefix("fault.").map(|k| (k, *v)))
        .collect();
    let probes: BTreeMap<&str, u64> = b
        .stats
        .counters
        .iter()
        .filter_map(|(k, v)| k.strip_prefix("probe.").map(|k| (k, *v)))
        .collect();
    let other: BTreeMap<&str, u64> = b
        .stats
        .counters
        .iter()
        .filter(|(k, _)| !k.starts_with("fault.") && !k.starts_with("probe."))
        .map(|(k, v)| (k.as_str(), *v))
        .collect();
    let per_hour = if b.wall_s > 0.0 { (b.executed as f64 * 3600.0 / b.wall_s) as u64 } else { 0 };
    let mut samples: Vec<Value> =
        b.stats.samples.iter().map(|(i, v)| json!({"run": i, "case": v})).collect();
    if samples.is_empty() {
        samples.push(json!({"run": 0, "case": gen_scn(check, o.seed, o.tier, 0)}));
    }
    let ev = json!({
        "property_id": check.id(),
        "tier": o.tier.name(),
        "seed": o.seed,
        "level": meta.level,
        "coverage": {
            "evaluations": b.executed,
            "distinct_nontrivial": b.stats.nontrivial.len(),
            "rule": meta.rule,
            "samples": samples,
            "exhaustive": false,
            "runs_planned": b.planned,
            "batch_truncated_by_wall_cap": b.truncated,
            "runs_per_hour": per_hour,
            "seeds_per_hour": per_hour,
            "simulated_events": b.stats.events,
            "simulated_time_note": "the code under test has no clock; simulated time is the event counter (scheduler decisions, tasks, transcript operations, I/O calls, deliveries, witness assignments)",
            "distinct_schedules": b.stats.schedules.len(),
            "faults_fired": faults,
            "probes": probes,
            "counters": other,
            "components": meta.components.iter().map(|(c, k)| json!({"component": c, "ran": k})).collect::<Vec<_>>(),
            "known_findings_hit": known_hits.iter().map(|(s, (t, n))| json!({"sig": s, "text": t, "runs": n})).collect::<Vec<_>>(),
            "replay_file": replay.map(|p| p.display().to_string()),
            "workers": o.workers,
        },
        "assumptions": meta.assumptions,
        "wall_s": b.wall_s,
        "violations": unknown,
    });
    let dir = root().join("evidence");
    let _ = std::fs::create_dir_all(&dir);
    let p = dir.join(format!("{}.json", check.id()));
    std::fs::write(&p, serde_json::to_string_pretty(&ev).unwrap() + "\n").expect("write evidence");
}
