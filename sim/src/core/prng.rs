//! The single source of randomness of the simulator.
//!
//! `VERIF_SEED` -> run seed -> named streams. Adding a draw to one stream never
//! shifts another. Logging never draws.
use rand_chacha::ChaCha20Rng;
use rand_core::SeedableRng;

pub const DEFAULT_SEED: u64 = 20261003;

fn h64(parts: &[&[u8]]) -> [u8; 32] {
    let mut st = blake2b_simd::Params::new().hash_length(32).to_state();
    for p in parts {
        st.update(&(p.len() as u64).to_le_bytes());
        st.update(p);
    }
    let mut out = [0u8; 32];
    out.copy_from_slice(st.finalize().as_bytes());
    out
}

/// H(seed, property, index): the seed of one run.
pub fn run_seed(seed: u64, prop: &str, idx: u64) -> u64 {
    let h = h64(&[&seed.to_le_bytes(), prop.as_bytes(), &idx.to_le_bytes()]);
    u64::from_le_bytes(h[..8].try_into().unwrap())
}

/// 64-bit FNV-style digest of bytes (for scenario / event-log digests).
pub fn digest(bytes: &[u8]) -> u64 {
    let h = h64(&[bytes]);
    u64::from_le_bytes(h[..8].try_into().unwrap())
}

/// xoshiro256** seeded from blake2b(seed, label).
#[derive(Clone, Debug)]
pub struct Prng {
    s: [u64; 4],
    key: [u8; 32],
}

impl Prng {
    pub fn new(seed: u64, label: &str) -> Self {
        let key = h64(&[&seed.to_le_bytes(), label.as_bytes()]);
        Self::from_key(key)
    }
    fn from_key(key: [u8; 32]) -> Self {
        let mut s = [0u64; 4];
        for i in 0..4 {
            s[i] = u64::from_le_bytes(key[i * 8..i * 8 + 8].try_into().unwrap());
        }
        if s == [0; 4] {
            s[0] = 1;
        }
        Prng { s, key }
    }
    /// An independent stream named `label` (does not advance `self`).
    pub fn derive(&self, label: &str) -> Prng {
        Self::from_key(h64(&[&self.key, label.as_bytes()]))
    }
    /// A ChaCha stream for library entry points that take `impl RngCore + CryptoRng`.
    pub fn chacha(&self, label: &str) -> ChaCha20Rng {
        ChaCha20Rng::from_seed(h64(&[&self.key, b"chacha", label.as_bytes()]))
    }
    pub fn u64(&mut self) -> u64 {
        let r = self.s[1].wrapping_mul(5).rotate_left(7).wrapping_mul(9);
        let t = self.s[1] << 17;
        self.s[2] ^= self.s[0];
        self.s[3] ^= self.s[1];
        self.s[1] ^= self.s[2];
        self.s[0] ^= self.s[3];
        self.s[2] ^= t;
        self.s[3] = self.s[3].rotate_left(45);
        r
    }
    /// uniform in 0..n (n > 0)
    pub fn below(&mut self, n: u64) -> u64 {
        debug_assert!(n > 0);
        ((self.u64() as u128 * n as u128) >> 64) as u64
    }
    pub fn usize(&mut self, n: usize) -> usize {
        self.below(n as u64) as usize
    }
    /// uniform in lo..=hi
    pub fn range(&mut self, lo: u64, hi: u64) -> u64 {
        lo + self.below(hi - lo + 1)
    }
    /// true with probability num/den
    pub fn chance(&mut self, num: u64, den: u64) -> bool {
        self.below(den) < num
    }
    pub fn pick<'a, T>(&mut self, xs: &'a [T]) -> &'a T {
        &xs[self.usize(xs.len())]
    }
    pub fn bytes(&mut self, n: usize) -> Vec<u8> {
        (0..n).map(|_| self.u64() as u8).collect()
    }
    pub fn shuffle<T>(&mut self, xs: &mut [T]) {
        for i in (1..xs.len()).rev() {
            let j = self.usize(i + 1);
            xs.swap(i, j);
        }
    }
}
