pub mod fio;
pub mod prng;
pub mod runner;
pub mod stats;
