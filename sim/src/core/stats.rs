//! Per-run counters merged into the evidence of a batch.
use std::collections::{BTreeMap, BTreeSet};

use serde_json::Value;

#[derive(Default, Clone, Debug)]
pub struct Stats {
    /// named counters: `fault.<kind>` (faults that actually fired),
    /// `probe.<name>` (rare branch reached), anything else free-form
    pub counters: BTreeMap<String, u64>,
    /// digests of distinct non-trivial scenarios
    pub nontrivial: BTreeSet<u64>,
    /// digests of distinct schedules (scheduler decision logs)
    pub schedules: BTreeSet<u64>,
    /// simulated events (scheduler decisions, transcript operations, I/O calls,
    /// witness assignments, deliveries): the simulated-time measure
    pub events: u64,
    /// (run index, sample) - the lowest indices are kept
    pub samples: Vec<(u64, Value)>,
    /// per-run digest of the event log (determinism self-test)
    pub run_digests: BTreeMap<u64, u64>,
}

impl Stats {
    pub fn inc(&mut self, k: &str) {
        self.add(k, 1);
    }
    pub fn add(&mut self, k: &str, n: u64) {
        *self.counters.entry(k.to_string()).or_insert(0) += n;
    }
    pub fn fault(&mut self, kind: &str) {
        self.add(&format!("fault.{kind}"), 1);
    }
    pub fn probe(&mut self, name: &str) {
        self.add(&format!("probe.{name}"), 1);
    }
    pub fn get(&self, k: &str) -> u64 {
        self.counters.get(k).copied().unwrap_or(0)
    }
    pub fn nontrivial(&mut self, digest: u64) {
        self.nontrivial.insert(digest);
    }
    pub fn sample(&mut self, idx: u64, v: Value) {
        if self.samples.len() < 6 {
            self.samples.push((idx, v));
        }
    }
    /// Folds the scheduler shim's counters of the current thread into the stats.
    pub fn absorb_schedule(&mut self) {
        let s = rayon::sim::get();
        if s.constructs > 0 {
            self.schedules.insert(s.digest);
        }
        self.events += s.decisions + s.tasks;
        self.add("sched.decisions", s.decisions);
        self.add("sched.parallel_constructs", s.constructs);
        self.add("sched.tasks", s.tasks);
    }
    pub fn merge(&mut self, o: Stats) {
        for (k, v) in o.counters {
            *self.counters.entry(k).or_insert(0) += v;
        }
        self.nontrivial.extend(o.nontrivial);
        self.schedules.extend(o.schedules);
        self.events += o.events;
        self.samples.extend(o.samples);
        self.samples.sort_by_key(|s| s.0);
        self.samples.truncate(6);
        self.run_digests.extend(o.run_digests);
    }
}
