//! "rx." and "b64." families for C19: the in-circuit automaton parser on
//! automata compiled from generated expressions, and fixed-length base64 /
//! base64url decoding, both run through the operation engine (honest
//! execution, H1 faults, late edits, structure monitor).
use midnight_circuits::{
    field::{
        decomposition::{chip::P2RDecompositionChip, pow2range::Pow2RangeChip},
        native::{NB_ARITH_COLS, NB_ARITH_FIXED_COLS},
        AssignedNative, NativeChip, NativeConfig, NativeGadget,
    },
    instructions::{AssignmentInstructions, Base64Instructions, PublicInputInstructions},
    parsing::automaton_chip::{AutomatonChip, AutomatonConfig, NB_AUTOMATA_COLS},
    types::AssignedByte,
    ComposableChip,
};
use midnight_curves::Fq;
use midnight_proofs::{
    circuit::{Layouter, SimpleFloorPlanner, Value},
    plonk::{Circuit, ConstraintSystem, Error},
};
use midnight_zk_stdlib::{ZkStdLib, ZkStdLibArch};
use rustc_hash::FxHashMap;

use crate::{
    core::prng::Prng,
    ops::OpCase,
    rx::{self, Rx},
    util::{fq_to_big, Fe},
};

type F = Fq;
type NG = NativeGadget<F, P2RDecompositionChip<F>, NativeChip<F>>;

// ------------------------------------------------------------------ rx.parse

/// The expression travels as JSON in `big[0]`.
pub fn rx_of(c: &OpCase) -> Rx {
    serde_json::from_str(&c.big[0]).unwrap_or_default()
}

/// The parsing library the chip is configured with: the expression under test under a
/// drawn index, next to companions (among them an automaton without transitions and
/// one-state automata) under indices below and above it. `code` = 0: the expression alone
/// under index 0.
pub fn rx_library(r: &Rx, code: u64) -> (usize, Vec<(usize, Rx)>) {
    if code == 0 {
        return (0, vec![(0, r.clone())]);
    }
    let ti = [0usize, 1, 2, 7, 100][(code % 5) as usize];
    let pool = [
        Rx::Eps,
        Rx::Bytes(vec![b'a']),
        Rx::Star(Box::new(Rx::Bytes((b'0'..=b'9').collect()))),
        Rx::Cat(vec![Rx::Word("ab".into()), Rx::Opt(Box::new(Rx::Bytes(vec![b'c'])))]),
    ];
    let slots = [ti ^ 1, ti + 2, ti + 64, (ti + 3) * 13];
    let mut lib = vec![(ti, r.clone())];
    for j in 0..4 {
        if (code >> (3 + j)) & 1 == 1 {
            lib.push((slots[j], pool[((code >> 8) as usize + j) % pool.len()].clone()));
        }
    }
    (ti, lib)
}

pub fn rx_case(r: &Rx, word: &[u8]) -> OpCase {
    rx_case_in(r, word, 0)
}

pub fn rx_case_in(r: &Rx, word: &[u8], library: u64) -> OpCase {
    OpCase {
        op: "rx.parse".into(),
        p: vec![word.len() as u64, library],
        big: vec![serde_json::to_string(r).unwrap()],
        ins: word.iter().map(|b| Fe(Fq::from(*b as u64))).collect(),
        bins: vec![],
        cols: 4,
        mbl: 8,
    }
}

#[derive(Clone)]
pub struct RxCircuit {
    pub case: OpCase,
    pub known: bool,
}

#[derive(Clone, Debug)]
pub struct RxConfig {
    native: NativeConfig,
    core: <P2RDecompositionChip<F> as midnight_proofs::circuit::Chip<F>>::Config,
    automaton: AutomatonConfig<usize, F>,
}

impl Circuit<F> for RxCircuit {
    type Config = RxConfig;
    type FloorPlanner = SimpleFloorPlanner;
    type Params = (Rx, u64);

    fn without_witnesses(&self) -> Self {
        RxCircuit { case: self.case.clone(), known: false }
    }
    fn params(&self) -> (Rx, u64) {
        (rx_of(&self.case), self.case.p.get(1).copied().unwrap_or(0))
    }
    fn configure_with_params(meta: &mut ConstraintSystem<F>, (r, code): (Rx, u64)) -> RxConfig {
        let advice: [_; NB_ARITH_COLS] = core::array::from_fn(|_| meta.advice_column());
        let fixed: [_; NB_ARITH_FIXED_COLS] = core::array::from_fn(|_| meta.fixed_column());
        let committed = meta.instance_column();
        let plain = meta.instance_column();
        let native = NativeChip::configure(meta, &(advice, fixed, [committed, plain]));
        let mut automata = FxHashMap::default();
        for (i, x) in rx_library(&r, code).1 {
            automata.insert(i, x.to_lib().to_automaton());
        }
        let acols: [_; NB_AUTOMATA_COLS] = advice[..NB_AUTOMATA_COLS].try_into().unwrap();
        let automaton = AutomatonChip::<usize, F>::configure(meta, &(acols, automata));
        let p2r = Pow2RangeChip::configure(meta, &advice[1..=4]);
        let core = P2RDecompositionChip::configure(meta, &(native.clone(), p2r));
        RxConfig { native, core, automaton }
    }
    fn configure(_meta: &mut ConstraintSystem<F>) -> RxConfig {
        unreachable!("configured with parameters")
    }
    fn synthesize(&self, config: RxConfig, mut layouter: impl Layouter<F>) -> Result<(), Error> {
        let native_chip = NativeChip::new(&config.native, &());
        let core = P2RDecompositionChip::new(&config.core, &8usize);
        let ng: NG = NativeGadget::new(core.clone(), native_chip);
        let chip = AutomatonChip::<usize, F>::new(&config.automaton, &ng);
        let vals: Vec<Value<u8>> = self.case.ins.iter().map(|x| if self.known { Value::known(x.0.to_bytes_le()[0]) } else { Value::unknown() }).collect();
        let bytes: Vec<AssignedByte<F>> = ng.assign_many(&mut layouter, &vals)?;
        for b in &bytes {
            let n: AssignedNative<F> = b.into();
            ng.constrain_as_public_input(&mut layouter, &n)?;
        }
        let ti = rx_library(&Rx::Eps, self.case.p.get(1).copied().unwrap_or(0)).0;
        let markers = chip.parse(&mut layouter, &ti, &bytes)?;
        for m in &markers {
            ng.constrain_as_public_input(&mut layouter, m)?;
        }
        core.load(&mut layouter)?;
        chip.load(&mut layouter)
    }
}

/// Ok(true): the published word is in the language with exactly the published
/// markers; Ok(false): the published word is not in the language (or a byte is
/// out of range): the circuit should have been unsatisfiable; Err: wrong markers.
pub fn rx_check(c: &OpCase, publics: &[Fq]) -> Result<bool, String> {
    let n = c.p[0] as usize;
    if publics.len() != 2 * n {
        return Err(format!("{} values published, {} expected", publics.len(), 2 * n));
    }
    let mut word = vec![];
    for b in &publics[..n] {
        let v = fq_to_big(b);
        if v.bits() > 8 {
            return Ok(false);
        }
        word.push(v.to_u64_digits().first().copied().unwrap_or(0) as u8);
    }
    let t = rx_of(c).to_ref();
    let parses = rx::parse(&t, &word);
    match parses.len() {
        0 => Ok(false),
        _ => {
            let got: Vec<usize> = publics[n..].iter().map(|m| fq_to_big(m).to_u64_digits().first().copied().unwrap_or(0) as usize).collect();
            let big = publics[n..].iter().any(|m| fq_to_big(m).bits() > 32);
            if !big && parses.contains(&got) {
                Ok(true)
            } else {
                Err(format!("word {:?} is published with markers {:?}, the expression marks it {:?}", word, got, parses))
            }
        }
    }
}

pub fn rx_expected_admissible(c: &OpCase) -> bool {
    let word: Vec<u8> = c.ins.iter().map(|x| x.0.to_bytes_le()[0]).collect();
    !rx::parse(&rx_of(c).to_ref(), &word).is_empty()
}

// ------------------------------------------------------------------ base64

pub const B64_OPS: &[&str] = &["b64.std", "b64.url"];
const STD: &[u8; 64] = b"ABCDEFGHIJKLMNOPQRSTUVWXYZabcdefghijklmnopqrstuvwxyz0123456789+/";
const URL: &[u8; 64] = b"ABCDEFGHIJKLMNOPQRSTUVWXYZabcdefghijklmnopqrstuvwxyz0123456789-_";

fn alphabet(url: bool) -> &'static [u8; 64] {
    if url {
        URL
    } else {
        STD
    }
}

pub fn b64_arch(c: &OpCase) -> ZkStdLibArch {
    ZkStdLibArch { base64: true, nr_pow2range_cols: c.cols, ..ZkStdLibArch::default() }
}

/// p = [padded, n]; ins = the n input characters.
pub fn b64_gen_case(rng: &mut Prng, op: &str) -> OpCase {
    let url = op == "b64.url";
    let a = alphabet(url);
    let padded = rng.chance(1, 2);
    // decoded length 0..48, every residue mod 3
    let len = rng.range(0, 48) as usize;
    let data = match rng.below(4) {
        0 => vec![0u8; len],
        1 => vec![0xff; len],
        _ => rng.bytes(len),
    };
    let mut enc: Vec<u8> = vec![];
    for ch in data.chunks(3) {
        let v = (ch[0] as u32) << 16 | (*ch.get(1).unwrap_or(&0) as u32) << 8 | *ch.get(2).unwrap_or(&0) as u32;
        let chars = [a[(v >> 18) as usize & 63], a[(v >> 12) as usize & 63], a[(v >> 6) as usize & 63], a[v as usize & 63]];
        let keep = ch.len() + 1;
        enc.extend(&chars[..keep]);
        if padded {
            enc.extend(std::iter::repeat_n(b'=', 4 - keep));
        }
    }
    // corruptions
    if !enc.is_empty() {
        match rng.below(8) {
            0 => {
                // a single character outside the alphabet (the other alphabet's, '=', control, high bytes)
                let i = rng.usize(enc.len());
                enc[i] = *rng.pick(&[b'=', b'-', b'_', b'+', b'/', b' ', b'.', 0x00, 0x80, 0xff, b'@', b'[', b'`', b'{']);
            }
            1 if padded && enc.len() >= 4 => {
                // padding forms: "=x", "x=" in wrong places
                let n = enc.len();
                let form = rng.below(4);
                match form {
                    0 => {
                        enc[n - 2] = b'=';
                    }
                    1 => {
                        enc[n - 2] = b'=';
                        enc[n - 1] = b'A';
                    }
                    2 => {
                        enc[n - 3] = b'=';
                    }
                    _ => {
                        enc[n - 4] = b'=';
                    }
                }
            }
            2 => {
                // non-zero trailing bits in the last data character
                if let Some(i) = enc.iter().rposition(|c| *c != b'=') {
                    enc[i] = a[rng.usize(64)];
                }
            }
            _ => {}
        }
    }
    // lengths the API documents as a caller error are not generated: padded needs a multiple of 4
    OpCase {
        op: op.into(),
        p: vec![padded as u64, enc.len() as u64],
        big: vec![],
        ins: enc.iter().map(|b| Fe(Fq::from(*b as u64))).collect(),
        bins: vec![],
        cols: rng.range(1, 4) as u8,
        mbl: 8,
    }
}

pub fn b64_body<L: Layouter<F>>(c: &OpCase, s: &ZkStdLib, l: &mut L, w: &[Value<F>]) -> Result<(), Error> {
    let vals: Vec<Value<u8>> = w.iter().map(|v| v.map(|x| x.to_bytes_le()[0])).collect();
    let bytes: Vec<AssignedByte<F>> = s.assign_many(l, &vals)?;
    for b in &bytes {
        let n: AssignedNative<F> = b.into();
        s.constrain_as_public_input(l, &n)?;
    }
    let padded = c.p[0] == 1;
    let out = if c.op == "b64.url" { s.base64().decode_base64url(l, &bytes, padded)? } else { s.base64().decode_base64(l, &bytes, padded)? };
    for b in &out {
        let n: AssignedNative<F> = b.into();
        s.constrain_as_public_input(l, &n)?;
    }
    Ok(())
}

/// The decoding of a well-formed input (None: malformed): 6-bit values with
/// padding as zero bits, ceil(n/4)*3 output bytes.
pub fn b64_decode(input: &[u8], url: bool, padded: bool) -> Option<Vec<u8>> {
    let a = alphabet(url);
    let val = |c: u8| a.iter().position(|x| *x == c).map(|v| v as u32);
    let n = input.len();
    if padded && n % 4 != 0 {
        return None;
    }
    let mut out = vec![];
    let nchunks = n.div_ceil(4);
    for (ci, ch) in input.chunks(4).enumerate() {
        let last = ci + 1 == nchunks;
        let mut vals = [0u32; 4];
        for (i, c) in ch.iter().enumerate() {
            if padded && last && i >= 2 && *c == b'=' {
                // "=" must be followed by "=" up to the end of the chunk
                if ch[i..].iter().any(|x| *x != b'=') {
                    return None;
                }
                vals[i] = 0;
            } else {
                vals[i] = val(*c)?;
            }
        }
        let v = vals[0] << 18 | vals[1] << 12 | vals[2] << 6 | vals[3];
        out.extend([(v >> 16) as u8, (v >> 8) as u8, v as u8]);
    }
    Some(out)
}

pub fn b64_check(c: &OpCase, publics: &[Fq]) -> Result<bool, String> {
    let n = c.p[1] as usize;
    let (url, padded) = (c.op == "b64.url", c.p[0] == 1);
    if publics.len() < n {
        return Err("too few public values".into());
    }
    let mut input = vec![];
    for b in &publics[..n] {
        let v = fq_to_big(b);
        if v.bits() > 8 {
            return Ok(false);
        }
        input.push(v.to_u64_digits().first().copied().unwrap_or(0) as u8);
    }
    match b64_decode(&input, url, padded) {
        None => Ok(false),
        Some(e) => {
            let got: Vec<_> = publics[n..].iter().map(fq_to_big).collect();
            let exp: Vec<_> = e.iter().map(|b| num_bigint::BigUint::from(*b)).collect();
            if got == exp {
                Ok(true)
            } else {
                Err(format!("input {:?} decodes to {:?}, the circuit publishes {:?}", String::from_utf8_lossy(&input), e, got))
            }
        }
    }
}

pub fn b64_expected_admissible(c: &OpCase) -> bool {
    let input: Vec<u8> = c.ins.iter().map(|x| x.0.to_bytes_le()[0]).collect();
    b64_decode(&input, c.op == "b64.url", c.p[0] == 1).is_some()
}

// ------------------------------------------------------------------ variable-length base64 (honest executions)

pub const B64V_OPS: &[&str] = &["b64v.std", "b64v.url"];
const VM: usize = 32;

thread_local! {
    /// (decoded value the circuit computed, if synthesis got that far)
    static B64V_OUT: std::cell::RefCell<Option<Vec<u8>>> = const { std::cell::RefCell::new(None) };
}

/// p = [n]; ins = n characters (n a multiple of 4, n <= 32, padded form).
pub fn b64v_gen_case(rng: &mut Prng, op: &str) -> OpCase {
    let mut c = b64_gen_case(rng, if op == "b64v.url" { "b64.url" } else { "b64.std" });
    // regenerate until padded and within the capacity; every length 0, 4, ..., 32 (the full buffer included)
    let mut guard = 0;
    while (c.p[0] != 1 || c.ins.len() > VM) && guard < 200 {
        c = b64_gen_case(rng, if op == "b64v.url" { "b64.url" } else { "b64.std" });
        guard += 1;
    }
    if rng.chance(1, 4) {
        // the input that fills the capacity
        let a = alphabet(op == "b64v.url");
        c.ins = (0..VM).map(|_| Fe(Fq::from(a[rng.usize(64)] as u64))).collect();
    }
    c.op = op.into();
    c.p = vec![c.ins.len() as u64];
    c
}

pub fn b64v_body<L: Layouter<F>>(c: &OpCase, s: &ZkStdLib, l: &mut L, w: &[Value<F>]) -> Result<(), Error> {
    use midnight_circuits::{instructions::base64::{Base64Vec, Base64VarInstructions}, types::InnerValue, vec::AssignedVector};
    let data: Value<Vec<u8>> = Value::from_iter(w.iter().copied()).map(|v: Vec<F>| v.iter().map(|x| x.to_bytes_le()[0]).collect());
    let chip = s.base64();
    let input: Base64Vec<F, VM, 4> = chip.assign_var_base64(l, data)?;
    let out: AssignedVector<F, AssignedByte<F>, 24, 3> = if c.op == "b64v.url" { chip.var_decode_base64url(l, &input)? } else { chip.var_decode_base64(l, &input)? };
    out.value().map(|v| B64V_OUT.with(|o| *o.borrow_mut() = Some(v)));
    Ok(())
}

/// Nothing is published (the vectors' cells are crate-private): the honest
/// execution must be satisfiable exactly for well-formed inputs, and the value
/// the witness generator computed must be the reference decoding.
pub fn b64v_check(c: &OpCase, _publics: &[Fq]) -> Result<bool, String> {
    let input: Vec<u8> = c.ins.iter().map(|x| x.0.to_bytes_le()[0]).collect();
    let got = B64V_OUT.with(|o| o.borrow_mut().take());
    match b64_decode(&input, c.op == "b64v.url", true) {
        None => Ok(false),
        Some(full) => {
            // (as for the fixed-length form, the output has 3/4 of the padded input's length:
            //  the bytes that stand for padding characters are zeros)
            let expect = &full[..];
            match got {
                Some(v) if v == expect => Ok(true),
                Some(v) => Err(format!("variable-length decoding of {:?} gives {:?}, the reference gives {:?}", String::from_utf8_lossy(&input), v, expect)),
                None => Err("the circuit is satisfied but no decoded value was computed".into()),
            }
        }
    }
}

pub fn b64v_expected_admissible(c: &OpCase) -> bool {
    let input: Vec<u8> = c.ins.iter().map(|x| x.0.to_bytes_le()[0]).collect();
    input.len() % 4 == 0 && b64_decode(&input, c.op == "b64v.url", true).is_some()
}
