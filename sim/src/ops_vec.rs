//! "vec." family (C04: variable-length vectors): the vector gadget's own
//! operations - limits, padding flags, trimming, resizing, (in)equality with
//! another vector and with a constant, and their assertions - on vectors of
//! native values with capacity 8 and alignment 2.
//!
//! The cells of an `AssignedVector` cannot be reached from outside the crate,
//! so contents are published through the variable-length Poseidon digest of
//! the vector (the digest of the payload; C07 judges that gadget on its own);
//! limits, flags and comparison results are published directly.
//!
//! As for the variable-length hashes, the Byzantine stage edits only cells
//! that hold a filler value (a uniformly drawn field element that occurs
//! nowhere in the payloads): the payloads are unchanged, so every published
//! value must stay what the reference says.
use ff::Field;
use midnight_circuits::{
    field::{decomposition::chip::P2RDecompositionChip, AssignedNative, NativeChip, NativeGadget},
    hash::poseidon::VarLenPoseidonGadget,
    instructions::{
        hash::VarHashInstructions, vector::VectorInstructions, AssertionInstructions, EqualityInstructions,
        PublicInputInstructions,
    },
    testing_utils::FromScratch,
    types::AssignedBit,
    vec::{get_lims, vector_gadget::VectorGadget, AssignedVector},
};
use midnight_curves::Fq;
use midnight_proofs::{
    circuit::{Layouter, SimpleFloorPlanner, Value},
    plonk::{Circuit, ConstraintSystem, Error},
};

use crate::{
    core::prng::Prng,
    ops::OpCase,
    ops_hash::textbook_poseidon,
    util::{draw_fq, uniform_fq, Fe},
};

type F = Fq;
type NG = NativeGadget<F, P2RDecompositionChip<F>, NativeChip<F>>;
pub const M: usize = 8;
pub const L: usize = 12;
pub const A: usize = 2;

pub const VEC_OPS: &[&str] = &[
    "vec.limits",
    "vec.flags",
    "vec.trim",
    "vec.resize",
    "vec.is_equal",
    "vec.is_not_equal",
    "vec.is_equal_to_fixed",
    "vec.assert_equal",
    "vec.assert_not_equal",
    "vec.assert_equal_to_fixed",
    "vec.assert_not_equal_to_fixed",
];

/// The same gadget with capacity 12 and alignment 4 (trimming then realigns by 0..3
/// positions); contents are read through comparisons with constants.
pub const VEC4_OPS: &[&str] = &["vec4.limits", "vec4.flags", "vec4.trim", "vec4.is_equal", "vec4.assert_equal", "vec4.is_equal_to_fixed"];
pub const M4: usize = 12;
pub const A4: usize = 4;
/// ... and with capacity 9 and alignment 3 (an alignment that is not a power of two)
pub const VEC3_OPS: &[&str] = &["vec3.limits", "vec3.flags", "vec3.trim", "vec3.is_equal"];
pub const M3: usize = 9;
pub const A3: usize = 3;

pub fn vec_ops() -> Vec<String> {
    VEC_OPS.iter().chain(VEC4_OPS).chain(VEC3_OPS).map(|s| s.to_string()).collect()
}

fn cap(c: &OpCase) -> (usize, usize) {
    if c.op.starts_with("vec4.") {
        (M4, A4)
    } else if c.op.starts_with("vec3.") {
        (M3, A3)
    } else {
        (M, A)
    }
}

/// p = [len1, chosen filler 1, len2, chosen filler 2, n (trim)];
/// ins = payload 1, filler 1, payload 2, filler 2.
pub fn gen_case(rng: &mut Prng, op: &str) -> OpCase {
    let cm = if op.starts_with("vec4.") { M4 } else if op.starts_with("vec3.") { M3 } else { M };
    let len1 = match rng.below(4) {
        0 => *rng.pick(&[0usize, 1, cm - 1, cm]),
        _ => rng.usize(cm + 1),
    };
    let payload1: Vec<Fq> = (0..len1)
        .map(|_| match rng.below(4) {
            0 => Fq::ZERO, // the default filler as a payload element
            _ => draw_fq(rng),
        })
        .collect();
    // the second vector: the same payload, one element changed, a prefix / extension, or unrelated
    let payload2: Vec<Fq> = match rng.below(6) {
        0 | 1 => payload1.clone(),
        2 if len1 > 0 => {
            let mut p = payload1.clone();
            let i = rng.usize(len1);
            p[i] += Fq::ONE;
            p
        }
        3 if len1 > 0 => payload1[..len1 - 1].to_vec(),
        4 if len1 < cm => {
            let mut p = payload1.clone();
            p.push(Fq::ZERO);
            p
        }
        _ => (0..rng.usize(cm + 1)).map(|_| draw_fq(rng)).collect(),
    };
    let chosen1 = rng.chance(2, 3);
    let chosen2 = rng.chance(1, 2);
    let f1 = if chosen1 { uniform_fq(rng) } else { Fq::ZERO };
    let f2 = if chosen2 { uniform_fq(rng) } else { Fq::ZERO };
    let n = match rng.below(3) {
        0 => len1.min(cm) as u64,
        1 => (len1 as u64 + 1).min(cm as u64),
        _ => rng.below(cm as u64 + 1),
    };
    let mut ins: Vec<Fe> = payload1.iter().map(|x| Fe(*x)).collect();
    ins.push(Fe(f1));
    ins.extend(payload2.iter().map(|x| Fe(*x)));
    ins.push(Fe(f2));
    OpCase { op: op.to_string(), p: vec![len1 as u64, chosen1 as u64, payload2.len() as u64, chosen2 as u64, n], big: vec![], ins, bins: vec![], cols: 4, mbl: 8 }
}

fn parts(c: &OpCase) -> (Vec<Fq>, Option<Fq>, Vec<Fq>, Option<Fq>) {
    let (l1, l2) = (c.p[0] as usize, c.p[2] as usize);
    let p1: Vec<Fq> = c.ins[..l1].iter().map(|x| x.0).collect();
    let f1 = (c.p[1] == 1).then(|| c.ins[l1].0);
    let p2: Vec<Fq> = c.ins[l1 + 1..l1 + 1 + l2].iter().map(|x| x.0).collect();
    let f2 = (c.p[3] == 1).then(|| c.ins[l1 + 1 + l2].0);
    (p1, f1, p2, f2)
}

/// The filler values the Byzantine stage may overwrite.
pub fn fillers(c: &OpCase) -> Vec<Fq> {
    let (p1, f1, p2, f2) = parts(c);
    let lens = [Fq::from(p1.len() as u64), Fq::from(p2.len() as u64)];
    [f1, f2].into_iter().flatten().filter(|f| !p1.contains(f) && !p2.contains(f) && !lens.contains(f)).collect()
}

#[derive(Clone)]
pub struct VecCircuit {
    pub case: OpCase,
    pub known: bool,
}

impl Circuit<F> for VecCircuit {
    type Config = (<VarLenPoseidonGadget<F> as FromScratch<F>>::Config, <VectorGadget<F> as FromScratch<F>>::Config);
    type FloorPlanner = SimpleFloorPlanner;
    type Params = ();
    fn without_witnesses(&self) -> Self {
        VecCircuit { case: self.case.clone(), known: false }
    }
    fn configure(meta: &mut ConstraintSystem<F>) -> Self::Config {
        let committed = meta.instance_column();
        let plain = meta.instance_column();
        let cols = [committed, plain];
        (VarLenPoseidonGadget::configure_from_scratch(meta, &cols), VectorGadget::configure_from_scratch(meta, &cols))
    }
    fn synthesize(&self, config: Self::Config, mut l: impl Layouter<F>) -> Result<(), Error> {
        let hasher = VarLenPoseidonGadget::<F>::new_from_scratch(&config.0);
        let ng = NG::new_from_scratch(&config.1);
        let vg = VectorGadget::new(&ng);
        let c = &self.case;
        let (p1, f1, p2, f2) = parts(c);
        let val = |v: Vec<Fq>| if self.known { Value::known(v) } else { Value::unknown() };
        let x: AssignedVector<F, AssignedNative<F>, M, A> = vg.assign_with_filler(&mut l, val(p1), f1)?;
        let publish_bit = |l: &mut _, b: &AssignedBit<F>| -> Result<(), Error> {
            let n: AssignedNative<F> = b.clone().into();
            ng.constrain_as_public_input(l, &n)
        };
        match c.op.split('.').nth(1).unwrap() {
            "limits" => {
                let (s, e) = vg.get_limits(&mut l, &x)?;
                ng.constrain_as_public_input(&mut l, &s)?;
                ng.constrain_as_public_input(&mut l, &e)?;
            }
            "flags" => {
                let flags = vg.padding_flag(&mut l, &x)?;
                for b in &flags {
                    publish_bit(&mut l, b)?;
                }
            }
            "trim" => {
                let t = vg.trim_beginning(&mut l, &x, c.p[4] as usize)?;
                let (s, e) = vg.get_limits(&mut l, &t)?;
                ng.constrain_as_public_input(&mut l, &s)?;
                ng.constrain_as_public_input(&mut l, &e)?;
                let d: AssignedNative<F> = hasher.varhash(&mut l, &t)?;
                ng.constrain_as_public_input(&mut l, &d)?;
            }
            "resize" => {
                let r: AssignedVector<F, AssignedNative<F>, L, A> = vg.resize::<L>(&mut l, x)?;
                let (s, e) = vg.get_limits(&mut l, &r)?;
                ng.constrain_as_public_input(&mut l, &s)?;
                ng.constrain_as_public_input(&mut l, &e)?;
                let d: AssignedNative<F> = hasher.varhash(&mut l, &r)?;
                ng.constrain_as_public_input(&mut l, &d)?;
            }
            name => {
                if name.ends_with("to_fixed") {
                    match name {
                        "is_equal_to_fixed" => {
                            let b = vg.is_equal_to_fixed(&mut l, &x, p2)?;
                            publish_bit(&mut l, &b)?;
                        }
                        "assert_equal_to_fixed" => vg.assert_equal_to_fixed(&mut l, &x, p2)?,
                        "assert_not_equal_to_fixed" => vg.assert_not_equal_to_fixed(&mut l, &x, p2)?,
                        o => panic!("unknown vec op {o}"),
                    }
                } else {
                    let y: AssignedVector<F, AssignedNative<F>, M, A> = vg.assign_with_filler(&mut l, val(p2), f2)?;
                    match name {
                        "is_equal" => {
                            let b = vg.is_equal(&mut l, &x, &y)?;
                            publish_bit(&mut l, &b)?;
                        }
                        "is_not_equal" => {
                            let b = vg.is_not_equal(&mut l, &x, &y)?;
                            publish_bit(&mut l, &b)?;
                        }
                        "assert_equal" => vg.assert_equal(&mut l, &x, &y)?,
                        "assert_not_equal" => vg.assert_not_equal(&mut l, &x, &y)?,
                        o => panic!("unknown vec op {o}"),
                    }
                }
            }
        }
        hasher.load_from_scratch(&mut l)?;
        ng.load_from_scratch(&mut l)
    }
}

fn lims(cap: usize, align: usize, len: usize) -> (Fq, Fq) {
    let r = match (cap, align) {
        (M, A) => get_lims::<M, A>(len),
        (M4, A4) => get_lims::<M4, A4>(len),
        (M3, A3) => get_lims::<M3, A3>(len),
        (L, A) => get_lims::<L, A>(len),
        _ => unreachable!("vector shape"),
    };
    (Fq::from(r.start as u64), Fq::from(r.end as u64))
}

/// The honest inputs decide admissibility (nothing of the inputs is published).
pub fn expected_admissible(c: &OpCase) -> bool {
    let (p1, _, p2, _) = parts(c);
    match c.op.split('.').nth(1).unwrap() {
        "trim" => c.p[4] as usize <= p1.len(),
        "assert_equal" | "assert_equal_to_fixed" => p1 == p2,
        "assert_not_equal" | "assert_not_equal_to_fixed" => p1 != p2,
        _ => true,
    }
}

pub fn check(c: &OpCase, publics: &[Fq]) -> Result<bool, String> {
    let (p1, _, p2, _) = parts(c);
    if !expected_admissible(c) {
        return Ok(false);
    }
    let bit = |b: bool| Fq::from(b as u64);
    let (cm, ca) = cap(c);
    let expect: Vec<Fq> = match c.op.split('.').nth(1).unwrap() {
        "limits" => {
            let (s, e) = lims(cm, ca, p1.len());
            vec![s, e]
        }
        "flags" => {
            let r = match cm {
                M => get_lims::<M, A>(p1.len()),
                M4 => get_lims::<M4, A4>(p1.len()),
                _ => get_lims::<M3, A3>(p1.len()),
            };
            (0..cm).map(|i| bit(!r.contains(&i))).collect()
        }
        "trim" if cm != M => {
            // limits, then the trimmed vector compared with its expected payload and with an altered one
            let n = c.p[4] as usize;
            let (s, e) = lims(cm, ca, p1.len() - n);
            vec![s, e, bit(true), bit(false)]
        }
        "trim" => {
            let n = c.p[4] as usize;
            let (s, e) = lims(M, A, p1.len() - n);
            vec![s, e, textbook_poseidon(&p1[n..])]
        }
        "resize" => {
            let (s, e) = lims(L, A, p1.len());
            vec![s, e, textbook_poseidon(&p1)]
        }
        "is_equal" | "is_equal_to_fixed" => vec![bit(p1 == p2)],
        "is_not_equal" => vec![bit(p1 != p2)],
        _ => vec![],
    };
    if publics == expect.as_slice() {
        Ok(true)
    } else {
        Err(format!(
            "vector of {} elements (capacity {}, alignment {}), second operand of {} elements, trim {}: the circuit publishes {:?}, the definition gives {:?}",
            p1.len(),
            cap(c).0,
            cap(c).1,
            p2.len(),
            c.p[4],
            publics.iter().map(|x| Fe(*x)).collect::<Vec<_>>(),
            expect.iter().map(|x| Fe(*x)).collect::<Vec<_>>()
        ))
    }
}

/// Qualifier for signatures: the operation goes through `padding_flag` and the
/// data of the first vector starts inside the last chunk of its buffer.
pub fn input_class(c: &OpCase) -> String {
    let name = c.op.split('.').nth(1).unwrap_or("");
    let uses_flags = matches!(name, "flags" | "is_equal" | "is_not_equal" | "assert_equal" | "assert_not_equal");
    let len = c.p[0] as usize;
    if uses_flags && len > 0 && len <= cap(c).1 {
        "[data starts in the last chunk: 0 < len <= A]".into()
    } else {
        String::new()
    }
}

/// An element that differs from the payload in one position (or in length).
fn altered(p: &[Fq]) -> Vec<Fq> {
    let mut q = p.to_vec();
    match q.last_mut() {
        Some(x) => *x += Fq::ONE,
        None => q.push(Fq::ONE),
    }
    q
}

#[derive(Clone)]
pub struct VecGCircuit<const MM: usize, const AA: usize> {
    pub case: OpCase,
    pub known: bool,
}

impl<const MM: usize, const AA: usize> Circuit<F> for VecGCircuit<MM, AA> {
    type Config = <VectorGadget<F> as FromScratch<F>>::Config;
    type FloorPlanner = SimpleFloorPlanner;
    type Params = ();
    fn without_witnesses(&self) -> Self {
        VecGCircuit { case: self.case.clone(), known: false }
    }
    fn configure(meta: &mut ConstraintSystem<F>) -> Self::Config {
        let committed = meta.instance_column();
        let plain = meta.instance_column();
        VectorGadget::configure_from_scratch(meta, &[committed, plain])
    }
    fn synthesize(&self, config: Self::Config, mut l: impl Layouter<F>) -> Result<(), Error> {
        let ng = NG::new_from_scratch(&config);
        let vg = VectorGadget::new(&ng);
        let c = &self.case;
        let (p1, f1, p2, f2) = parts(c);
        let val = |v: Vec<Fq>| if self.known { Value::known(v) } else { Value::unknown() };
        let x: AssignedVector<F, AssignedNative<F>, MM, AA> = vg.assign_with_filler(&mut l, val(p1.clone()), f1)?;
        let publish_bit = |l: &mut _, b: &AssignedBit<F>| -> Result<(), Error> {
            let n: AssignedNative<F> = b.clone().into();
            ng.constrain_as_public_input(l, &n)
        };
        match c.op.split('.').nth(1).unwrap() {
            "limits" => {
                let (s, e) = vg.get_limits(&mut l, &x)?;
                ng.constrain_as_public_input(&mut l, &s)?;
                ng.constrain_as_public_input(&mut l, &e)?;
            }
            "flags" => {
                for b in &vg.padding_flag(&mut l, &x)? {
                    publish_bit(&mut l, b)?;
                }
            }
            "trim" => {
                let n = c.p[4] as usize;
                let t = vg.trim_beginning(&mut l, &x, n)?;
                let (s, e) = vg.get_limits(&mut l, &t)?;
                ng.constrain_as_public_input(&mut l, &s)?;
                ng.constrain_as_public_input(&mut l, &e)?;
                // the expected payload is a constant of the circuit: computed from the honest
                // input, which is legitimate because the Byzantine stage never edits payload cells
                let rest: Vec<Fq> = p1.iter().skip(n).copied().collect();
                let b1 = vg.is_equal_to_fixed(&mut l, &t, rest.clone())?;
                publish_bit(&mut l, &b1)?;
                let b2 = vg.is_equal_to_fixed(&mut l, &t, altered(&rest))?;
                publish_bit(&mut l, &b2)?;
            }
            "is_equal_to_fixed" => {
                let b = vg.is_equal_to_fixed(&mut l, &x, p2)?;
                publish_bit(&mut l, &b)?;
            }
            name => {
                let y: AssignedVector<F, AssignedNative<F>, MM, AA> = vg.assign_with_filler(&mut l, val(p2), f2)?;
                match name {
                    "is_equal" => {
                        let b = vg.is_equal(&mut l, &x, &y)?;
                        publish_bit(&mut l, &b)?;
                    }
                    "assert_equal" => vg.assert_equal(&mut l, &x, &y)?,
                    o => panic!("unknown vec4 op {o}"),
                }
            }
        }
        ng.load_from_scratch(&mut l)
    }
}

pub type Vec4Circuit = VecGCircuit<M4, A4>;
pub type Vec3Circuit = VecGCircuit<M3, A3>;
