pub mod c01;
pub mod c02;
pub mod c03;
pub mod c04;
pub mod c05;
pub mod c06;
pub mod c07;
pub mod c08;
pub mod c09;
pub mod opcheck;
pub mod c12;
pub mod c14;
pub mod c15;
pub mod c16;
pub mod c17;
pub mod c18;
pub mod c19;
pub mod c20;
pub mod stdpipe;

use crate::core::runner::Check;

pub fn all() -> Vec<Box<dyn Check>> {
    vec![Box::new(c01::C01), Box::new(c02::C02), Box::new(c03::C03), Box::new(c04::C04), Box::new(c05::C05), Box::new(c06::C06), Box::new(c07::C07), Box::new(c08::C08), Box::new(c09::C09), Box::new(c12::C12), Box::new(c14::C14), Box::new(c15::C15), Box::new(c16::C16), Box::new(c17::C17), Box::new(c18::C18), Box::new(c19::C19), Box::new(c20::C20)]
}

pub fn by_id(id: &str) -> Option<Box<dyn Check>> {
    all().into_iter().find(|c| c.id() == id)
}
