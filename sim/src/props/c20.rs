//! C20 - recursion and aggregation accept exactly the valid inner proofs.
//! Parties in one process: inner provers, the aggregator (a prover that
//! verifies inner proofs off-circuit and in-circuit), the final verifier;
//! faults are placed on the deliveries between them (inner proof, inner
//! public inputs, aggregated proof section by section) and on the claims
//! inside the inner-product argument.
use std::sync::{Arc, Mutex, OnceLock};

use blake2b_simd::State as Blake2b;
use ff::Field;
use group::Group;
use midnight_aggregator::{light_aggregator::LightAggregator, verif_ipa, LightPoseidonFS};
use midnight_circuits::{
    hash::poseidon::PoseidonChip,
    instructions::{hash::HashCPU, ArithInstructions, AssignmentInstructions, PublicInputInstructions},
};
use midnight_curves::{Bls12, Fq, G1Projective};
use midnight_proofs::{
    circuit::{Layouter, Value as CValue},
    plonk::Error,
    poly::kzg::params::ParamsKZG,
    transcript::{CircuitTranscript, Transcript},
};
use midnight_zk_stdlib::{Relation, ZkStdLib, ZkStdLibArch};
use rand::SeedableRng;
use rand_chacha::ChaCha8Rng;
use serde::{Deserialize, Serialize};
use serde_json::Value;

use crate::{
    core::{
        prng::{self, Prng},
        runner::{catch, Check, Meta, Tier, Verdict, Viol},
        stats::Stats,
    },
    tracing_t::{self, Op, TracingTranscript},
};

type F = Fq;
type C = G1Projective;

pub struct C20;

// ------------------------------------------------------------------ inner relations (2 public inputs)

/// shape 0: Poseidon (lookups through the range-check table, Poseidon gates)
#[derive(Clone, Default)]
pub struct PoseidonInner;

impl Relation for PoseidonInner {
    type Instance = [F; 2];
    type Witness = [F; 2];
    fn format_instance(i: &[F; 2]) -> Result<Vec<F>, Error> {
        Ok(i.to_vec())
    }
    fn circuit(&self, s: &ZkStdLib, l: &mut impl Layouter<F>, _i: CValue<[F; 2]>, w: CValue<[F; 2]>) -> Result<(), Error> {
        let m = s.assign_many(l, &w.transpose_array())?;
        let o1 = s.poseidon(l, &m)?;
        let o2 = s.poseidon(l, &m[1..])?;
        s.constrain_as_public_input(l, &o1)?;
        s.constrain_as_public_input(l, &o2)
    }
    fn used_chips(&self) -> ZkStdLibArch {
        ZkStdLibArch { poseidon: true, nr_pow2range_cols: 2, ..ZkStdLibArch::default() }
    }
    fn write_relation<W: std::io::Write>(&self, _w: &mut W) -> std::io::Result<()> {
        Ok(())
    }
    fn read_relation<R: std::io::Read>(_r: &mut R) -> std::io::Result<Self> {
        Ok(PoseidonInner)
    }
}

/// shape 1: arithmetic only, another architecture (one range-check column)
#[derive(Clone, Default)]
pub struct ArithInner;

impl Relation for ArithInner {
    type Instance = [F; 2];
    type Witness = [F; 2];
    fn format_instance(i: &[F; 2]) -> Result<Vec<F>, Error> {
        Ok(i.to_vec())
    }
    fn circuit(&self, s: &ZkStdLib, l: &mut impl Layouter<F>, _i: CValue<[F; 2]>, w: CValue<[F; 2]>) -> Result<(), Error> {
        let m = s.assign_many(l, &w.transpose_array())?;
        let p = s.mul(l, &m[0], &m[1], None)?;
        let q = s.add(l, &m[0], &p)?;
        s.constrain_as_public_input(l, &p)?;
        s.constrain_as_public_input(l, &q)
    }
    fn used_chips(&self) -> ZkStdLibArch {
        ZkStdLibArch { nr_pow2range_cols: 1, ..ZkStdLibArch::default() }
    }
    fn write_relation<W: std::io::Write>(&self, _w: &mut W) -> std::io::Result<()> {
        Ok(())
    }
    fn read_relation<R: std::io::Read>(_r: &mut R) -> std::io::Result<Self> {
        Ok(ArithInner)
    }
}

/// shape 2: a hand-written circuit whose single gate reads the plain instance
/// column at two rotations (a = inst[0] + inst[1]); no lookup, k = 4
#[derive(Clone, Default)]
pub struct RotInner {
    a: CValue<F>,
}

impl RotInner {
    pub fn with_sum(a: F) -> Self {
        RotInner { a: CValue::known(a) }
    }
}

impl midnight_proofs::plonk::Circuit<F> for RotInner {
    type Config = (midnight_proofs::plonk::Column<midnight_proofs::plonk::Advice>, midnight_proofs::plonk::Selector);
    type FloorPlanner = midnight_proofs::circuit::SimpleFloorPlanner;
    type Params = ();
    fn without_witnesses(&self) -> Self {
        RotInner::default()
    }
    fn configure(meta: &mut midnight_proofs::plonk::ConstraintSystem<F>) -> Self::Config {
        use midnight_proofs::poly::Rotation;
        let _committed = meta.instance_column();
        let plain = meta.instance_column();
        let a = meta.advice_column();
        let s = meta.selector();
        meta.create_gate("a = inst(cur) + inst(next)", |m| {
            let a = m.query_advice(a, Rotation::cur());
            let i0 = m.query_instance(plain, Rotation::cur());
            let i1 = m.query_instance(plain, Rotation::next());
            midnight_proofs::plonk::Constraints::with_selector(s, vec![a - i0 - i1])
        });
        (a, s)
    }
    fn synthesize(&self, config: Self::Config, mut l: impl Layouter<F>) -> Result<(), Error> {
        l.assign_region(
            || "sum",
            |mut r| {
                config.1.enable(&mut r, 0)?;
                r.assign_advice(|| "a", config.0, 0, || self.a)?;
                Ok(())
            },
        )
    }
}

fn statement(shape: usize, w: [F; 2]) -> [F; 2] {
    if shape == 2 {
        return w;
    }
    if shape == 0 {
        [<PoseidonChip<F> as HashCPU<F, F>>::hash(&w), <PoseidonChip<F> as HashCPU<F, F>>::hash(&w[1..])]
    } else {
        [w[0] * w[1], w[0] + w[0] * w[1]]
    }
}

// ------------------------------------------------------------------ aggregation fixtures

const AGG_K: u32 = 15;

pub struct AggFixture {
    pub n: usize,
    pub shape: usize,
    pub srs: ParamsKZG<Bls12>,
    pub inner_srs: ParamsKZG<Bls12>,
    pub instances: Vec<Vec<F>>,
    pub inner_proofs: Vec<Vec<u8>>,
    pub meta_proof: Vec<u8>,
    /// (section, offset, length, type) of every element the verifier reads
    pub layout: Vec<(String, usize, usize, String)>,
    agg: AnyAgg,
    /// a pool of further valid inner proofs with their instances
    pub spare: Vec<(Vec<F>, Vec<u8>)>,
}

enum AnyAgg {
    A1(LightAggregator<1>),
    A2(LightAggregator<2>),
    A3(LightAggregator<3>),
}

fn inner_prove(shape: usize, srs: &ParamsKZG<Bls12>, seed: u64, count: usize) -> (midnight_proofs::plonk::VerifyingKey<F, midnight_proofs::poly::kzg::KZGCommitmentScheme<Bls12>>, Vec<(Vec<F>, Vec<u8>)>) {
    let mut rng = ChaCha8Rng::seed_from_u64(seed);
    macro_rules! go {
        ($rel:expr, $ty:ty) => {{
            let rel = $rel;
            let vk = midnight_zk_stdlib::setup_vk(srs, &rel);
            let pk = midnight_zk_stdlib::setup_pk(&rel, &vk);
            let mut out = vec![];
            for _ in 0..count {
                let w = [F::random(&mut rng), F::random(&mut rng)];
                let inst = statement(shape, w);
                let proof = midnight_zk_stdlib::prove::<$ty, LightPoseidonFS<F>>(srs, &pk, &rel, &inst, w, &mut rng).expect("inner proof");
                out.push((inst.to_vec(), proof));
            }
            (vk.vk().clone(), out)
        }};
    }
    if shape == 2 {
        use midnight_proofs::{plonk::{create_proof, keygen_pk, keygen_vk_with_k}, poly::kzg::KZGCommitmentScheme};
        let vk = keygen_vk_with_k(srs, &RotInner::default(), 4).expect("inner keygen");
        let pk = keygen_pk(vk.clone(), &RotInner::default()).expect("inner keygen");
        let mut out = vec![];
        for _ in 0..count {
            let inst = vec![F::random(&mut rng), F::random(&mut rng)];
            let c = RotInner { a: CValue::known(inst[0] + inst[1]) };
            let mut t = CircuitTranscript::<LightPoseidonFS<F>>::init();
            create_proof::<F, KZGCommitmentScheme<Bls12>, _, _>(srs, &pk, &[c], 1, &[&[&[], &inst]], &mut rng, &mut t).expect("inner proof");
            out.push((inst, t.finalize()));
        }
        return (vk, out);
    }
    if shape == 0 {
        go!(PoseidonInner, PoseidonInner)
    } else {
        go!(ArithInner, ArithInner)
    }
}

impl AggFixture {
    fn build(n: usize, shape: usize) -> AggFixture {
        rayon::sim::isolated(1, || {
            let mut srs = ParamsKZG::unsafe_setup(AGG_K, ChaCha8Rng::seed_from_u64(0xA66));
            let mut inner_srs = srs.clone();
            match shape {
                0 => midnight_zk_stdlib::downsize_srs_for_relation(&mut inner_srs, &PoseidonInner),
                1 => midnight_zk_stdlib::downsize_srs_for_relation(&mut inner_srs, &ArithInner),
                _ => inner_srs.downsize(4),
            }
            let (inner_vk, mut proofs) = inner_prove(shape, &inner_srs, 0x1000 + (n * 7 + shape) as u64, n + 2);
            let spare = proofs.split_off(n);
            let instances: Vec<Vec<F>> = proofs.iter().map(|p| p.0.clone()).collect();
            let inner_proofs: Vec<Vec<u8>> = proofs.iter().map(|p| p.1.clone()).collect();
            let mut rng = ChaCha8Rng::seed_from_u64(77);
            let mut t = CircuitTranscript::<Blake2b>::init();
            macro_rules! mk {
                ($N:literal, $V:ident) => {{
                    let agg = LightAggregator::<$N>::init(&mut srs, &inner_vk).expect("aggregator init");
                    let ins: [Vec<F>; $N] = instances.clone().try_into().unwrap();
                    let prs: [Vec<u8>; $N] = inner_proofs.clone().try_into().unwrap();
                    agg.aggregate_proofs(&srs, &ins, &prs, &mut rng, &mut t).expect("aggregation of valid proofs");
                    AnyAgg::$V(agg)
                }};
            }
            let agg = match n {
                1 => mk!(1, A1),
                2 => mk!(2, A2),
                _ => mk!(3, A3),
            };
            let meta_proof = t.finalize();
            let mut fx = AggFixture { n, shape, srs, inner_srs, instances, inner_proofs, meta_proof, layout: vec![], agg, spare };
            // the layout of the aggregated proof, from the verifier's reads
            tracing_t::clear_log();
            let mut tt = TracingTranscript::<Blake2b>::init_from_bytes(&fx.meta_proof);
            let ok = fx.verify_with(&fx.instances.clone(), &mut tt);
            assert!(ok.is_ok(), "the untouched aggregated proof must verify: {ok:?}");
            let log = tracing_t::take_log();
            let reads: Vec<_> = log.iter().filter(|e| e.op == Op::Read).collect();
            // sections: accumulator (until the first squeeze), aggregator proof, inner-product argument (last 2*log2(k)+1 reads)
            let first_squeeze = log.iter().position(|e| e.op == Op::Squeeze).unwrap_or(0);
            let acc_reads = log[..first_squeeze].iter().filter(|e| e.op == Op::Read).count();
            let ipa_reads = {
                // the argument ends with one scalar preceded by pairs of points
                let mut k = 1;
                let mut i = reads.len() - 1;
                while i >= 2 && reads[i - 1].ty == "G1" && reads[i - 2].ty == "G1" && k < 40 {
                    // stop where the plonk proof's own trailing scalars/points begin: the IPA has at most 2*log2(size) points
                    k += 2;
                    i -= 2;
                    if k > 2 * 12 {
                        break;
                    }
                }
                k
            };
            for (i, e) in reads.iter().enumerate() {
                let sec = if i < acc_reads {
                    "accumulator"
                } else if i + ipa_reads >= reads.len() {
                    "inner-product argument"
                } else {
                    "aggregator proof"
                };
                fx.layout.push((sec.to_string(), e.off, e.len, e.ty.clone()));
            }
            fx
        })
    }

    pub fn verify_with<T: Transcript>(&self, instances: &[Vec<F>], t: &mut T) -> Result<(), Error>
    where
        C: midnight_proofs::transcript::Hashable<T::Hash>,
        F: midnight_proofs::transcript::Sampleable<T::Hash> + midnight_proofs::transcript::Hashable<T::Hash>,
        u32: midnight_proofs::transcript::Hashable<T::Hash>,
    {
        let vp = self.srs.verifier_params();
        match &self.agg {
            AnyAgg::A1(a) => a.verify(&vp, &instances.to_vec().try_into().map_err(|_| Error::InvalidInstances)?, t),
            AnyAgg::A2(a) => a.verify(&vp, &instances.to_vec().try_into().map_err(|_| Error::InvalidInstances)?, t),
            AnyAgg::A3(a) => a.verify(&vp, &instances.to_vec().try_into().map_err(|_| Error::InvalidInstances)?, t),
        }
    }

    pub fn aggregate(&self, instances: &[Vec<F>], proofs: &[Vec<u8>], seed: u64) -> Result<Vec<u8>, Error> {
        let mut rng = ChaCha8Rng::seed_from_u64(seed);
        let mut t = CircuitTranscript::<Blake2b>::init();
        macro_rules! go {
            ($a:expr, $N:literal) => {{
                let ins: [Vec<F>; $N] = instances.to_vec().try_into().map_err(|_| Error::InvalidInstances)?;
                let prs: [Vec<u8>; $N] = proofs.to_vec().try_into().map_err(|_| Error::InvalidInstances)?;
                $a.aggregate_proofs(&self.srs, &ins, &prs, &mut rng, &mut t)?;
            }};
        }
        match &self.agg {
            AnyAgg::A1(a) => go!(a, 1),
            AnyAgg::A2(a) => go!(a, 2),
            AnyAgg::A3(a) => go!(a, 3),
        }
        Ok(t.finalize())
    }
}

type Slot = Mutex<Option<Arc<AggFixture>>>;

fn fixture(n: usize, shape: usize) -> Arc<AggFixture> {
    static CELLS: OnceLock<Vec<Slot>> = OnceLock::new();
    let cells = CELLS.get_or_init(|| (0..9).map(|_| Mutex::new(None)).collect());
    let mut g = cells[(n - 1) * 3 + shape].lock().unwrap();
    if g.is_none() {
        *g = Some(crate::core::runner::on_fresh_thread(move || Arc::new(AggFixture::build(n, shape))));
    }
    g.as_ref().unwrap().clone()
}

// ------------------------------------------------------------------ scenarios

#[derive(Clone, Debug, Serialize, Deserialize, PartialEq)]
pub enum MetaFault {
    None,
    /// the element with this index (in reading order) is replaced
    Element { index: usize, how: u8 },
    BitFlip { byte: usize, bit: u8 },
    Truncate { at: usize },
    Append { n: usize },
    /// public input j of inner proof i changed at the final verifier
    Instance { i: usize, j: usize },
    /// the final verifier is given the inner statements in another order
    SwapInstances,
}

#[derive(Clone, Debug, Serialize, Deserialize, PartialEq)]
pub enum InnerFault {
    /// a byte of inner proof i flipped before aggregation
    ProofBit { i: usize, byte: usize, bit: u8 },
    /// public input j of inner proof i changed before aggregation
    Instance { i: usize, j: usize },
    /// inner proof i replaced by a valid proof of another statement
    OtherProof { i: usize },
    /// statement and proof of i replaced by a valid pair (must still aggregate and verify)
    OtherValidPair { i: usize },
}

#[derive(Clone, Debug, Serialize, Deserialize, PartialEq)]
pub enum IpaFault {
    None,
    Base1(usize),
    Base2(usize),
    Res1,
    Res2,
    /// element of the proof (points L_j, R_j, then the final scalar)
    ProofElement(usize, u8),
    /// the prover is given a scalar vector that does not match the claims
    ProverScalar(usize),
    /// both claims altered jointly, (res1 + D, res2 - D/r'), where r' is the batching challenge
    /// an adversary computes from a prefix of the public data only: 0 = the bases, 1 = bases and
    /// res1, 2 = bases and res2 (sound only if the real challenge depends on both claims)
    JointClaims(u8),
    Truncate(usize),
}

#[derive(Clone, Debug, Serialize, Deserialize, PartialEq)]
pub enum Scn {
    Ipa { log_n: u32, seed: u64, faults: Vec<IpaFault>, zeros: bool },
    Meta { n: usize, shape: usize, faults: Vec<MetaFault> },
    Inner { n: usize, shape: usize, fault: InnerFault, seed: u64 },
    /// the foreign-curve verifier gadget on one inner proof of a generated circuit
    Gadget {
        spec: crate::gen_circuit::Spec,
        witness: crate::gen_circuit::Witness,
        blinding_seed: u64,
        variant: GVariant,
        /// the inner circuit is the hand-written one (instance column read at two rotations, no
        /// permutation argument) instead of the generated `spec`
        #[serde(default)]
        rot: bool,
    },
}

#[derive(Clone, Debug, Serialize, Deserialize, PartialEq)]
pub enum GVariant {
    Honest,
    /// scalar element `i` (among the proof's scalars) replaced by another scalar: still parses
    Scalar(usize),
    /// point element `i` replaced by another valid point
    Point(usize),
    /// public input `j` of the plain instance column changed
    Instance(usize),
    /// the committed instance replaced by another point
    Committed,
    /// a point element made undecodable
    BadPoint(usize),
}

fn vio(class: &str, what: &str, detail: String) -> Verdict {
    Verdict::Violation(Viol::new(class, format!("{class}:{what}"), detail))
}

impl Check for C20 {
    fn id(&self) -> &'static str {
        "C20"
    }
    fn meta(&self) -> Meta {
        Meta {
            level: "fault_enumeration",
            rule: "Aggregation runs: inner provers (two standard-library relations of different architecture, Poseidon transcript), the light aggregator (NB_PROOFS in {1,2,3}; real keygen, real in-circuit verification of the inner proofs through the fake-curve chip, real proving) and the final verifier run in one process; the untouched aggregated proof must verify and every fault on a delivery must be rejected with an error value: every element of the aggregated proof (accumulator section, aggregator proof, inner-product section - layout taken from the verifier's own reads through the tracing transcript) replaced by other valid and invalid encodings, bit flips, truncation at every element boundary, appended bytes, each inner public input changed or the statements permuted at the final verifier; before aggregation: an inner proof bit-flipped, an inner public input changed, an inner proof swapped for a valid proof of another statement (the aggregator must refuse with an error, or its output must not verify), and a valid replacement pair (must aggregate and verify). Inner-product runs: vectors of 1..64 elements (incl. zero scalars and identity bases), complete for honest claims; every base, either claimed value, every proof element, the prover's vector and truncations are altered once each and must be rejected. distinct_nontrivial counts distinct (fixture, fault) digests",
            assumptions: vec![
                "cryptographic soundness error ignored (a random replacement of a group element or scalar is accepted with negligible probability)",
                "the foreign-curve verifier gadget (BlstrsEmulation through ForeignEccChip) needs a 2^18-row circuit per case and is exercised by the Gadget scenarios of the thorough tier only",
                "inner circuits have exactly two public inputs (a limit of the light aggregator)",
            ],
            components: vec![
                ("LightAggregator init / aggregate_proofs / verify, AggregatorCircuit, fake curve chip, verifier gadget, transcript gadget", "real"),
                ("inner-product argument (hook H4 exposes it)", "real"),
                ("inner provers, keygen, KZG", "real, single-threaded simulated pool"),
                ("SRS", "unsafe_setup with a fixed seed"),
            ],
            expected_probes: vec!["aggregated_proof_accepted", "meta_fault_rejected", "inner_fault_refused", "ipa_complete", "ipa_fault_rejected"],
        }
    }
    fn runs(&self, tier: Tier) -> u64 {
        match tier {
            Tier::Quick => 160,
            Tier::Thorough => 3000,
        }
    }
    fn generate(&self, rng: &mut Prng, tier: Tier, idx: u64) -> Value {
        let thorough = tier == Tier::Thorough;
        let scn = match idx % 8 {
            0 | 1 | 2 => {
                let log_n = rng.below(7) as u32;
                let n = 1usize << log_n;
                let mut faults = vec![IpaFault::None];
                let all = idx % 16 < 8 || thorough;
                let nf = if all { 64 } else { 12 };
                for _ in 0..nf {
                    faults.push(match rng.below(8) {
                        0 => IpaFault::Base1(rng.usize(n)),
                        1 => IpaFault::Base2(rng.usize(n)),
                        2 => IpaFault::Res1,
                        3 => IpaFault::Res2,
                        4 | 5 => IpaFault::ProofElement(rng.usize(2 * log_n as usize + 1), rng.below(4) as u8),
                        6 => {
                            if rng.chance(1, 2) {
                                IpaFault::ProverScalar(rng.usize(n))
                            } else {
                                IpaFault::JointClaims(rng.below(3) as u8)
                            }
                        }
                        _ => IpaFault::Truncate(rng.usize(2 * log_n as usize + 1)),
                    });
                }
                Scn::Ipa { log_n, seed: rng.u64(), faults, zeros: rng.chance(1, 3) }
            }
            6 if (thorough && idx % 16 == 6) || idx == 6 => {
                use crate::gen_circuit::{gen_spec, gen_witness, GenOpts};
                let mut spec = gen_spec(rng, GenOpts { k_min: 4, k_max: 6, allow_phases: false, max_rot: 1 });
                let mut tries = 0;
                while (spec.n_instance != 2 || spec.v1) && tries < 200 {
                    spec = gen_spec(rng, GenOpts { k_min: 4, k_max: 6, allow_phases: false, max_rot: 1 });
                    tries += 1;
                }
                let witness = gen_witness(rng, &spec);
                let variant = match rng.below(7) {
                    0 | 1 => GVariant::Honest,
                    2 => GVariant::Scalar(rng.usize(64)),
                    3 => GVariant::Point(rng.usize(64)),
                    4 => GVariant::Instance(rng.usize(8)),
                    5 => GVariant::Committed,
                    _ => GVariant::BadPoint(rng.usize(64)),
                };
                Scn::Gadget { spec, witness, blinding_seed: rng.u64(), variant, rot: rng.chance(1, 4) }
            }
            7 if thorough || idx % 32 == 7 => {
                // one aggregation per run: sampled
                let (n, shape) = (1 + rng.usize(3), if thorough { rng.usize(3) } else { *rng.pick(&[0usize, 2]) });
                let i = rng.usize(n);
                let fault = match rng.below(5) {
                    0 | 1 => InnerFault::ProofBit { i, byte: rng.usize(1 << 20), bit: rng.below(8) as u8 },
                    2 => InnerFault::Instance { i, j: rng.usize(2) },
                    3 => InnerFault::OtherProof { i },
                    _ => InnerFault::OtherValidPair { i },
                };
                Scn::Inner { n, shape, fault, seed: rng.u64() }
            }
            _ => {
                let (n, shape) = if thorough { (1 + rng.usize(3), rng.usize(3)) } else { (1 + (idx as usize / 8) % 3, if (idx / 24) % 2 == 0 { 0 } else { 2 }) };
                let mut faults = vec![MetaFault::None];
                let nf = if thorough { 60 } else { 30 };
                for _ in 0..nf {
                    faults.push(match rng.below(10) {
                        0..=4 => MetaFault::Element { index: rng.usize(1 << 16), how: rng.below(5) as u8 },
                        5 => MetaFault::BitFlip { byte: rng.usize(1 << 20), bit: rng.below(8) as u8 },
                        6 => MetaFault::Truncate { at: rng.usize(1 << 16) },
                        7 => MetaFault::Append { n: 1 + rng.usize(64) },
                        8 => MetaFault::Instance { i: rng.usize(n), j: rng.usize(2) },
                        _ => MetaFault::SwapInstances,
                    });
                }
                Scn::Meta { n, shape, faults }
            }
        };
        serde_json::to_value(scn).unwrap()
    }
    fn execute(&self, scn: &Value, st: &mut Stats) -> Verdict {
        let s: Scn = match serde_json::from_value(scn.clone()) {
            Ok(s) => s,
            Err(e) => return Verdict::Harness(format!("bad scenario: {e}")),
        };
        match s {
            Scn::Ipa { log_n, seed, faults, zeros } => run_ipa(log_n, seed, &faults, zeros, st),
            Scn::Meta { n, shape, faults } => run_meta(n, shape, &faults, st),
            Scn::Inner { n, shape, fault, seed } => run_inner(n, shape, &fault, seed, st),
            Scn::Gadget { spec, witness, blinding_seed, variant, rot } => gadget::run(&spec, &witness, blinding_seed, &variant, rot, st),
        }
    }
    fn shrink(&self, scn: &Value, viol: &Viol) -> Vec<Value> {
        let s: Scn = serde_json::from_value(scn.clone()).unwrap();
        let mut out = vec![];
        if let Some(h) = &viol.hint {
            match &s {
                Scn::Ipa { log_n, seed, zeros, .. } => {
                    if let Ok(f) = serde_json::from_value::<IpaFault>(h.clone()) {
                        out.push(Scn::Ipa { log_n: *log_n, seed: *seed, faults: vec![f], zeros: *zeros });
                    }
                }
                Scn::Meta { n, shape, .. } => {
                    if let Ok(f) = serde_json::from_value::<MetaFault>(h.clone()) {
                        out.push(Scn::Meta { n: *n, shape: *shape, faults: vec![f] });
                    }
                }
                _ => {}
            }
        }
        if let Scn::Gadget { spec, witness, blinding_seed, variant, rot } = &s {
            if *variant != GVariant::Honest {
                out.push(Scn::Gadget { spec: spec.clone(), witness: witness.clone(), blinding_seed: *blinding_seed, variant: GVariant::Honest, rot: *rot });
            }
        }
        out.retain(|x| *x != s);
        out.into_iter().map(|x| serde_json::to_value(x).unwrap()).collect()
    }
}

// ------------------------------------------------------------------ inner-product argument

fn ip(s: &[F], b: &[C]) -> C {
    s.iter().zip(b).fold(C::identity(), |acc, (x, p)| acc + *p * x)
}

fn run_ipa(log_n: u32, seed: u64, faults: &[IpaFault], zeros: bool, st: &mut Stats) -> Verdict {
    let n = 1usize << log_n;
    let rng = Prng::new(seed, "ipa");
    let mut cr = rng.chacha("values");
    let mut scalars: Vec<F> = (0..n).map(|_| F::random(&mut cr)).collect();
    let mut bases1: Vec<C> = (0..n).map(|_| C::random(&mut cr)).collect();
    let mut bases2: Vec<C> = (0..n).map(|_| C::random(&mut cr)).collect();
    if zeros {
        // padding as the aggregator does it: zero scalars over identity bases
        for i in (n / 2).max(1)..n {
            scalars[i] = F::ZERO;
            bases1[i] = C::identity();
            bases2[i] = C::identity();
        }
        if n > 1 {
            scalars[0] = F::ZERO;
        }
    }
    let res1 = ip(&scalars, &bases1);
    let res2 = ip(&scalars, &bases2);
    let prove = |sc: &[F]| -> Result<Vec<u8>, String> {
        let mut t = CircuitTranscript::<Blake2b>::init();
        match catch(|| rayon::sim::isolated(1, || verif_ipa::ipa_prove(sc, &bases1, &bases2, &res1, &res2, &mut t))) {
            Ok(Ok(())) => Ok(t.finalize()),
            Ok(Err(e)) => Err(format!("{e:?}")),
            Err(p) => Err(format!("panic at {}: {}", p.site(), p.msg)),
        }
    };
    let honest = match prove(&scalars) {
        Ok(p) => p,
        Err(e) => return vio("IpaIncomplete", "prove", format!("ipa_prove failed on honest inputs (n = {n}, zeros = {zeros}): {e}")),
    };
    // proof layout: 2*log_n compressed points, one scalar
    let psz = 48usize;
    let verify = |b1: &[C], b2: &[C], r1: &C, r2: &C, proof: &[u8]| -> Result<bool, String> {
        let mut t = CircuitTranscript::<Blake2b>::init_from_bytes(proof);
        match catch(|| rayon::sim::isolated(1, || verif_ipa::ipa_verify(b1, b2, r1, r2, &mut t))) {
            Ok(Ok(())) => Ok(true),
            Ok(Err(_)) => Ok(false),
            Err(p) => Err(format!("panic at {}: {}", p.site(), p.msg)),
        }
    };
    for f in faults {
        st.events += 1;
        let (mut b1, mut b2, mut r1, mut r2, mut proof) = (bases1.clone(), bases2.clone(), res1, res2, honest.clone());
        let g = C::generator();
        match f {
            IpaFault::None => {}
            // (a base under a zero scalar enters neither claim: altering it keeps both claims true)
            IpaFault::Base1(i) | IpaFault::Base2(i) if scalars[*i % n] == F::ZERO => continue,
            IpaFault::Base1(i) => b1[*i % n] += g,
            IpaFault::Base2(i) => b2[*i % n] += g,
            IpaFault::Res1 => r1 += g,
            IpaFault::Res2 => r2 += g,
            IpaFault::ProofElement(i, how) => {
                let n_pts = 2 * log_n as usize;
                let i = *i % (n_pts + 1);
                let (off, len) = if i < n_pts { (i * psz, psz) } else { (n_pts * psz, proof.len() - n_pts * psz) };
                if off + len > proof.len() || len == 0 {
                    continue;
                }
                match how {
                    0 => proof[off + len / 2] ^= 1,
                    1 => {
                        // another valid element
                        if len == psz {
                            use group::GroupEncoding;
                            let p = midnight_curves::G1Affine::from(g * F::from(7 + i as u64));
                            proof[off..off + len].copy_from_slice(p.to_bytes().as_ref());
                        } else {
                            use ff::PrimeField;
                            let r = F::from(12345 + i as u64).to_repr();
                            let r = r.as_ref();
                            let m = r.len().min(len);
                            proof[off..off + m].copy_from_slice(&r[..m]);
                        }
                    }
                    2 => proof[off..off + len].iter_mut().for_each(|b| *b = 0xff),
                    _ => proof[off..off + len].iter_mut().for_each(|b| *b = 0),
                }
                if proof == honest {
                    continue;
                }
            }
            IpaFault::ProverScalar(i) => {
                let mut sc = scalars.clone();
                sc[*i % n] += F::ONE;
                if zeros && bases1[*i % n] == C::identity() && bases2[*i % n] == C::identity() {
                    // a scalar over identity bases does not enter either claim: still an honest vector
                    continue;
                }
                proof = match prove(&sc) {
                    Ok(p) => p,
                    Err(_) => {
                        st.inc("ipa.prover_refused_wrong_vector");
                        continue;
                    }
                };
            }
            IpaFault::Truncate(i) => {
                let at = (*i * psz).min(proof.len().saturating_sub(1));
                proof.truncate(at);
            }
            IpaFault::JointClaims(prefix) => {
                // the challenge an adversary can predict from a prefix of the public data
                let mut t = CircuitTranscript::<Blake2b>::init();
                bases1.iter().for_each(|b| t.common(b).unwrap());
                bases2.iter().for_each(|b| t.common(b).unwrap());
                match prefix {
                    1 => t.common(&res1).unwrap(),
                    2 => t.common(&res2).unwrap(),
                    _ => {}
                }
                let rp: F = t.squeeze_challenge();
                let d = C::generator() * F::from(0xD1FF);
                r1 = res1 + d;
                r2 = res2 - d * rp.invert().unwrap();
                // a proof made for the altered claims with the true vector
                let mut pt = CircuitTranscript::<Blake2b>::init();
                match catch(|| rayon::sim::isolated(1, || verif_ipa::ipa_prove(&scalars, &bases1, &bases2, &r1, &r2, &mut pt))) {
                    Ok(Ok(())) => proof = pt.finalize(),
                    _ => {
                        st.inc("ipa.prover_refused_joint_claims");
                        continue;
                    }
                }
            }
        }
        let hint = serde_json::to_value(f).unwrap();
        match verify(&b1, &b2, &r1, &r2, &proof) {
            Err(e) => return Verdict::Violation(Viol::new("Panic", "Panic:ipa_verify", format!("ipa_verify (n = {n}) under {f:?}: {e}")).with_hint(hint)),
            Ok(acc) => {
                let expect = *f == IpaFault::None;
                if acc != expect {
                    let what = if expect { "the honest argument is rejected" } else { "the altered argument is accepted" };
                    return Verdict::Violation(Viol::new(if expect { "IpaIncomplete" } else { "IpaUnsound" }, format!("{}:{}", if expect { "IpaIncomplete" } else { "IpaUnsound" }, fault_kind(f)), format!("inner-product argument over {n} elements (zeros = {zeros}), {f:?}: {what}")).with_hint(hint));
                }
                if expect {
                    st.probe("ipa_complete");
                } else {
                    st.probe("ipa_fault_rejected");
                    st.fault(&format!("ipa.{}", fault_kind(f)));
                    st.nontrivial(prng::digest(format!("ipa|{log_n}|{seed}|{f:?}").as_bytes()));
                }
            }
        }
    }
    Verdict::Pass
}

fn fault_kind(f: &IpaFault) -> &'static str {
    match f {
        IpaFault::None => "none",
        IpaFault::Base1(_) => "base1",
        IpaFault::Base2(_) => "base2",
        IpaFault::Res1 => "claimed_value",
        IpaFault::Res2 => "commitment",
        IpaFault::ProofElement(..) => "proof_element",
        IpaFault::ProverScalar(_) => "prover_vector",
        IpaFault::JointClaims(_) => "joint_claims",
        IpaFault::Truncate(_) => "truncated",
    }
}

// ------------------------------------------------------------------ aggregated proof at the final verifier

fn run_meta(n: usize, shape: usize, faults: &[MetaFault], st: &mut Stats) -> Verdict {
    let fx = match catch(|| fixture(n, shape)) {
        Ok(f) => f,
        Err(p) => return vio("AggregationFailed", "fixture", format!("aggregating {n} valid inner proofs (shape {shape}) panicked at {}: {}", p.site(), p.msg)),
    };
    st.add("layout.elements", fx.layout.len() as u64);
    for f in faults {
        st.events += 1;
        let mut proof = fx.meta_proof.clone();
        let mut instances = fx.instances.clone();
        let mut label = String::new();
        match f {
            MetaFault::None => {}
            MetaFault::Element { index, how } => {
                let (sec, off, len, ty) = &fx.layout[*index % fx.layout.len()];
                label = format!("{sec}/{ty}");
                let g = C::generator();
                match how {
                    0 => proof[off + len / 2] ^= 1 << (index % 8),
                    1 => {
                        if ty == "G1" {
                            use group::GroupEncoding;
                            let p = midnight_curves::G1Affine::from(g * F::from(3 + *index as u64));
                            proof[*off..off + len].copy_from_slice(p.to_bytes().as_ref());
                        } else if ty == "F" {
                            use ff::PrimeField;
                            let r = F::from(99 + *index as u64).to_repr();
                            proof[*off..off + len].copy_from_slice(&r.as_ref()[..*len]);
                        } else {
                            // the element counts: another count
                            proof[*off] ^= 1;
                        }
                    }
                    2 => proof[*off..off + len].iter_mut().for_each(|b| *b = 0xff),
                    3 => proof[*off..off + len].iter_mut().for_each(|b| *b = 0),
                    _ => {
                        // swap with the next element of the same length
                        let next = fx.layout.iter().find(|(_, o, l, _)| *o > *off && l == len);
                        if let Some((_, o2, _, _)) = next {
                            let a = proof[*off..off + len].to_vec();
                            let b = proof[*o2..o2 + len].to_vec();
                            proof[*off..off + len].copy_from_slice(&b);
                            proof[*o2..o2 + len].copy_from_slice(&a);
                        }
                    }
                }
            }
            MetaFault::BitFlip { byte, bit } => {
                let b = byte % proof.len();
                proof[b] ^= 1 << bit;
                label = fx.layout.iter().find(|(_, o, l, _)| b >= *o && b < o + l).map(|x| x.0.clone()).unwrap_or_default();
            }
            MetaFault::Truncate { at } => {
                let (_, off, _, _) = &fx.layout[*at % fx.layout.len()];
                proof.truncate(*off);
                label = "truncated".into();
            }
            MetaFault::Append { n } => {
                proof.extend(std::iter::repeat_n(0xa5u8, *n));
                label = "appended".into();
            }
            MetaFault::Instance { i, j } => {
                instances[*i % n][*j % 2] += F::ONE;
                label = "instance".into();
            }
            MetaFault::SwapInstances => {
                if n < 2 || instances[0] == instances[1] {
                    continue;
                }
                instances.swap(0, 1);
                label = "instances permuted".into();
            }
        }
        let unchanged = proof == fx.meta_proof && instances == fx.instances;
        if unchanged && *f != MetaFault::None {
            continue;
        }
        let r = catch(|| {
            rayon::sim::isolated(1, || {
                let mut t = CircuitTranscript::<Blake2b>::init_from_bytes(&proof);
                let r = fx.verify_with(&instances, &mut t);
                // the verifier must consume the whole proof: trailing bytes are an altered delivery
                r.map(|()| t.assert_empty().is_ok())
            })
        });
        let hint = serde_json::to_value(f).unwrap();
        match r {
            Err(p) => return Verdict::Violation(Viol::new("Panic", format!("Panic:verify@{}", p.site_file()), format!("LightAggregator::<{n}>::verify panicked at {} under {f:?} ({label}): {}", p.site(), p.msg)).with_hint(hint)),
            Ok(res) => {
                let accepted = matches!(res, Ok(true));
                let accepted_with_trailing = matches!(res, Ok(false));
                if *f == MetaFault::None {
                    if !accepted {
                        return vio("Incomplete", "aggregated-proof", format!("the untouched aggregated proof over {n} inner proofs (shape {shape}) is rejected: {res:?}"));
                    }
                    st.probe("aggregated_proof_accepted");
                } else if accepted || (accepted_with_trailing && !matches!(f, MetaFault::Append { .. })) {
                    return Verdict::Violation(
                        Viol::new("Unsound", format!("Unsound:meta:{}", label.split('/').next().unwrap_or("")), format!("aggregated proof over {n} inner proofs (shape {shape}): accepted under {f:?} ({label})")).with_hint(hint),
                    );
                } else if accepted_with_trailing {
                    // appended bytes: verify() returns Ok and leaves them unread; whether the caller
                    // checks the transcript is outside this API - counted, not judged
                    st.inc("meta.appended_bytes_left_unread");
                } else {
                    st.probe("meta_fault_rejected");
                    st.fault(&format!("meta.{}", if label.is_empty() { "other" } else { label.split('/').next().unwrap() }));
                    st.nontrivial(prng::digest(format!("meta|{n}|{shape}|{f:?}").as_bytes()));
                }
            }
        }
    }
    Verdict::Pass
}

// ------------------------------------------------------------------ faults before aggregation

fn run_inner(n: usize, shape: usize, fault: &InnerFault, seed: u64, st: &mut Stats) -> Verdict {
    let fx = match catch(|| fixture(n, shape)) {
        Ok(f) => f,
        Err(p) => return vio("AggregationFailed", "fixture", format!("aggregating {n} valid inner proofs (shape {shape}) panicked at {}: {}", p.site(), p.msg)),
    };
    let mut instances = fx.instances.clone();
    let mut proofs = fx.inner_proofs.clone();
    let mut valid = false;
    match fault {
        InnerFault::ProofBit { i, byte, bit } => {
            let p = &mut proofs[*i % n];
            let b = byte % p.len();
            p[b] ^= 1 << bit;
        }
        InnerFault::Instance { i, j } => instances[*i % n][*j % 2] += F::ONE,
        InnerFault::OtherProof { i } => proofs[*i % n] = fx.spare[0].1.clone(),
        InnerFault::OtherValidPair { i } => {
            instances[*i % n] = fx.spare[1].0.clone();
            proofs[*i % n] = fx.spare[1].1.clone();
            valid = true;
        }
    }
    st.events += 1;
    let r = catch(|| rayon::sim::isolated(1, || fx.aggregate(&instances, &proofs, seed)));
    st.nontrivial(prng::digest(format!("inner|{n}|{shape}|{fault:?}").as_bytes()));
    match r {
        Err(p) => vio("Panic", &format!("aggregate@{}", p.site_file()), format!("aggregate_proofs::<{n}> panicked at {} under {fault:?}: {}", p.site(), p.msg)),
        Ok(Err(e)) => {
            if valid {
                return vio("Incomplete", "aggregate-valid-pair", format!("aggregate_proofs::<{n}> refuses {n} valid inner proofs after {fault:?}: {e:?}"));
            }
            st.probe("inner_fault_refused");
            st.fault("inner.refused_by_aggregator");
            Verdict::Pass
        }
        Ok(Ok(meta)) => {
            let v = catch(|| {
                rayon::sim::isolated(1, || {
                    let mut t = CircuitTranscript::<Blake2b>::init_from_bytes(&meta);
                    fx.verify_with(&instances, &mut t)
                })
            });
            match (valid, v) {
                (_, Err(p)) => vio("Panic", &format!("verify@{}", p.site_file()), format!("verify panicked at {}: {}", p.site(), p.msg)),
                (true, Ok(Ok(()))) => {
                    st.probe("aggregated_proof_accepted");
                    Verdict::Pass
                }
                (true, Ok(Err(e))) => vio("Incomplete", "aggregate-valid-pair", format!("the aggregation of {n} valid inner proofs after {fault:?} does not verify: {e:?}")),
                (false, Ok(Ok(()))) => vio("Unsound", "inner", format!("an aggregated proof over {n} inner proofs verifies although {fault:?} made one of them invalid for its stated public inputs")),
                (false, Ok(Err(_))) => {
                    st.probe("inner_fault_refused");
                    st.fault("inner.rejected_by_final_verifier");
                    Verdict::Pass
                }
            }
        }
    }
}

// ------------------------------------------------------------------ the foreign-curve verifier gadget

mod gadget {
    use ff::Field;
    use group::Group;
    use midnight_circuits::{
        ecc::{
            curves::CircuitCurve,
            foreign::{nb_foreign_ecc_chip_columns, ForeignEccChip, ForeignEccConfig},
        },
        field::{
            decomposition::{chip::P2RDecompositionChip, pow2range::Pow2RangeChip},
            foreign::FieldChip,
            native::{NB_ARITH_COLS, NB_ARITH_FIXED_COLS},
            NativeChip, NativeConfig, NativeGadget,
        },
        hash::poseidon::{PoseidonChip, PoseidonConfig, PoseidonState, NB_POSEIDON_ADVICE_COLS, NB_POSEIDON_FIXED_COLS},
        instructions::{AssignmentInstructions, PublicInputInstructions},
        types::Instantiable,
        verifier::{Accumulator, AssignedAccumulator, AssignedVk, BlstrsEmulation, VerifierGadget},
        ComposableChip,
    };
    use midnight_curves::{Bls12, Fq, G1Projective};
    use midnight_proofs::{
        circuit::{Layouter, SimpleFloorPlanner, Value},
        plonk::{prepare, Circuit, ConstraintSystem, Error},
        poly::{kzg::KZGCommitmentScheme, EvaluationDomain},
        transcript::{CircuitTranscript, Transcript},
    };

    use super::GVariant;
    use crate::{
        core::{
            prng::{self, Prng},
            runner::{catch, Verdict, Viol},
            stats::Stats,
        },
        fixtures,
        gen_circuit::{Spec, Witness},
        opcirc::{run_mock, MockVerdict},
        pipeline::{self, HashKind},
        tracing_t::Op,
    };

    type S = BlstrsEmulation;
    type F = Fq;
    type C = G1Projective;
    type CBase = <C as CircuitCurve>::Base;
    type NG = NativeGadget<F, P2RDecompositionChip<F>, NativeChip<F>>;
    const K: u32 = 18;

    #[derive(Clone, Debug)]
    struct GadgetCircuit {
        inner_vk: (EvaluationDomain<F>, ConstraintSystem<F>, Value<F>),
        committed: Value<C>,
        instances: Vec<F>,
        proof: Value<Vec<u8>>,
    }

    impl Circuit<F> for GadgetCircuit {
        type Config = (NativeConfig, <P2RDecompositionChip<F> as midnight_proofs::circuit::Chip<F>>::Config, ForeignEccConfig<C>, PoseidonConfig<F>);
        type FloorPlanner = SimpleFloorPlanner;
        type Params = ();

        fn without_witnesses(&self) -> Self {
            self.clone()
        }
        fn configure(meta: &mut ConstraintSystem<F>) -> Self::Config {
            let nb_advice_cols = nb_foreign_ecc_chip_columns::<F, C, C, NG>();
            let advice: Vec<_> = (0..nb_advice_cols).map(|_| meta.advice_column()).collect();
            let fixed: Vec<_> = (0..NB_ARITH_FIXED_COLS.max(NB_POSEIDON_FIXED_COLS)).map(|_| meta.fixed_column()).collect();
            let committed = meta.instance_column();
            let plain = meta.instance_column();
            let native = NativeChip::configure(meta, &(advice[..NB_ARITH_COLS].try_into().unwrap(), fixed[..NB_ARITH_FIXED_COLS].try_into().unwrap(), [committed, plain]));
            let core = {
                let p2r = Pow2RangeChip::configure(meta, &advice[1..NB_ARITH_COLS]);
                P2RDecompositionChip::configure(meta, &(native.clone(), p2r))
            };
            let base = FieldChip::<F, CBase, C, NG>::configure(meta, &advice);
            let curve = ForeignEccChip::<F, C, C, NG, NG>::configure(meta, &base, &advice);
            let poseidon = PoseidonChip::configure(meta, &(advice[..NB_POSEIDON_ADVICE_COLS].try_into().unwrap(), fixed[..NB_POSEIDON_FIXED_COLS].try_into().unwrap()));
            (native, core, curve, poseidon)
        }
        fn synthesize(&self, config: Self::Config, mut layouter: impl Layouter<F>) -> Result<(), Error> {
            let native_chip = <NativeChip<F> as ComposableChip<F>>::new(&config.0, &());
            let core = P2RDecompositionChip::new(&config.1, &16);
            let ng: NG = NativeGadget::new(core.clone(), native_chip.clone());
            let curve_chip = ForeignEccChip::new(&config.2, &ng, &ng);
            let poseidon_chip = PoseidonChip::new(&config.3, &native_chip);
            let verifier = VerifierGadget::<S>::new(&curve_chip, &ng, &poseidon_chip);
            let vk: AssignedVk<S> = verifier.assign_vk_as_public_input(&mut layouter, "inner_vk", &self.inner_vk.0, &self.inner_vk.1, self.inner_vk.2)?;
            let committed = curve_chip.assign(&mut layouter, self.committed)?;
            let vals: Vec<Value<F>> = self.instances.iter().map(|x| Value::known(*x)).collect();
            let pi = ng.assign_many(&mut layouter, &vals)?;
            let mut acc = verifier.prepare(&mut layouter, &vk, &[committed], &[&pi], self.proof.clone())?;
            acc.collapse(&mut layouter, &curve_chip, &ng)?;
            verifier.constrain_as_public_input(&mut layouter, &acc)?;
            core.load(&mut layouter)
        }
    }

    pub fn run(spec: &Spec, w: &Witness, blinding_seed: u64, variant: &GVariant, rot: bool, st: &mut Stats) -> Verdict {
        use rand::SeedableRng;
        let rng = rand_chacha::ChaCha20Rng::seed_from_u64(blinding_seed);
        let (vk, k, proof, log, committed, plain) = if rot {
            use midnight_proofs::plonk::{create_proof, keygen_pk, keygen_vk_with_k};
            let k = 4;
            let params = fixtures::srs(k);
            let made = catch(|| {
                rayon::sim::isolated(1, || {
                    let vk = keygen_vk_with_k::<F, KZGCommitmentScheme<Bls12>, _>(&*params, &super::RotInner::default(), k)?;
                    let pk = keygen_pk(vk.clone(), &super::RotInner::default())?;
                    let mut r = Prng::new(blinding_seed, "rot").chacha("inst");
                    let inst = vec![F::random(&mut r), F::random(&mut r)];
                    let c = super::RotInner::with_sum(inst[0] + inst[1]);
                    crate::tracing_t::clear_log();
                    let mut t = crate::tracing_t::TracingTranscript::<PoseidonState<F>>::init();
                    create_proof::<F, KZGCommitmentScheme<Bls12>, _, _>(&*params, &pk, &[c], 1, &[&[&[], &inst]], rng, &mut t)?;
                    Ok::<_, Error>((vk, t.finalize(), crate::tracing_t::take_log(), inst))
                })
            });
            match made {
                Ok(Ok((vk, proof, log, inst))) => (vk, k, proof, log, C::identity(), inst),
                Ok(Err(e)) => return Verdict::Harness(format!("hand-written inner circuit: {e:?}")),
                Err(p) => return Verdict::Harness(format!("hand-written inner circuit panicked at {}: {}", p.site(), p.msg)),
            }
        } else {
            let (vk, pk) = match catch(|| rayon::sim::isolated(1, || pipeline::keygen(spec))) {
                Ok(Ok(x)) => x,
                Ok(Err(e)) => return Verdict::Harness(format!("inner keygen failed: {e:?}")),
                Err(p) => return Verdict::Harness(format!("inner keygen panicked at {}: {}", p.site(), p.msg)),
            };
            let (proof, log) = rayon::sim::isolated(1, || pipeline::prove(&pk, spec, std::slice::from_ref(w), 1, HashKind::Poseidon, rng));
            let proof = match proof {
                Ok(p) => p,
                Err(_) => {
                    st.inc("gadget.inner_witness_unprovable");
                    return Verdict::Pass;
                }
            };
            let stmt = pipeline::statement(&vk, spec.k, w, 1);
            (vk, spec.k, proof, log, stmt.committed[0], stmt.plain[0].clone())
        };
        let (mut proof, mut committed, mut plain) = (proof, committed, plain);
        // ---- the delivery fault
        let writes: Vec<_> = log.iter().filter(|e| e.op == Op::Write).collect();
        let scalars: Vec<_> = writes.iter().filter(|e| e.ty == "F").collect();
        let points: Vec<_> = writes.iter().filter(|e| e.ty == "G1").collect();
        match variant {
            GVariant::Honest => {}
            GVariant::Scalar(i) if !scalars.is_empty() => {
                use ff::PrimeField;
                let e = scalars[*i % scalars.len()];
                let r = F::from(0x5eed + *i as u64).to_repr();
                proof[e.off..e.off + e.len].copy_from_slice(&r.as_ref()[..e.len]);
            }
            GVariant::Point(i) if !points.is_empty() => {
                use group::GroupEncoding;
                let e = points[*i % points.len()];
                let p = midnight_curves::G1Affine::from(C::generator() * F::from(11 + *i as u64));
                proof[e.off..e.off + e.len].copy_from_slice(p.to_bytes().as_ref());
            }
            GVariant::BadPoint(i) if !points.is_empty() => {
                let e = points[*i % points.len()];
                proof[e.off..e.off + e.len].iter_mut().for_each(|b| *b = 0xff);
            }
            GVariant::Instance(j) => {
                if plain.is_empty() {
                    plain.push(F::ONE);
                } else {
                    let j = *j % plain.len();
                    plain[j] += F::ONE;
                }
            }
            GVariant::Committed => committed += C::generator(),
            _ => {}
        }
        st.nontrivial(prng::digest(format!("{}|{rot}|{variant:?}", serde_json::to_string(spec).unwrap()).as_bytes()));
        // ---- off-circuit
        let off = catch(|| {
            rayon::sim::isolated(1, || {
                let mut t = CircuitTranscript::<PoseidonState<F>>::init_from_bytes(&proof);
                prepare::<F, KZGCommitmentScheme<Bls12>, CircuitTranscript<PoseidonState<F>>>(&vk, &[&[committed]], &[&[&plain]], &mut t)
            })
        });
        let off = match off {
            Err(p) => return Verdict::Violation(Viol::new("Panic", format!("Panic:prepare@{}", p.site_file()), format!("off-circuit prepare panicked at {} under {variant:?}: {}", p.site(), p.msg))),
            Ok(r) => r,
        };
        let fixed_bases = midnight_circuits::verifier::fixed_bases::<S>("inner_vk", &vk);
        let expected: Option<(Vec<F>, bool)> = off.ok().map(|dual| {
            let params = fixtures::srs(k);
            let valid = dual.clone().check(&params.verifier_params());
            let mut acc = Accumulator::<S>::from_dual_msm(dual, "inner_vk", &fixed_bases);
            acc.collapse();
            let mut pi = AssignedVk::<S>::as_public_input(&vk);
            pi.extend(AssignedAccumulator::as_public_input(&acc));
            (pi, valid)
        });
        if *variant == GVariant::Honest {
            match &expected {
                Some((_, true)) => {}
                other => return Verdict::Violation(Viol::new("Incomplete", "Incomplete:inner-proof", format!("the honest inner proof is not accepted off-circuit: {:?}", other.as_ref().map(|x| x.1)))),
            }
        }
        // ---- in-circuit
        let circuit = GadgetCircuit {
            inner_vk: (vk.get_domain().clone(), vk.cs().clone(), Value::known(vk.transcript_repr())),
            committed: Value::known(committed),
            instances: plain.clone(),
            proof: Value::known(proof.clone()),
        };
        let m = run_mock(K, &circuit, &[], false);
        st.events += m.assignments as u64;
        st.inc(&format!("gadget.variant.{}", format!("{variant:?}").split('(').next().unwrap()));
        match (&expected, &m.verdict) {
            (Some((pi, valid)), MockVerdict::Accept) => {
                if m.bound_plain != *pi {
                    let at = m.bound_plain.iter().zip(pi).position(|(a, b)| a != b);
                    return Verdict::Violation(Viol::new(
                        "AccumulatorDiffers",
                        "AccumulatorDiffers:gadget",
                        format!("verifier gadget under {variant:?}: the circuit binds {} public inputs, the off-circuit verifier's (vk identity, accumulator) encodes to {}; first difference at {at:?}", m.bound_plain.len(), pi.len()),
                    ));
                }
                st.probe(if *valid { "gadget_same_accumulator_valid_proof" } else { "gadget_same_accumulator_invalid_proof" });
                Verdict::Pass
            }
            (Some(_), v) => Verdict::Violation(Viol::new("Incomplete", "Incomplete:gadget", format!("verifier gadget under {variant:?}: the off-circuit verifier derives an accumulator but the circuit is not satisfiable with the honest witness: {v:?}"))),
            (None, MockVerdict::Accept) => {
                // The proof bytes are a witness of the gadget: for bytes that do not parse, the
                // witness generator substitutes some element and the circuit derives the
                // accumulator of that other proof (the same-function property on parseable
                // deliveries is what the other variants decide). Counted, not judged.
                st.inc("gadget.unparseable_delivery_satisfied_with_substituted_element");
                Verdict::Pass
            }
            (None, _) => {
                st.probe("gadget_unparseable_rejected_by_both");
                Verdict::Pass
            }
        }
    }
    #[allow(dead_code)]
    fn _unused(_: &mut Prng) {}
}
