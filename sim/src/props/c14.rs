//! C14 - KZG multi-opening: correct openings verify, any wrong claim is
//! rejected. Prover and verifier of the opening protocol as two parties with
//! the query set as shared statement and the opening proof as the message.
use ff::Field;
use group::Group;
use midnight_curves::{Bls12, Fq, G1Projective};
use midnight_proofs::{
    poly::{
        commitment::{Guard, PolynomialCommitmentScheme},
        kzg::KZGCommitmentScheme,
        Coeff, CommitmentLabel, EvaluationDomain, Polynomial, ProverQuery, VerifierQuery,
    },
    transcript::Transcript,
};
use serde::{Deserialize, Serialize};
use serde_json::{json, Value};

use super::c03::layout;
use crate::{
    core::{
        prng::{self, Prng},
        runner::{catch, Check, Meta, Tier, Verdict, Viol},
        stats::Stats,
    },
    enc::{self, G1Fault, ScalarFault, G1_FAULTS, SCALAR_FAULTS},
    fixtures,
    pipeline::Sched,
    tracing_t::{self, TracingTranscript},
    util::{uniform_fq, Fe},
};

pub struct C14;
type Cs = KZGCommitmentScheme<Bls12>;
type T = TracingTranscript<blake2b_simd::State>;

#[derive(Clone, Copy, Debug, Serialize, Deserialize, PartialEq, Eq)]
pub enum PolyKind {
    Zero,
    Const,
    Random,
    LowDegree,
}

#[derive(Clone, Debug, Serialize, Deserialize, PartialEq)]
pub struct PolySpec {
    pub kind: PolyKind,
    /// equal seeds = identical polynomials behind distinct references
    pub seed: u64,
    /// committed in this many pieces (0 = one piece)
    pub pieces: usize,
}

#[derive(Clone, Debug, Serialize, Deserialize, PartialEq)]
pub enum Fault {
    /// verifier-side claimed evaluation of query q changed
    Eval { q: usize, add: Fe },
    /// verifier-side point of query q replaced by a fresh point
    Point { q: usize, seed: u64 },
    /// verifier-side commitment of polynomial p replaced by a commitment to another polynomial
    Commitment { p: usize, seed: u64 },
    /// one piece of a chopped commitment replaced
    Piece { p: usize, piece: usize, seed: u64 },
    ProofG1 { elem: usize, f: G1Fault },
    ProofScalar { elem: usize, f: ScalarFault },
    Truncate { at: usize },
    Append { n: usize },
    /// query q repeated (same commitment, same point)
    Duplicate { q: usize },
}

#[derive(Clone, Debug, Serialize, Deserialize, PartialEq)]
pub struct Scn {
    pub k: u32,
    pub polys: Vec<PolySpec>,
    pub point_seeds: Vec<u64>,
    /// (polynomial, point) in query order
    pub queries: Vec<(usize, usize)>,
    pub sched: Sched,
    pub fault_seed: u64,
    pub enumerate: bool,
    pub only: Option<Vec<Fault>>,
}

fn poly_coeffs(s: &PolySpec, n: usize) -> Vec<Fq> {
    let mut rng = Prng::new(s.seed, "poly");
    match s.kind {
        PolyKind::Zero => vec![Fq::ZERO; n],
        PolyKind::Const => {
            let mut v = vec![Fq::ZERO; n];
            v[0] = uniform_fq(&mut rng);
            v
        }
        PolyKind::Random => (0..n).map(|_| uniform_fq(&mut rng)).collect(),
        PolyKind::LowDegree => {
            let d = 1 + rng.usize(n.min(3));
            (0..n).map(|i| if i < d { uniform_fq(&mut rng) } else { Fq::ZERO }).collect()
        }
    }
}

struct Party {
    /// for each polynomial: its pieces (one piece if not chopped), each of length n
    pieces: Vec<Vec<Polynomial<Fq, Coeff>>>,
    coms: Vec<Vec<G1Projective>>,
}

fn build(s: &Scn) -> (EvaluationDomain<Fq>, Party, Vec<Fq>) {
    let n = 1usize << s.k;
    let params = fixtures::srs(s.k);
    let d = EvaluationDomain::<Fq>::new(2, s.k);
    let mut pieces = vec![];
    let mut coms = vec![];
    for p in &s.polys {
        let np = p.pieces.max(1);
        let mut ps = vec![];
        for i in 0..np {
            let mut c = poly_coeffs(&PolySpec { seed: p.seed.wrapping_add(i as u64 * 7919), ..p.clone() }, n);
            if p.pieces > 0 {
                // pieces of a chopped commitment have n - 1 coefficients
                c[n - 1] = Fq::ZERO;
            }
            ps.push(d.coeff_from_vec(c));
        }
        let cs: Vec<G1Projective> =
            ps.iter().map(|poly| rayon::sim::isolated(1, || Cs::commit(&params, poly))).collect();
        pieces.push(ps);
        coms.push(cs);
    }
    let mut points: Vec<Fq> = vec![];
    for ps in &s.point_seeds {
        let mut x = uniform_fq(&mut Prng::new(*ps, "point"));
        while points.contains(&x) {
            x += Fq::ONE;
        }
        points.push(x);
    }
    (d, Party { pieces, coms }, points)
}

/// The polynomial the prover opens for polynomial `p` at `pt`: the piece
/// itself, or the linearisation sum_i pt^((n-1) i) P_i(X) of a chopped one.
fn prover_poly(d: &EvaluationDomain<Fq>, party: &Party, p: usize, pt: Fq, n: usize) -> Polynomial<Fq, Coeff> {
    let ps = &party.pieces[p];
    if ps.len() == 1 {
        return ps[0].clone();
    }
    let f = pt.pow_vartime([(n - 1) as u64]);
    let mut acc = vec![Fq::ZERO; n];
    let mut sc = Fq::ONE;
    for piece in ps {
        for (a, c) in acc.iter_mut().zip(piece.iter()) {
            *a += *c * sc;
        }
        sc *= f;
    }
    d.coeff_from_vec(acc)
}

fn naive_eval(p: &[Fq], x: Fq) -> Fq {
    p.iter().rev().fold(Fq::ZERO, |acc, c| acc * x + c)
}

fn gen_faults(rng: &mut Prng, s: &Scn, lay: &[(usize, usize, bool)], proof_len: usize) -> Vec<Fault> {
    let mut f = vec![];
    let nq = s.queries.len();
    let qs: Vec<usize> = if s.enumerate || nq <= 6 { (0..nq).collect() } else { (0..6).map(|_| rng.usize(nq)).collect() };
    for q in qs {
        f.push(Fault::Eval { q, add: Fe(Fq::from(1 + rng.below(5))) });
        f.push(Fault::Point { q, seed: rng.u64() });
        f.push(Fault::Duplicate { q });
    }
    for p in 0..s.polys.len() {
        f.push(Fault::Commitment { p, seed: rng.u64() });
        if s.polys[p].pieces > 0 {
            f.push(Fault::Piece { p, piece: rng.usize(s.polys[p].pieces), seed: rng.u64() });
        }
    }
    for (i, (_, _, g1)) in lay.iter().enumerate() {
        let reps = if s.enumerate { if *g1 { G1_FAULTS } else { SCALAR_FAULTS } } else { 2 };
        for j in 0..reps {
            let k = if s.enumerate { j } else { rng.usize(8) };
            if *g1 {
                f.push(Fault::ProofG1 { elem: i, f: enc::draw_g1_fault(rng, k) });
            } else {
                f.push(Fault::ProofScalar { elem: i, f: enc::draw_scalar_fault(rng, k) });
            }
        }
    }
    for (off, len, _) in lay {
        f.push(Fault::Truncate { at: *off });
        f.push(Fault::Truncate { at: off + 1 + rng.usize(len - 1) });
    }
    if proof_len > 0 {
        f.push(Fault::Truncate { at: proof_len - 1 });
    }
    f.push(Fault::Append { n: 1 });
    f.push(Fault::Append { n: 48 });
    f
}

fn fault_kind(f: &Fault) -> &'static str {
    match f {
        Fault::Eval { .. } => "claimed-evaluation",
        Fault::Point { .. } => "evaluation-point",
        Fault::Commitment { .. } => "commitment",
        Fault::Piece { .. } => "commitment-piece",
        Fault::ProofG1 { .. } => "opening-proof-g1",
        Fault::ProofScalar { .. } => "opening-proof-scalar",
        Fault::Truncate { .. } => "truncate",
        Fault::Append { .. } => "append",
        Fault::Duplicate { .. } => "duplicated-query",
    }
}

/// all assignment patterns of points to polynomials for np polynomials x npts points
fn patterns() -> Vec<(usize, usize, Vec<usize>)> {
    let mut out = vec![];
    for np in 1..=4usize {
        for npts in 1..=3usize {
            let m = (1usize << npts) - 1;
            let total = m.pow(np as u32);
            for code in 0..total {
                let mut c = code;
                let masks: Vec<usize> = (0..np)
                    .map(|_| {
                        let x = c % m + 1;
                        c /= m;
                        x
                    })
                    .collect();
                out.push((np, npts, masks));
            }
        }
    }
    out
}

impl Check for C14 {
    fn id(&self) -> &'static str {
        "C14"
    }
    fn meta(&self) -> Meta {
        Meta {
            level: "fault_enumeration",
            rule: "one run = one query set (1..12 polynomials of degree < 2^k, k=2..7, zero / constant / low-degree / random / identical-behind-distinct-references, some committed in 2..4 pieces; 1..5 points; queries in a drawn order) opened by the real prover under a drawn schedule and checked by the real verifier: first untouched (must verify), then once per fault - every (sampled beyond 6 queries) claimed evaluation, point and commitment on the verifier side changed, every element of the opening proof replaced by valid and invalid encodings, truncation at and inside every element, appended bytes, every query duplicated (must be refused with DuplicatedQuery by both sides). The first runs enumerate every assignment pattern of <= 3 points to <= 3 polynomials (<= 4 in thorough). distinct_nontrivial counts distinct (query set, fault) digests",
            assumptions: vec![
                "soundness error of the opening argument is ignored",
                "chopped commitments are opened at a single point, as the API requires",
            ],
            components: vec![
                ("KZG multi_open / multi_prepare / DualMSM check / commit", "real"),
                ("transcript", "real CircuitTranscript behind the tracing wrapper"),
                ("channel", "simulated: fault-injecting"),
                ("rayon", "simulated: deterministic PRNG scheduler"),
            ],
            expected_probes: vec![
                "claimed-evaluation",
                "evaluation-point",
                "commitment",
                "commitment-piece",
                "opening-proof-g1",
                "opening-proof-scalar",
                "truncate",
                "append",
                "duplicated-query",
                "chopped_commitment",
                "shared_point",
                "poly_at_several_points",
                "identical_polys_distinct_refs",
            ],
        }
    }
    fn runs(&self, tier: Tier) -> u64 {
        let pats = patterns().iter().filter(|p| tier == Tier::Thorough || p.0 <= 3).count() as u64;
        match tier {
            Tier::Quick => pats + 500,
            Tier::Thorough => pats + 12000,
        }
    }
    fn generate(&self, rng: &mut Prng, tier: Tier, idx: u64) -> Value {
        let thorough = tier == Tier::Thorough;
        let pats: Vec<_> = patterns().into_iter().filter(|p| thorough || p.0 <= 3).collect();
        let kinds = [PolyKind::Random, PolyKind::Random, PolyKind::Zero, PolyKind::Const, PolyKind::LowDegree];
        let scn = if (idx as usize) < pats.len() {
            let (np, npts, masks) = &pats[idx as usize];
            let k = rng.range(2, 4) as u32;
            let polys = (0..*np).map(|_| PolySpec { kind: *rng.pick(&kinds), seed: rng.u64(), pieces: 0 }).collect();
            let mut queries = vec![];
            for (p, m) in masks.iter().enumerate() {
                for pt in 0..*npts {
                    if m & (1 << pt) != 0 {
                        queries.push((p, pt));
                    }
                }
            }
            Scn { k, polys, point_seeds: (0..*npts).map(|_| rng.u64()).collect(), queries, sched: Sched::draw(rng, thorough), fault_seed: rng.u64(), enumerate: true, only: None }
        } else {
            let k = rng.range(2, 7) as u32;
            let np = rng.range(1, 12) as usize;
            let npts = rng.range(1, 5) as usize;
            let mut polys: Vec<PolySpec> = (0..np)
                .map(|_| PolySpec { kind: *rng.pick(&kinds), seed: rng.u64(), pieces: if rng.chance(1, 5) { rng.range(2, 4) as usize } else { 0 } })
                .collect();
            if np >= 2 && rng.chance(1, 4) {
                // identical polynomials behind distinct references
                polys[1] = PolySpec { pieces: 0, ..polys[0].clone() };
                polys[0].pieces = 0;
            }
            let mut queries = vec![];
            for (p, spec) in polys.iter().enumerate() {
                if spec.pieces > 0 {
                    queries.push((p, rng.usize(npts)));
                } else {
                    let mut any = false;
                    for pt in 0..npts {
                        if rng.chance(1, 2) {
                            queries.push((p, pt));
                            any = true;
                        }
                    }
                    if !any {
                        queries.push((p, rng.usize(npts)));
                    }
                }
            }
            rng.shuffle(&mut queries);
            Scn { k, polys, point_seeds: (0..npts).map(|_| rng.u64()).collect(), queries, sched: Sched::draw(rng, thorough), fault_seed: rng.u64(), enumerate: thorough && idx % 16 == 0, only: None }
        };
        serde_json::to_value(scn).unwrap()
    }
    fn execute(&self, scn: &Value, st: &mut Stats) -> Verdict {
        let s: Scn = match serde_json::from_value(scn.clone()) {
            Ok(s) => s,
            Err(e) => return Verdict::Harness(format!("bad scenario: {e}")),
        };
        run(&s, st)
    }
    fn shrink(&self, scn: &Value, viol: &Viol) -> Vec<Value> {
        let s: Scn = serde_json::from_value(scn.clone()).unwrap();
        let mut out = vec![];
        if let Some(h) = &viol.hint {
            if let Ok(f) = serde_json::from_value::<Fault>(h.clone()) {
                if s.only.as_ref().map(|o| o.len()) != Some(1) {
                    out.push(Scn { only: Some(vec![f]), ..s.clone() });
                }
            }
        }
        if s.sched != Sched::seq() {
            out.push(Scn { sched: Sched::seq(), ..s.clone() });
        }
        // drop the last query when no explicit fault refers to it
        if s.queries.len() > 1 && s.only.as_ref().map(|o| o.is_empty()).unwrap_or(true) {
            let mut c = s.clone();
            c.queries.pop();
            out.push(c);
        }
        if s.k > 2 {
            out.push(Scn { k: s.k - 1, ..s.clone() });
        }
        out.into_iter().map(|s| serde_json::to_value(s).unwrap()).collect()
    }
}

struct VerifierView {
    points: Vec<Fq>,   // per query
    evals: Vec<Fq>,    // per query
    coms: Vec<Vec<G1Projective>>,
    queries: Vec<(usize, usize)>,
}

fn verify(s: &Scn, v: &VerifierView, proof: &[u8]) -> Result<(), String> {
    let n = 1u64 << s.k;
    let params = fixtures::srs(s.k);
    let mut vq: Vec<VerifierQuery<'_, Fq, Cs>> = vec![];
    for (qi, (p, _)) in v.queries.iter().enumerate() {
        if v.coms[*p].len() == 1 {
            vq.push(VerifierQuery::new(v.points[qi], CommitmentLabel::Custom(format!("p{p}")), &v.coms[*p][0], v.evals[qi]));
        } else {
            let parts: Vec<&G1Projective> = v.coms[*p].iter().collect();
            vq.push(VerifierQuery::from_parts(v.points[qi], CommitmentLabel::Custom(format!("p{p}")), &parts, v.evals[qi], n));
        }
    }
    let mut t = T::init_from_bytes(proof);
    let guard = Cs::multi_prepare(&vq, &mut t).map_err(|e| format!("prepare:{e:?}"))?;
    t.assert_empty().map_err(|_| "trailing bytes".to_string())?;
    guard.verify(&params.verifier_params()).map_err(|e| format!("check:{e:?}"))
}

fn run(s: &Scn, st: &mut Stats) -> Verdict {
    let n = 1usize << s.k;
    let (d, party, points) = build(s);
    let params = fixtures::srs(s.k);
    if s.polys.iter().any(|p| p.pieces > 0) {
        st.probe("chopped_commitment");
    }
    {
        let mut per_point = vec![0; points.len()];
        let mut per_poly = vec![0; s.polys.len()];
        for (p, pt) in &s.queries {
            per_point[*pt] += 1;
            per_poly[*p] += 1;
        }
        if per_point.iter().any(|c| *c > 1) {
            st.probe("shared_point");
        }
        if per_poly.iter().any(|c| *c > 1) {
            st.probe("poly_at_several_points");
        }
        if s.polys.len() >= 2 && s.polys[0].seed == s.polys[1].seed && s.polys[0].kind == s.polys[1].kind {
            st.probe("identical_polys_distinct_refs");
        }
    }
    // prover: one polynomial object per (polynomial) - or per query for chopped ones
    let mut opened: Vec<Polynomial<Fq, Coeff>> = vec![];
    let mut which: Vec<usize> = vec![];
    let mut single: Vec<Option<usize>> = vec![None; s.polys.len()];
    for (p, pt) in &s.queries {
        if party.pieces[*p].len() == 1 {
            if single[*p].is_none() {
                opened.push(party.pieces[*p][0].clone());
                single[*p] = Some(opened.len() - 1);
            }
            which.push(single[*p].unwrap());
        } else {
            opened.push(prover_poly(&d, &party, *p, points[*pt], n));
            which.push(opened.len() - 1);
        }
    }
    let pq: Vec<ProverQuery<'_, Fq>> =
        s.queries.iter().enumerate().map(|(qi, (_, pt))| ProverQuery::new(points[*pt], &opened[which[qi]])).collect();
    s.sched.enter();
    tracing_t::clear_log();
    let proved = catch(|| {
        let mut t = T::init();
        Cs::multi_open(&params, &pq, &mut t).map(|_| t.finalize())
    });
    let plog = tracing_t::take_log();
    let proof = match proved {
        Ok(Ok(p)) => p,
        Ok(Err(e)) => {
            return Verdict::Violation(Viol::new("HonestOpeningFailed", "HonestOpeningFailed:prover", format!("multi_open failed on a well-formed query set: {e:?}")))
        }
        Err(p) => {
            return Verdict::Violation(Viol::new("HonestOpeningFailed", format!("HonestOpeningFailed:prover-panic@{}", p.site_file()), format!("multi_open panicked at {}: {}", p.site(), p.msg)))
        }
    };
    st.events += plog.len() as u64;
    let lay = layout(&plog);
    // the true evaluations, by schoolbook evaluation
    let honest = VerifierView {
        points: s.queries.iter().map(|(_, pt)| points[*pt]).collect(),
        evals: s.queries.iter().enumerate().map(|(qi, (_, pt))| naive_eval(&opened[which[qi]], points[*pt])).collect(),
        coms: party.coms.clone(),
        queries: s.queries.clone(),
    };
    match catch(|| verify(s, &honest, &proof)) {
        Ok(Ok(())) => {}
        Ok(Err(e)) => {
            return Verdict::Violation(Viol::new("HonestOpeningRejected", "HonestOpeningRejected", format!("an honest multi-opening of {} queries over {} polynomials at {} points was rejected: {e}", s.queries.len(), s.polys.len(), points.len())))
        }
        Err(p) => {
            return Verdict::Violation(Viol::new("HonestOpeningRejected", format!("HonestOpeningRejected:panic@{}", p.site_file()), format!("verifying an honest multi-opening panicked at {}: {}", p.site(), p.msg)))
        }
    }
    let faults = match &s.only {
        Some(f) => f.clone(),
        None => gen_faults(&mut Prng::new(s.fault_seed, "faults"), s, &lay, proof.len()),
    };
    let sd = prng::digest(serde_json::to_string(&(&s.k, &s.polys, &s.point_seeds, &s.queries)).unwrap().as_bytes());
    for f in &faults {
        let mut v = VerifierView { points: honest.points.clone(), evals: honest.evals.clone(), coms: honest.coms.clone(), queries: honest.queries.clone() };
        let mut pr = proof.clone();
        let kind = fault_kind(f);
        let mut expect_dup = false;
        match f {
            Fault::Eval { q, add } => {
                if *q >= v.evals.len() {
                    continue;
                }
                v.evals[*q] += add.0
            }
            Fault::Point { q, seed } => {
                if *q >= v.points.len() {
                    continue;
                }
                // for a constant polynomial the claim "p(x') = c" is true for
                // every x' and the honest opening proof is literally the same
                if opened[which[*q]].iter().skip(1).all(|c| *c == Fq::ZERO) {
                    continue;
                }
                v.points[*q] = uniform_fq(&mut Prng::new(*seed, "other-point"))
            }
            Fault::Commitment { p, seed } => {
                if *p >= v.coms.len() {
                    continue;
                }
                let other = G1Projective::generator() * uniform_fq(&mut Prng::new(*seed, "other-com"));
                if v.coms[*p][0] == other {
                    continue;
                }
                v.coms[*p][0] = other;
            }
            Fault::Piece { p, piece, seed } => {
                if *p >= v.coms.len() || *piece >= v.coms[*p].len() {
                    continue;
                }
                v.coms[*p][*piece] = G1Projective::generator() * uniform_fq(&mut Prng::new(*seed, "other-piece"));
            }
            Fault::ProofG1 { elem, f } => {
                let Some((off, len, true)) = lay.get(*elem).copied() else { continue };
                let Some(nb) = enc::apply_g1(&pr[off..off + len], f) else { continue };
                pr[off..off + len].copy_from_slice(&nb);
            }
            Fault::ProofScalar { elem, f } => {
                let Some((off, len, false)) = lay.get(*elem).copied() else { continue };
                let Some(nb) = enc::apply_scalar(&pr[off..off + len], f) else { continue };
                pr[off..off + len].copy_from_slice(&nb);
            }
            Fault::Truncate { at } => {
                if *at >= pr.len() {
                    continue;
                }
                pr.truncate(*at)
            }
            Fault::Append { n } => pr.extend(vec![0u8; *n]),
            Fault::Duplicate { q } => {
                if *q >= v.queries.len() {
                    continue;
                }
                v.queries.push(v.queries[*q]);
                v.points.push(v.points[*q]);
                v.evals.push(v.evals[*q]);
                expect_dup = true;
            }
        }
        st.fault(kind);
        st.events += 1;
        st.nontrivial(prng::digest(format!("{sd}|{}", serde_json::to_string(f).unwrap()).as_bytes()));
        let hint = serde_json::to_value(f).unwrap();
        match catch(|| verify(s, &v, &pr)) {
            Ok(Err(e)) => {
                if expect_dup && !e.contains("DuplicatedQuery") {
                    return Verdict::Violation(Viol::new("DuplicateNotRefused", "DuplicateNotRefused:verifier", format!("a query set repeating a (commitment, point) pair was rejected with '{e}' instead of DuplicatedQuery")).with_hint(hint));
                }
            }
            Ok(Ok(())) => {
                return Verdict::Violation(Viol::new("WrongClaimAccepted", format!("WrongClaimAccepted:{kind}"), format!("the verifier accepted after {f:?}")).with_hint(hint))
            }
            Err(p) => {
                return Verdict::Violation(Viol::new("VerifierPanic", format!("VerifierPanic:{kind}@{}", p.site_file()), format!("multi_prepare/check panicked at {} after {f:?}: {}", p.site(), p.msg)).with_hint(hint))
            }
        }
        if let Fault::Duplicate { q } = f {
            // the prover side must refuse the duplicated query too
            let mut pq2 = pq.clone();
            pq2.push(pq[*q]);
            let r = catch(|| {
                let mut t = T::init();
                Cs::multi_open(&params, &pq2, &mut t)
            });
            match r {
                Ok(Err(e)) if format!("{e:?}").contains("DuplicatedQuery") => {}
                other => {
                    return Verdict::Violation(Viol::new("DuplicateNotRefused", "DuplicateNotRefused:prover", format!("multi_open on a query set repeating a (polynomial, point) pair returned {:?}", other.map(|r| r.map(|_| "Ok")).map_err(|p| p.msg))).with_hint(hint))
                }
            }
        }
    }
    if st.samples.is_empty() {
        st.sample(0, json!({"k": s.k, "polys": s.polys.len(), "points": points.len(), "queries": s.queries, "faults": faults.len()}));
    }
    let _ = n;
    Verdict::Pass
}
