//! Engine shared by the gadget properties (C04-C07, C09): one run = one
//! operation case executed (a) honestly - completeness, functional
//! correctness, structure independence - and (b) under Byzantine prover plans
//! (hook H1): an accepted assignment must bind public values that satisfy the
//! operation's definition.
use std::{
    collections::HashMap,
    sync::{Mutex, OnceLock},
};

use midnight_curves::Fq;
use midnight_proofs::circuit::Value;
use midnight_zk_stdlib::MidnightCircuit;
use serde::{Deserialize, Serialize};
use serde_json::{json, Value as Json};

use crate::{
    core::{
        prng::{self, Prng},
        runner::{catch, Tier, Verdict, Viol},
        stats::Stats,
    },
    opcirc::{apply_late, assigned_advice_cells, record_structure, run_mock, CellEdit, FaultVal, LateEdit, MockVerdict, Trace},
    ops::{self, OpCase, OpRel},
    util::{uniform_fq, Fe},
};

#[derive(Clone, Debug, Serialize, Deserialize, PartialEq)]
pub struct Scn {
    pub case: OpCase,
    pub fault_seed: u64,
    /// number of Byzantine plans (0 = walk every assignment once per fault value)
    pub n_plans: usize,
    /// explicit plans (set by the minimiser)
    pub only: Option<Vec<Vec<CellEdit>>>,
    /// explicit late edits (set by the minimiser)
    #[serde(default)]
    pub only_late: Option<Vec<LateEdit>>,
}

fn k_cache() -> &'static Mutex<HashMap<String, u32>> {
    static C: OnceLock<Mutex<HashMap<String, u32>>> = OnceLock::new();
    C.get_or_init(|| Mutex::new(HashMap::new()))
}

/// Minimal k of the operation circuit (a function of its static parameters).
pub fn min_k(case: &OpCase) -> Result<u32, String> {
    let key = case.static_key();
    if let Some(k) = k_cache().lock().unwrap().get(&key) {
        return Ok(*k);
    }
    let rel = OpRel { case: case.clone() };
    let k = catch(|| {
        rayon::sim::isolated(1, || {
            MidnightCircuit::new(&rel, Value::unknown(), Value::unknown(), Some(case.mbl)).min_k()
        })
    })
    .map_err(|p| format!("cost model panicked at {}: {}", p.site(), p.msg))?;
    k_cache().lock().unwrap().insert(key, k);
    Ok(k)
}

pub fn fault_values(rng: &mut Prng, v: Fq, trace: &Trace) -> Vec<FaultVal> {
    let one = Fe(Fq::from(1));
    let mut vals = vec![
        FaultVal::Add(one),
        FaultVal::Add(Fe(-Fq::from(1))),
        FaultVal::Set(Fe(Fq::from(0))),
        FaultVal::Set(one),
        FaultVal::OneMinus,
        FaultVal::Neg,
        FaultVal::Set(Fe(-Fq::from(1))),
        FaultVal::AddPow2(*rng.pick(&[1u32, 7, 8, 9, 12, 16, 32, 64, 128, 254])),
        FaultVal::Set(Fe(uniform_fq(rng))),
    ];
    if !trace.is_empty() {
        // the value of a neighbouring cell
        vals.push(FaultVal::Set(Fe(trace[rng.usize(trace.len())].2)));
    }
    vals.retain(|f| f.apply(v) != v);
    vals
}

pub fn gen_plans(rng: &mut Prng, trace: &Trace, n_plans: usize) -> Vec<Vec<CellEdit>> {
    let mut plans = vec![];
    if trace.is_empty() {
        return plans;
    }
    if n_plans == 0 {
        // enumerate: every assignment ordinal x every fault value
        for (col, ord, v) in trace {
            for val in fault_values(rng, *v, trace) {
                plans.push(vec![CellEdit { col: *col, ord: *ord, val }]);
            }
        }
        // PRNG order: the caller keeps a prefix when a full walk would take hours
        rng.shuffle(&mut plans);
        return plans;
    }
    for _ in 0..n_plans {
        let n_edits = *rng.pick(&[1usize, 1, 1, 1, 1, 2, 3]);
        let mut plan = vec![];
        for _ in 0..n_edits {
            let (col, ord, v) = trace[rng.usize(trace.len())];
            let vals = fault_values(rng, v, trace);
            if vals.is_empty() {
                continue;
            }
            plan.push(CellEdit { col, ord, val: rng.pick(&vals).clone() });
        }
        if !plan.is_empty() {
            plans.push(plan);
        }
    }
    plans
}

/// A directed move of the Byzantine prover against emulated field arithmetic:
/// the limbs of a published field element are replaced (each with its whole
/// copy cycle) by the limbs of the same integer plus or minus a multiple of the
/// modulus - the same residue in another representation - followed by local
/// repair (quotients and carries of the gate that produced it). An accepted
/// table is judged like any other.
fn modulus_stage<C: midnight_proofs::plonk::Circuit<Fq>>(k: u32, known: &dyn Fn() -> C, case: &OpCase, trace: &Trace, fault_seed: u64, st: &mut Stats) -> Option<Viol> {
    use num_bigint::BigUint;
    let field = case.op.split('.').nth(1)?;
    let m = crate::ops_ff::modulus_of(field);
    let (lb, nl) = crate::ops_ff::limb_params(field);
    let nl = nl as usize;
    let mut base = run_mock(k, &known(), &[], false).prover?;
    let snapshot = base.advice().clone();
    let cells = crate::opcirc::bound_cells(&base, 1);
    let (_, vals, _) = crate::opcirc::bind_and_verify(&mut base);
    // groups of published values between markers
    let marker = Fq::from(crate::ops_ff::MARKER);
    let mut groups: Vec<Vec<usize>> = vec![vec![]];
    for (i, v) in vals.iter().enumerate() {
        if *v == marker {
            groups.push(vec![]);
        } else {
            groups.last_mut().unwrap().push(i);
        }
    }
    let big = |f: &Fq| crate::util::fq_to_big(f);
    // candidate limb groups: (cells, current limb values)
    let mut cands: Vec<(String, Vec<(usize, usize)>, Vec<Fq>)> = vec![];
    for g in groups.iter().filter(|g| g.len() == nl && g.iter().all(|i| cells.get(*i).is_some_and(|c| c.is_some()))) {
        cands.push((format!("published@{}", g[0]), g.iter().map(|i| cells[*i].unwrap()).collect(), g.iter().map(|i| vals[*i]).collect()));
    }
    // internal elements: nl horizontally adjacent assigned cells holding limb-sized values
    // (outputs of the multiplication / normalisation gates, which the prover chooses)
    {
        let mut rows: std::collections::BTreeMap<usize, Vec<(usize, Fq)>> = Default::default();
        for (c, r, v) in crate::opcirc::assigned_advice_cells(&base) {
            rows.entry(r).or_default().push((c, v));
        }
        let lim = BigUint::from(1u8) << lb;
        let m1 = &m - 1u8;
        let (mut zero_like, mut others) = (vec![], vec![]);
        for (r, cs) in rows.iter_mut() {
            cs.sort_by_key(|x| x.0);
            for w in cs.windows(nl) {
                if w[nl - 1].0 - w[0].0 != nl - 1 || w.iter().any(|(_, v)| big(v) >= lim) || w.iter().all(|(_, v)| *v == Fq::from(0)) {
                    continue;
                }
                let raw = w.iter().enumerate().fold(BigUint::from(0u8), |acc, (j, (_, v))| acc + (big(v) << (lb as usize * j)));
                let cand = (format!("row{r}col{}", w[0].0), w.iter().map(|(c, _)| (*c, *r)).collect::<Vec<_>>(), w.iter().map(|(_, v)| *v).collect::<Vec<_>>());
                if raw == m1 {
                    zero_like.push(cand);
                } else {
                    others.push(cand);
                }
            }
        }
        let mut rng = Prng::new(fault_seed, "modshift-windows");
        rng.shuffle(&mut zero_like);
        rng.shuffle(&mut others);
        zero_like.truncate(4);
        others.truncate(2);
        cands.extend(zero_like);
        cands.extend(others);
    }
    // (a) at assignment time, with honest continuation (range checks, comparisons and
    // everything downstream are computed from the shifted limbs); the producing gate's
    // quotient and carries are then re-solved jointly by the repair
    {
        let lim = BigUint::from(1u8) << lb;
        let m1 = &m - 1u8;
        let (mut zero_like, mut others) = (vec![], vec![]);
        if trace.len() >= nl {
            for i in 0..=trace.len() - nl {
                let w = &trace[i..i + nl];
                if (0..nl).any(|j| w[j].0 != w[0].0 + j || big(&w[j].2) >= lim) || w.iter().all(|x| x.2 == Fq::from(0)) {
                    continue;
                }
                let raw = w.iter().enumerate().fold(BigUint::from(0u8), |acc, (j, x)| acc + (big(&x.2) << (lb as usize * j)));
                if raw == m1 {
                    zero_like.push((i, raw));
                } else {
                    others.push((i, raw));
                }
            }
        }
        let mut rng = Prng::new(fault_seed, "modshift-trace");
        rng.shuffle(&mut zero_like);
        rng.shuffle(&mut others);
        zero_like.truncate(4);
        others.truncate(4);
        zero_like.extend(others);
        for (i, raw) in zero_like {
            for shift in [1u32, 2] {
                let target = &raw + &m * shift;
                if target.bits() > (lb as u64) * nl as u64 {
                    continue;
                }
                let mut plan = vec![];
                for j in 0..nl {
                    let limb = (&target >> (lb as usize * j)) % &lim;
                    let new = crate::util::big_to_fq(&limb);
                    if new != trace[i + j].2 {
                        plan.push(CellEdit { col: trace[i + j].0, ord: trace[i + j].1, val: FaultVal::Set(Fe(new)) });
                    }
                }
                if plan.is_empty() {
                    continue;
                }
                let r = run_mock(k, &known(), &plan, false);
                if r.fired == 0 {
                    continue;
                }
                st.fault("byzantine_modulus_shift");
                st.inc("modshift.at_assignment");
                st.nontrivial(prng::digest(format!("{}|modshift-h1|{i}|{shift}", case.static_key()).as_bytes()));
                let judge = |bp: &[Fq], how: String| -> Option<Viol> {
                    unsound(case, bp).map(|e| {
                        Viol::new(
                            "Unsound",
                            format!("Unsound:{}{}", case.op, ops::published_class(case, bp)),
                            format!("{} {:?}: the prover assigns, for a field element the circuit produces (assignment {i} of the trace), the limbs of the same integer plus {shift} x modulus{how} and the circuit is satisfied: {e}", case.op, case.p),
                        )
                        .with_hint(serde_json::to_value(&plan).unwrap())
                    })
                };
                match &r.verdict {
                    MockVerdict::Accept => {
                        st.inc("modshift.accepted");
                        if let Some(v) = judge(&r.bound_plain, String::new()) {
                            return Some(v);
                        }
                    }
                    MockVerdict::Reject(cl) if cl.iter().all(|c| c == "gate") => {
                        let Some(mut p) = r.prover else { continue };
                        let mut protected = vec![];
                        for (ci, col) in p.advice().iter().enumerate() {
                            for (ri, c) in col.iter().enumerate() {
                                if *c != snapshot[ci][ri] {
                                    protected.push((ci, ri));
                                }
                            }
                        }
                        let mut rrng = Prng::new(fault_seed, &format!("modshift-h1-{i}-{shift}"));
                        let n_before = protected.len();
                        let mut made = rayon::sim::isolated(1, || crate::repair::attempt_with(&mut p, &mut protected, &mut rrng, 24, true));
                        // second pass: what the repair re-solved next to the shifted limbs (quotient,
                        // carries) is assigned at assignment time too, so that its range checks are
                        // laid out by the honest continuation
                        let mut plan2 = plan.clone();
                        for (c, r0) in protected[n_before..].iter() {
                            let old = match &snapshot[*c][*r0] {
                                midnight_proofs::dev::CellValue::Assigned(v) => *v,
                                _ => continue,
                            };
                            let new = match &p.advice()[*c][*r0] {
                                midnight_proofs::dev::CellValue::Assigned(v) => *v,
                                _ => continue,
                            };
                            if let Some(t) = trace[i + nl..].iter().take(3 * nl).find(|t| t.0 == *c && t.2 == old) {
                                if !plan2.iter().any(|e| e.col == t.0 && e.ord == t.1) {
                                    plan2.push(CellEdit { col: t.0, ord: t.1, val: FaultVal::Set(Fe(new)) });
                                }
                            }
                        }
                        if plan2.len() > plan.len() {
                            let r2 = run_mock(k, &known(), &plan2, false);
                            st.inc("modshift.second_pass");
                            match (&r2.verdict, r2.prover) {
                                (MockVerdict::Accept, _) => {
                                    st.inc("modshift.accepted");
                                    if let Some(e) = unsound(case, &r2.bound_plain) {
                                        return Some(
                                            Viol::new(
                                                "Unsound",
                                                format!("Unsound:{}{}", case.op, ops::published_class(case, &r2.bound_plain)),
                                                format!("{} {:?}: the prover assigns, for a field element the circuit produces (assignment {i} of the trace), the limbs of the same integer plus {shift} x modulus, together with the matching quotient and carries, and the circuit is satisfied: {e}", case.op, case.p),
                                            )
                                            .with_hint(serde_json::to_value(&plan2).unwrap()),
                                        );
                                    }
                                    continue;
                                }
                                (MockVerdict::Reject(cl2), Some(p2)) if cl2.iter().all(|c| c == "gate") => {
                                    p = p2;
                                    protected.clear();
                                    for (ci, col) in p.advice().iter().enumerate() {
                                        for (ri, c) in col.iter().enumerate() {
                                            if *c != snapshot[ci][ri] {
                                                protected.push((ci, ri));
                                            }
                                        }
                                    }
                                    made = rayon::sim::isolated(1, || crate::repair::attempt_with(&mut p, &mut protected, &mut rrng, 24, true));
                                }
                                (v2, _) => {
                                    if std::env::var("ZKSIM_DEBUG_MODSHIFT").is_ok() {
                                        eprintln!("   second pass: {v2:?}");
                                    }
                                }
                            }
                        }
                        let lf = crate::repair::local_failures(&p, &protected);
                        if std::env::var("ZKSIM_DEBUG_MODSHIFT").is_ok() {
                            eprintln!("modshift-h1 {} trace {i} shift {shift} zero_like {} made {made} local_failures {lf}: {:?}", case.op, raw == m1, crate::repair::describe_failures(&p, &protected));
                        }
                        if lf > 0 {
                            st.inc("modshift.rejected_by_local_gate");
                            continue;
                        }
                        let (v, bp, _) = crate::opcirc::bind_and_verify(&mut p);
                        if std::env::var("ZKSIM_DEBUG_MODSHIFT").is_ok() {
                            eprintln!("   verdict {v:?} unsound {:?}", unsound(case, &bp));
                        }
                        if v == MockVerdict::Accept {
                            st.inc("modshift.accepted");
                            if let Some(v) = judge(&bp, format!(", then re-solves the quotient and carries of the producing gate ({made} local repair(s))")) {
                                return Some(v);
                            }
                        } else {
                            st.inc("modshift.rejected");
                        }
                    }
                    MockVerdict::Reject(_) => st.inc("modshift.rejected"),
                    _ => st.inc("modshift.prover_failed"),
                }
            }
        }
    }
    for (name, gcells, gvals) in &cands {
        let raw = gvals.iter().enumerate().fold(BigUint::from(0u8), |acc, (j, v)| acc + (big(v) << (lb as usize * j)));
        for shift in [1i32, 2, -1] {
            let target = if shift > 0 { &raw + &m * (shift as u32) } else if raw >= m { &raw - &m } else { continue };
            if target.bits() > (lb as u64) * nl as u64 {
                continue;
            }
            // restore, then write the new limbs
            for (ci, col) in snapshot.iter().enumerate() {
                base.advice_mut()[ci].clone_from(col);
            }
            let mut touched = vec![];
            let mut ok = true;
            for j in 0..nl {
                let limb = (&target >> (lb as usize * j)) % (BigUint::from(1u8) << lb);
                let new = crate::util::big_to_fq(&limb);
                let (col, row) = gcells[j];
                // an earlier limb's cycle may already have rewritten this cell
                let cur = match &base.advice()[col][row] {
                    midnight_proofs::dev::CellValue::Assigned(v) => *v,
                    _ => {
                        ok = false;
                        break;
                    }
                };
                if new == cur {
                    continue;
                }
                match apply_late(&mut base, &LateEdit { col, row, val: FaultVal::Set(Fe(new)) }) {
                    Some(t) => touched.extend(t),
                    None => {
                        ok = false;
                        break;
                    }
                }
            }
            if !ok || touched.is_empty() {
                continue;
            }
            st.fault("byzantine_modulus_shift");
            if name.starts_with("row") {
                st.inc("modshift.internal_element");
            }
            st.nontrivial(prng::digest(format!("{}|modshift|{name}|{shift}", case.static_key()).as_bytes()));
            let mut rrng = Prng::new(fault_seed, &format!("modshift{shift}{name}"));
            let made = rayon::sim::isolated(1, || crate::repair::attempt_with(&mut base, &mut touched, &mut rrng, 48, true));
            let lf = crate::repair::local_failures(&base, &touched);
            if std::env::var("ZKSIM_DEBUG_MODSHIFT").is_ok() {
                eprintln!("modshift {} {name} shift {shift} raw_is_m1 {} touched {} made {made} local_failures {lf}", case.op, raw == &m - 1u8, touched.len());
                eprintln!("   failing: {:?}", crate::repair::describe_failures(&base, &touched));
            }
            if lf > 0 {
                st.inc("modshift.rejected_by_local_gate");
                continue;
            }
            let (v, bp, _) = crate::opcirc::bind_and_verify(&mut base);
            if v == MockVerdict::Accept {
                st.inc("modshift.accepted");
                if let Some(e) = unsound(case, &bp) {
                    return Some(Viol::new(
                        "Unsound",
                        format!("Unsound:{}{}", case.op, ops::published_class(case, &bp)),
                        format!("{} {:?}: after honest witness generation, the limbs of a field element ({name}) are replaced by those of the same integer {} {} x modulus ({made} local repair(s)) and the circuit is satisfied: {e}", case.op, case.p, if shift > 0 { "plus" } else { "minus" }, shift.abs()),
                    ));
                }
            } else {
                st.inc("modshift.rejected");
            }
        }
    }
    None
}

/// The late-edit stage of the Byzantine prover on one honest table: every edit
/// is applied to the whole copy cycle of its cell, followed by local repair; the
/// gates next to the changed cells are evaluated first and the full checker runs
/// only when they hold; the table is restored after each edit. `on_accept`
/// judges the public values an accepted table binds.
#[allow(clippy::too_many_arguments)]
pub fn late_stage<C: midnight_proofs::plonk::Circuit<Fq>>(
    k: u32,
    known: &dyn Fn() -> C,
    lates: &[LateEdit],
    fault_seed: u64,
    digest_key: &str,
    st: &mut Stats,
    on_accept: &mut dyn FnMut(&LateEdit, usize, usize, &[Fq]) -> Option<Viol>,
) -> Option<Viol> {
    let mut base = if lates.is_empty() { None } else { run_mock(k, &known(), &[], false).prover };
    let snapshot = base.as_ref().map(|p| p.advice().clone());
    for le in lates {
        let Some(p) = base.as_mut() else { break };
        let snap = snapshot.as_ref().unwrap();
        if p.advice() != snap {
            for (ci, col) in snap.iter().enumerate() {
                p.advice_mut()[ci].clone_from(col);
            }
        }
        let Some(mut touched) = apply_late(p, le) else {
            st.inc("late.skipped_constant_cycle");
            continue;
        };
        let n_cycle = touched.len();
        st.fault("byzantine_late_cell");
        st.nontrivial(prng::digest(format!("{digest_key}|late|{}", serde_json::to_string(le).unwrap()).as_bytes()));
        let mut rrng = Prng::new(fault_seed, &format!("late-repair{}", serde_json::to_string(le).unwrap()));
        let made = rayon::sim::isolated(1, || crate::repair::attempt(p, &mut touched, &mut rrng, 4));
        if made > 0 {
            st.fault("byzantine_repair");
        }
        // (touched now also lists the cells changed by the repairs)
        if crate::repair::local_failures(p, &touched) > 0 {
            // a gate next to the changed cells fails: the full checker would reject
            st.inc("late.rejected");
            st.inc("late.rejected_by_local_gate");
            continue;
        }
        let (v, bp, _) = crate::opcirc::bind_and_verify(p);
        if v == MockVerdict::Accept {
            st.inc("late.accepted");
            if let Some(viol) = on_accept(le, n_cycle, made, &bp) {
                return Some(viol.with_hint(json!({"late": le})));
            }
        } else {
            st.inc("late.rejected");
        }
    }
    None
}

/// Late edits: cells drawn from the honest tables (n_plans == 0: every
/// assigned cell once per fault value, capped).
pub fn gen_lates(rng: &mut Prng, honest: Option<&midnight_proofs::dev::MockProver<Fq>>, trace: &Trace, n_plans: usize) -> Vec<LateEdit> {
    let Some(p) = honest else { return vec![] };
    let cells = assigned_advice_cells(p);
    if cells.is_empty() {
        return vec![];
    }
    let mut out = vec![];
    if n_plans == 0 {
        for (col, row, v) in &cells {
            for val in fault_values(rng, *v, trace) {
                out.push(LateEdit { col: *col, row: *row, val });
            }
        }
        rng.shuffle(&mut out);
        out.truncate(600);
        return out;
    }
    for _ in 0..n_plans {
        let (col, row, v) = cells[rng.usize(cells.len())];
        let vals = fault_values(rng, v, trace);
        if !vals.is_empty() {
            out.push(LateEdit { col, row, val: rng.pick(&vals).clone() });
        }
    }
    out
}

pub fn shrink(s: &Scn, viol: &Viol) -> Vec<Scn> {
    let mut out = vec![];
    if let Some(h) = &viol.hint {
        if let Ok(plan) = serde_json::from_value::<Vec<CellEdit>>(h.clone()) {
            if s.only.as_ref().map(|o| o.len()) != Some(1) {
                out.push(Scn { only: Some(vec![plan.clone()]), ..s.clone() });
            }
            // fewer edits in the plan
            for i in 0..plan.len() {
                if plan.len() > 1 {
                    let mut p = plan.clone();
                    p.remove(i);
                    out.push(Scn { only: Some(vec![p]), ..s.clone() });
                }
            }
        }
    }
    if let Some(h) = &viol.hint {
        if let Some(l) = h.get("late") {
            if let Ok(le) = serde_json::from_value::<LateEdit>(l.clone()) {
                if s.only_late.as_ref().map(|o| o.len()) != Some(1) {
                    out.push(Scn { only: Some(vec![]), only_late: Some(vec![le]), ..s.clone() });
                }
            }
        }
    }
    if viol.hint.is_none() && s.only.is_none() {
        out.push(Scn { only: Some(vec![]), only_late: Some(vec![]), ..s.clone() });
    }
    out
}

thread_local! { static DEFERRED: std::cell::RefCell<Option<String>> = const { std::cell::RefCell::new(None) }; }

/// An accepted execution is unsound iff its bound public values contradict the definition.
fn unsound(case: &OpCase, publics: &[Fq]) -> Option<String> {
    match ops::judge(case, publics) {
        ops::Judgement::Holds => None,
        ops::Judgement::NonCanonicalExposure(m) => {
            DEFERRED.with(|d| {
                if d.borrow().is_none() {
                    *d.borrow_mut() = Some(m)
                }
            });
            None
        }
        ops::Judgement::Inadmissible => Some("the published inputs are outside the operation's domain (or its assertion is false), yet the circuit is satisfied".into()),
        ops::Judgement::Wrong(e) => Some(e),
    }
}

pub struct Outcome {
    pub verdict: Verdict,
}

/// Minimal k of an "ng." circuit: the first k at which synthesis fits.
fn ng_min_k(case: &OpCase) -> Result<u32, String> {
    let key = case.static_key();
    if let Some(k) = k_cache().lock().unwrap().get(&key) {
        return Ok(*k);
    }
    // (the checker needs concrete witnesses: zeros are admissible for every ng operation)
    let mut zero_case = case.clone();
    zero_case.ins.iter_mut().for_each(|x| *x = Fe(Fq::from(0)));
    let c = crate::ops_ng::NgCircuit { case: zero_case, known: true };
    for k in (case.mbl as u32 + 1).max(5)..=14 {
        match catch(|| rayon::sim::isolated(1, || midnight_proofs::dev::MockProver::run(k, &c, vec![vec![], vec![]]).map(|_| ()))) {
            Ok(Ok(())) => {
                k_cache().lock().unwrap().insert(key, k);
                return Ok(k);
            }
            Ok(Err(e)) => { if std::env::var("ZKSIM_DEBUG").is_ok() { eprintln!("ng k={k}: {e:?}"); } continue }
            Err(p) => return Err(format!("configuration panicked at {}: {}", p.site(), p.msg)),
        }
    }
    Err("no k <= 14 fits".into())
}

/// Executes one operation scenario. `prop` only labels the violation text.
pub fn run(s: &Scn, st: &mut Stats, check_structure: bool) -> Verdict {
    let case = &s.case;
    DEFERRED.with(|d| *d.borrow_mut() = None);
    if case.op.starts_with("rx.") {
        let c0 = crate::ops_parse::RxCircuit { case: case.clone(), known: false };
        // the transition table (one row per transition and per final state) must fit too
        let table_rows = match catch(|| {
            crate::ops_parse::rx_library(&crate::ops_parse::rx_of(case), case.p.get(1).copied().unwrap_or(0))
                .1
                .iter()
                .map(|(_, x)| {
                    let a = x.to_lib().to_automaton();
                    a.transitions.len() + a.final_states.len() + 1
                })
                .sum::<usize>()
        }) {
            Ok(n) => n,
            Err(p) => return Verdict::Harness(format!("rx.parse: compiling the expression panicked at {}: {}", p.site(), p.msg)),
        };
        let k_min = (usize::BITS - (table_rows + 64).leading_zeros()).max(9);
        let mut k = None;
        for kk in k_min..=16u32 {
            match catch(|| rayon::sim::isolated(1, || record_structure(kk, &c0, false))) {
                Ok(Ok(_)) => {
                    k = Some(kk);
                    break;
                }
                Ok(Err(_)) => continue,
                Err(p) => return Verdict::Harness(format!("rx.parse: configuration panicked at {}: {}", p.site(), p.msg)),
            }
        }
        let Some(k) = k else { return Verdict::Harness("rx.parse: no k <= 16 fits".into()) };
        return run_generic(s, st, check_structure, k, &|known| crate::ops_parse::RxCircuit { case: case.clone(), known });
    }
    if case.op.starts_with("ff.c25519") {
        // zeros are admissible witnesses of every field operation but the inverses: search k with ones
        let mut probe = case.clone();
        probe.bins.iter_mut().for_each(|b| *b = "1".into());
        probe.ins.iter_mut().for_each(|x| *x = Fe(Fq::from(0)));
        let key = case.static_key();
        let cached = k_cache().lock().unwrap().get(&key).copied();
        let k = match cached {
            Some(k) => k,
            None => {
                let c0 = crate::ops_ff::FfScratch { case: probe, known: true };
                let mut found = None;
                for kk in 9..=15u32 {
                    if let Ok(Ok(())) = catch(|| rayon::sim::isolated(1, || midnight_proofs::dev::MockProver::run(kk, &c0, vec![vec![], vec![]]).map(|_| ()))) {
                        found = Some(kk);
                        break;
                    }
                }
                let Some(k) = found else { return Verdict::Harness(format!("{}: no k <= 15 fits", case.op)) };
                k_cache().lock().unwrap().insert(key, k);
                k
            }
        };
        return run_generic(s, st, check_structure, k, &|known| crate::ops_ff::FfScratch { case: case.clone(), known });
    }
    if case.op.starts_with("vh.") {
        // one size fits every length: the buffer has a fixed capacity
        let key = "vh.sha256".to_string();
        let cached = k_cache().lock().unwrap().get(&key).copied();
        let k = match cached {
            Some(k) => k,
            None => {
                let c0 = crate::ops_hash::varsha::VarShaCircuit { case: case.clone(), known: true };
                let mut found = None;
                for kk in 13..=17u32 {
                    if let Ok(Ok(())) = catch(|| rayon::sim::isolated(1, || midnight_proofs::dev::MockProver::run(kk, &c0, vec![vec![], vec![]]).map(|_| ()))) {
                        found = Some(kk);
                        break;
                    }
                }
                let Some(k) = found else { return Verdict::Harness("vh.sha256: no k <= 17 fits".into()) };
                k_cache().lock().unwrap().insert(key, k);
                k
            }
        };
        return run_generic(s, st, check_structure, k, &|known| crate::ops_hash::varsha::VarShaCircuit { case: case.clone(), known });
    }
    if case.op.starts_with("vec.") {
        let key = format!("{}/{}", case.op, case.p[2]);
        let cached = k_cache().lock().unwrap().get(&key).copied();
        let k = match cached {
            Some(k) => k,
            None => {
                // size with a satisfiable instance of the operation
                let mut probe = case.clone();
                probe.p[4] = 0;
                let l1 = probe.p[0] as usize;
                let first: Vec<Fe> = probe.ins[..=l1].to_vec();
                if probe.op.contains("not_equal") {
                    // any two different payloads
                    if probe.ins[..l1] == probe.ins[l1 + 1..probe.ins.len() - 1] {
                        probe.p[2] = 1;
                        probe.ins = [first.clone(), vec![Fe(Fq::from(0xabcdef)), Fe(Fq::from(0))]].concat();
                        probe.ins[l1 + 1].0 += Fq::from(7);
                    }
                } else if probe.op.contains("assert_equal") {
                    probe.p[2] = probe.p[0];
                    probe.ins = [first.clone(), first.clone()].concat();
                }
                // the layout alone decides the size (a witness generator that fails on an
                // admissible input is a verdict of the honest stage, not a sizing error)
                let c0 = crate::ops_vec::VecCircuit { case: probe, known: false };
                let mut found = None;
                for kk in 8..=14u32 {
                    if let Ok(Ok(_)) = catch(|| rayon::sim::isolated(1, || record_structure(kk, &c0, false))) {
                        found = Some(kk);
                        break;
                    }
                }
                let Some(k) = found else { return Verdict::Harness(format!("{}: no k <= 14 fits", case.op)) };
                k_cache().lock().unwrap().insert(key, k);
                k
            }
        };
        return run_generic(s, st, check_structure, k, &|known| crate::ops_vec::VecCircuit { case: case.clone(), known });
    }
    if case.op.starts_with("vec4.") {
        let key = format!("{}/{}/{}", case.op, case.p[0], case.p[2]);
        let cached = k_cache().lock().unwrap().get(&key).copied();
        let k = match cached {
            Some(k) => k,
            None => {
                let mut probe = case.clone();
                probe.p[4] = 0;
                if probe.op.contains("assert_equal") {
                    let l1 = probe.p[0] as usize;
                    let first: Vec<Fe> = probe.ins[..=l1].to_vec();
                    probe.p[2] = probe.p[0];
                    probe.ins = [first.clone(), first].concat();
                }
                // the layout alone decides the size (a witness generator that fails on an
                // admissible input is a verdict of the honest stage, not a sizing error)
                let c0 = crate::ops_vec::Vec4Circuit { case: probe, known: false };
                let mut found = None;
                for kk in 8..=14u32 {
                    if let Ok(Ok(_)) = catch(|| rayon::sim::isolated(1, || record_structure(kk, &c0, false))) {
                        found = Some(kk);
                        break;
                    }
                }
                let Some(k) = found else { return Verdict::Harness(format!("{}: no k <= 14 fits", case.op)) };
                k_cache().lock().unwrap().insert(key, k);
                k
            }
        };
        return run_generic(s, st, check_structure, k, &|known| crate::ops_vec::Vec4Circuit { case: case.clone(), known });
    }
    if case.op.starts_with("vec3.") {
        let key = format!("{}/{}/{}", case.op, case.p[0], case.p[2]);
        let cached = k_cache().lock().unwrap().get(&key).copied();
        let k = match cached {
            Some(k) => k,
            None => {
                let mut probe = case.clone();
                probe.p[4] = 0;
                if probe.op.contains("assert_equal") {
                    let l1 = probe.p[0] as usize;
                    let first: Vec<Fe> = probe.ins[..=l1].to_vec();
                    probe.p[2] = probe.p[0];
                    probe.ins = [first.clone(), first].concat();
                }
                // the layout alone decides the size (a witness generator that fails on an
                // admissible input is a verdict of the honest stage, not a sizing error)
                let c0 = crate::ops_vec::Vec3Circuit { case: probe, known: false };
                let mut found = None;
                for kk in 8..=14u32 {
                    if let Ok(Ok(_)) = catch(|| rayon::sim::isolated(1, || record_structure(kk, &c0, false))) {
                        found = Some(kk);
                        break;
                    }
                }
                let Some(k) = found else { return Verdict::Harness(format!("{}: no k <= 14 fits", case.op)) };
                k_cache().lock().unwrap().insert(key, k);
                k
            }
        };
        return run_generic(s, st, check_structure, k, &|known| crate::ops_vec::Vec3Circuit { case: case.clone(), known });
    }
    if case.op.starts_with("vp.") {
        let key = "vp.poseidon".to_string();
        let cached = k_cache().lock().unwrap().get(&key).copied();
        let k = match cached {
            Some(k) => k,
            None => {
                let c0 = crate::ops_hash::varpos::VarPosCircuit { case: case.clone(), known: true };
                let mut found = None;
                for kk in 8..=14u32 {
                    if let Ok(Ok(())) = catch(|| rayon::sim::isolated(1, || midnight_proofs::dev::MockProver::run(kk, &c0, vec![vec![], vec![]]).map(|_| ()))) {
                        found = Some(kk);
                        break;
                    }
                }
                let Some(k) = found else { return Verdict::Harness("vp.poseidon: no k <= 14 fits".into()) };
                k_cache().lock().unwrap().insert(key, k);
                k
            }
        };
        return run_generic(s, st, check_structure, k, &|known| crate::ops_hash::varpos::VarPosCircuit { case: case.clone(), known });
    }
    if case.op.starts_with("hr.") {
        // the size depends on the number of blocks only
        let key = format!("hr.ripemd160/{}", (case.p[0] + 9).div_ceil(64));
        let cached = k_cache().lock().unwrap().get(&key).copied();
        let k = match cached {
            Some(k) => k,
            None => {
                let c0 = crate::ops_hash::rip::RipCircuit { case: case.clone(), known: true };
                let mut found = None;
                for kk in 12..=16u32 {
                    if let Ok(Ok(())) = catch(|| rayon::sim::isolated(1, || midnight_proofs::dev::MockProver::run(kk, &c0, vec![vec![], vec![]]).map(|_| ()))) {
                        found = Some(kk);
                        break;
                    }
                }
                let Some(k) = found else { return Verdict::Harness("hr.ripemd160: no k <= 16 fits".into()) };
                k_cache().lock().unwrap().insert(key, k);
                k
            }
        };
        return run_generic(s, st, check_structure, k, &|known| crate::ops_hash::rip::RipCircuit { case: case.clone(), known });
    }
    if case.op.starts_with("sp.") {
        let c0 = crate::ops_hash::sponge::SpCircuit { case: case.clone(), known: true };
        let mut k = None;
        for kk in 6..=14u32 {
            if let Ok(Ok(())) = catch(|| rayon::sim::isolated(1, || midnight_proofs::dev::MockProver::run(kk, &c0, vec![vec![], vec![]]).map(|_| ()))) {
                k = Some(kk);
                break;
            }
        }
        let Some(k) = k else { return Verdict::Harness("sp.poseidon: no k <= 14 fits".into()) };
        return run_generic(s, st, check_structure, k, &|known| crate::ops_hash::sponge::SpCircuit { case: case.clone(), known });
    }
    if case.op.starts_with("ng.") {
        let k = match ng_min_k(case) {
            Ok(k) => k,
            Err(e) => return Verdict::Harness(format!("{}: {e}", case.op)),
        };
        return run_generic(s, st, check_structure, k, &|known| crate::ops_ng::NgCircuit { case: case.clone(), known });
    }
    let k = match min_k(case) {
        Ok(k) => k,
        Err(e) => {
            // circuits whose *configuration* panics for these static parameters are API misuse by the generator
            return Verdict::Harness(format!("{}: {e}", case.op));
        }
    };
    let rel = OpRel { case: case.clone() };
    let wit = ops::witness(case);
    run_generic(s, st, check_structure, k, &|known| {
        if known {
            MidnightCircuit::new(&rel, Value::known(vec![]), Value::known(wit.clone()), Some(case.mbl))
        } else {
            MidnightCircuit::new(&rel, Value::unknown(), Value::unknown(), Some(case.mbl))
        }
    })
}

fn run_generic<C: midnight_proofs::plonk::Circuit<Fq>>(s: &Scn, st: &mut Stats, check_structure: bool, k: u32, mk: &dyn Fn(bool) -> C) -> Verdict {
    let case = &s.case;
    st.inc(&format!("op.{}", case.op));
    st.inc(&format!("config.cols{}_mbl{}", case.cols, case.mbl));
    let known = || mk(true);

    // (1) structure with unknown witnesses
    let d0 = if check_structure {
        let unknown = mk(false);
        match catch(|| record_structure(k, &unknown, false)) {
            Ok(Ok(s)) => Some(s),
            Ok(Err(e)) => return Verdict::Harness(format!("{}: synthesis without witnesses failed: {e:?}", case.op)),
            Err(p) => return Verdict::Harness(format!("{}: synthesis without witnesses panicked at {}: {}", case.op, p.site(), p.msg)),
        }
    } else {
        None
    };

    // (2) honest run
    let honest = run_mock(k, &known(), &[], true);
    st.events += honest.assignments as u64;
    st.add("assignments", honest.assignments as u64);
    let desc = || format!("{} {:?} {:?} on inputs {:?} {:?}", case.op, case.p, case.big, case.ins, case.bins);
    let pubs = |v: &[Fq]| v.iter().map(|x| Fe(*x)).collect::<Vec<_>>();
    let admissible = match &honest.verdict {
        MockVerdict::Accept => match ops::judge(case, &honest.bound_plain) {
            ops::Judgement::Holds => true,
            ops::Judgement::NonCanonicalExposure(m) => {
                return Verdict::Violation(Viol::new(
                    "NonCanonicalExposure",
                    format!("NonCanonicalExposure:honest:{}", case.op),
                    format!("{}: the honest execution publishes a non-canonical representation: {m}", desc()),
                ))
            }
            ops::Judgement::Wrong(e) => {
                return Verdict::Violation(Viol::new(
                    "WrongResult",
                    format!("WrongResult:{}{}", case.op, if case.op.starts_with("vec") { ops::input_class(case) } else { String::new() }),
                    format!("{}: the honest circuit is satisfied with public values {:?}, but {e}", desc(), pubs(&honest.bound_plain)),
                ))
            }
            ops::Judgement::Inadmissible => {
                return Verdict::Violation(Viol::new(
                    "DomainNotEnforced",
                    format!("DomainNotEnforced:{}{}", case.op, ops::published_class(case, &honest.bound_plain)),
                    format!("{}: the inputs are outside the documented domain (or the assertion is false) but the circuit is satisfied with public values {:?}", desc(), pubs(&honest.bound_plain)),
                ))
            }
        },
        v => {
            // not satisfiable with the honest witness: fine iff the inputs are inadmissible
            if ops::expected_admissible(case) {
                return Verdict::Violation(Viol::new(
                    "Incomplete",
                    format!("Incomplete:{}{}", case.op, ops::input_class(case)),
                    format!("{}: admissible inputs, yet not satisfiable with the honest witness: {v:?}", desc()),
                ));
            }
            st.probe("inadmissible_input_rejected");
            false
        }
    };
    st.inc(if admissible { "inputs.admissible" } else { "inputs.inadmissible" });
    st.nontrivial(prng::digest(serde_json::to_string(case).unwrap().as_bytes()));
    let _ = &pubs;

    // (3) structure with the concrete witness (closures invoked) must be the same
    if let Some(d0) = &d0 {
        if admissible {
            match catch(|| record_structure(k, &known(), true)) {
                Ok(Ok(d1)) => {
                    if d1.digest() != d0.digest() {
                        return Verdict::Violation(Viol::new(
                            "StructureDependsOnWitness",
                            format!("StructureDependsOnWitness:{}", case.op),
                            format!("{} {:?}: circuit structure with witness {:?} differs from the structure without witnesses in: {:?}", case.op, case.p, case.ins, d0.diff(&d1)),
                        ));
                    }
                    st.inc("structure_comparisons");
                }
                Ok(Err(_)) | Err(_) => {}
            }
        }
    }
    if !admissible {
        return Verdict::Pass;
    }

    // (4) Byzantine prover plans
    let plans = match &s.only {
        Some(p) => p.clone(),
        None => gen_plans(&mut Prng::new(s.fault_seed, "faults"), &honest.trace, s.n_plans),
    };
    // large circuits (foreign-curve scalar multiplications, hashes): a few plans per run
    let mut plans = plans;
    // variable-length hashing: adversarial content of the unused tail of the buffer
    let filler_values: Vec<Fq> = if case.op.starts_with("vh.") && case.p.get(1).copied().unwrap_or(0) > 128 {
        vec![Fq::from(case.p[1])]
    } else if case.op.starts_with("vp.") && case.p.get(1) == Some(&1) {
        case.ins.last().map(|x| x.0).into_iter().collect()
    } else if case.op.starts_with("vec") {
        crate::ops_vec::fillers(case)
    } else {
        vec![]
    };
    if !filler_values.is_empty() && plans.is_empty() {
        let cand: Vec<&(usize, usize, Fq)> = honest.trace.iter().filter(|t| filler_values.contains(&t.2)).collect();
        let mut rng = Prng::new(s.fault_seed, "filler");
        if !cand.is_empty() {
            for _ in 0..if s.n_plans == 0 { 12 } else { 4 } {
                let n = *rng.pick(&[1usize, 1, 2, 4, 8, 64]);
                let mut plan: Vec<CellEdit> = vec![];
                for _ in 0..n {
                    let t = cand[rng.usize(cand.len())];
                    let g = *rng.pick(&[0u64, 1, 0x80, 0xff, 0x7f]);
                    let g = if filler_values.contains(&Fq::from(g)) { 0x55 } else { g };
                    if !plan.iter().any(|e| e.col == t.0 && e.ord == t.1) {
                        plan.push(CellEdit { col: t.0, ord: t.1, val: FaultVal::Set(Fe(Fq::from(g))) });
                    }
                }
                plans.push(plan);
            }
            st.inc("filler_plans");
        }
    }
    if k >= 14 && s.only.is_none() {
        plans.truncate(if k >= 16 { 2 } else { 4 });
    }
    // a walk of every assignment: complete for small circuits, a PRNG-chosen subset whose
    // size shrinks with the table height for the others (each plan is a full synthesis)
    if s.n_plans == 0 && s.only.is_none() {
        let cap = ((1usize << 21) >> k).clamp(64, 1600);
        if plans.len() > cap {
            st.inc("walks_truncated");
            plans.truncate(cap);
        } else {
            st.inc("walks_complete");
        }
    }
    for plan in &plans {
        let r = run_mock(k, &known(), plan, false);
        st.events += r.assignments as u64;
        if r.fired == 0 {
            st.inc("plans_not_fired");
            continue;
        }
        st.fault("byzantine_cell");
        st.nontrivial(prng::digest(format!("{}|{}", case.static_key(), serde_json::to_string(plan).unwrap()).as_bytes()));
        match &r.verdict {
            MockVerdict::Accept => {
                let changed_out = r.bound_plain != honest.bound_plain;
                st.inc(if changed_out { "accepted_with_other_public_values" } else { "accepted_same_public_values" });
                if let Some(e) = unsound(case, &r.bound_plain) {
                    return Verdict::Violation(
                        Viol::new(
                            "Unsound",
                            format!("Unsound:{}{}", case.op, ops::published_class(case, &r.bound_plain)),
                            format!(
                                "{} {:?} {:?}: with the Byzantine edit {plan:?} the circuit is satisfied with public values {:?}: {e}",
                                case.op,
                                case.p,
                                case.big,
                                pubs(&r.bound_plain)
                            ),
                        )
                        .with_hint(serde_json::to_value(plan).unwrap()),
                    );
                }
            }
            MockVerdict::Reject(cl) => {
                st.inc("rejected");
                for c in cl {
                    st.inc(&format!("rejected_by.{c}"));
                }
                // second move of the Byzantine prover: cover the tracks by
                // re-solving another cell of each failing gate row
                if cl.iter().all(|c| c == "gate") {
                    if let (Some(mut p), Some(hp)) = (r.prover, honest.prover.as_ref()) {
                        let mut protected = vec![];
                        for (ci, col) in p.advice().iter().enumerate() {
                            for (ri, c) in col.iter().enumerate() {
                                if *c != hp.advice()[ci][ri] {
                                    protected.push((ci, ri));
                                }
                            }
                        }
                        let mut rrng = Prng::new(s.fault_seed, &format!("repair{}", serde_json::to_string(plan).unwrap()));
                        let made = rayon::sim::isolated(1, || crate::repair::attempt(&mut p, &mut protected, &mut rrng, 3));
                        if made > 0 {
                            st.fault("byzantine_repair");
                            let (v2, bp2, _) = crate::opcirc::bind_and_verify(&mut p);
                            if v2 == MockVerdict::Accept {
                                st.inc("accepted_after_repair");
                                if let Some(e) = unsound(case, &bp2) {
                                    return Verdict::Violation(
                                        Viol::new(
                                            "Unsound",
                                            format!("Unsound:{}{}", case.op, ops::published_class(case, &bp2)),
                                            format!(
                                                "{} {:?} {:?}: with the Byzantine edit {plan:?} followed by {made} local repair(s) of other cells in the failing gate rows, the circuit is satisfied with public values {:?}: {e}",
                                                case.op,
                                                case.p,
                                                case.big,
                                                pubs(&bp2)
                                            ),
                                        )
                                        .with_hint(serde_json::to_value(plan).unwrap()),
                                    );
                                }
                            }
                        }
                    }
                }
            }
            MockVerdict::SynthErr(_) => st.inc("prover_failed.synthesis_error"),
            MockVerdict::Panic(_) => st.inc("prover_failed.panic"),
        }
        // a Byzantine value must never move a selector, a constant or a copy constraint
        if let Some(d0) = &d0 {
            if plans.len() <= 12 || prng::digest(serde_json::to_string(plan).unwrap().as_bytes()) % 8 == 0 {
                crate::opcirc::install_plan(plan, false);
                let d2 = catch(|| record_structure(k, &known(), true));
                let _ = midnight_proofs::verif_hooks::clear();
                if let Ok(Ok(d2)) = d2 {
                    if d2.digest() != d0.digest() {
                        return Verdict::Violation(
                            Viol::new(
                                "StructureDependsOnWitness",
                                format!("StructureDependsOnWitness:{}", case.op),
                                format!("{} {:?}: under the Byzantine edit {plan:?} the circuit structure differs from the structure without witnesses in: {:?}", case.op, case.p, d0.diff(&d2)),
                            )
                            .with_hint(serde_json::to_value(plan).unwrap()),
                        );
                    }
                    st.inc("structure_comparisons");
                }
            }
        }
    }
    // (5) late edits: a value substituted on a whole copy cycle after honest witness generation
    let lates: Vec<LateEdit> = match (&s.only_late, &s.only) {
        (Some(l), _) => l.clone(),
        (None, Some(_)) => vec![],
        (None, None) => gen_lates(&mut Prng::new(s.fault_seed, "late"), honest.prover.as_ref(), &honest.trace, if s.n_plans == 0 { 0 } else if k >= 14 { 2 } else { (4 * s.n_plans).max(12) }),
    };
    let mut lates = lates;
    if k >= 14 && s.only_late.is_none() {
        lates.truncate(40);
    }
    let digest_key = case.static_key();
    let r = late_stage(k, &known, &lates, s.fault_seed, &digest_key, st, &mut |le, n_cycle, made, bp| {
        unsound(case, bp).map(|e| {
            Viol::new(
                "Unsound",
                format!("Unsound:{}{}", case.op, ops::published_class(case, bp)),
                format!(
                    "{} {:?} {:?}: after honest witness generation, replacing the value of advice cell (column {}, row {}) and of its copy cycle ({} cells) by {:?}{} leaves the circuit satisfied with public values {:?}: {e}",
                    case.op,
                    case.p,
                    case.big,
                    le.col,
                    le.row,
                    n_cycle,
                    le.val,
                    if made > 0 { format!(", with {made} local repair(s)") } else { String::new() },
                    pubs(bp)
                ),
            )
        })
    });
    if let Some(v) = r {
        return Verdict::Violation(v);
    }
    // (6) emulated fields: the representation of a published element shifted by a multiple of the modulus
    if case.op.starts_with("ff.") && s.only.is_none() && s.only_late.is_none() {
        if let Some(v) = modulus_stage(k, &known, case, &honest.trace, s.fault_seed, st) {
            return Verdict::Violation(v);
        }
    }
    if let Some(m) = DEFERRED.with(|d| d.borrow_mut().take()) {
        // reported last, so that it never masks another violation of the same run
        let fam: Vec<&str> = case.op.split('.').take(2).collect();
        return Verdict::Violation(Viol::new(
            "NonCanonicalExposure",
            format!("NonCanonicalExposure:{}", fam.join(".")),
            format!("{} {:?}: under a Byzantine choice of limbs the circuit is satisfied and the operation is correct on the residues, but {m}", case.op, case.p),
        ));
    }
    if st.samples.is_empty() {
        st.sample(0, json!({"case": case, "k": k, "assignments": honest.assignments, "plans": plans.len(), "first_plan": plans.first()}));
    }
    Verdict::Pass
}

pub fn to_json(s: &Scn) -> Json {
    serde_json::to_value(s).unwrap()
}

pub fn plans_for(tier: Tier, idx: u64) -> usize {
    match tier {
        Tier::Quick => 8,
        // every 4th thorough scenario walks every assignment
        Tier::Thorough => {
            if idx % 4 == 0 {
                0
            } else {
                24
            }
        }
    }
}
