//! C17 - key generation is deterministic and keys survive serialization.
//! Scheduler + storage + restarts: keygen under several pool sizes / task
//! orders / fresh OS threads (different HashMap seeds); write / restart / read
//! epochs through faulty writers and readers; crash mid-write; proofs made and
//! checked with original and reloaded keys; params downsize / re-derivation.
use midnight_curves::Bls12;
use midnight_proofs::{
    circuit::{floor_planner::V1, SimpleFloorPlanner},
    poly::kzg::params::ParamsKZG,
    utils::SerdeFormat,
};
use rand_chacha::ChaCha20Rng;
use rand_core::SeedableRng;
use serde::{Deserialize, Serialize};
use serde_json::{json, Value};

use super::c01;
use crate::{
    core::{
        fio::{FaultyReader, FaultyWriter, IoPlan},
        prng::{self, Prng},
        runner::{catch, Check, Meta, Tier, Verdict, Viol},
        stats::Stats,
    },
    fixtures,
    gen_circuit::{GenCircuit, Spec},
    pipeline::{self, Pk, Sched, Vk},
};

pub struct C17;

#[derive(Clone, Copy, Debug, Serialize, Deserialize, PartialEq, Eq)]
pub enum Fmt {
    Processed,
    RawBytes,
    RawBytesUnchecked,
}
impl Fmt {
    pub fn to(self) -> SerdeFormat {
        match self {
            Fmt::Processed => SerdeFormat::Processed,
            Fmt::RawBytes => SerdeFormat::RawBytes,
            Fmt::RawBytesUnchecked => SerdeFormat::RawBytesUnchecked,
        }
    }
    fn draw(rng: &mut Prng) -> (Fmt, Fmt) {
        // (write format, compatible read format)
        match rng.below(5) {
            0 => (Fmt::Processed, Fmt::Processed),
            1 => (Fmt::RawBytes, Fmt::RawBytes),
            2 => (Fmt::RawBytes, Fmt::RawBytesUnchecked),
            3 => (Fmt::RawBytesUnchecked, Fmt::RawBytes),
            _ => (Fmt::RawBytesUnchecked, Fmt::RawBytesUnchecked),
        }
    }
}

#[derive(Clone, Debug, Serialize, Deserialize, PartialEq)]
pub struct Epoch {
    pub wfmt: Fmt,
    pub rfmt: Fmt,
    pub wplan: IoPlan,
    pub rplan: IoPlan,
    /// crash during the write: only this fraction (per mille) of the bytes is durable
    pub crash_permille: Option<u32>,
    /// the disk fills up after this fraction (per mille) of the bytes: the
    /// writer starts returning errors there
    #[serde(default)]
    pub disk_full_permille: Option<u32>,
}

#[derive(Clone, Debug, Serialize, Deserialize, PartialEq)]
pub struct Scn {
    pub base: c01::Scn,
    /// further key generations, each on a fresh OS thread
    pub regen: Vec<Sched>,
    pub vk_epochs: Vec<Epoch>,
    pub pk_epochs: Vec<Epoch>,
    pub params_epochs: Vec<Epoch>,
    pub downsize_to: u32,
    pub setup_sched: Sched,
}

fn draw_epoch(rng: &mut Prng, allow_crash: bool) -> Epoch {
    let (wfmt, rfmt) = Fmt::draw(rng);
    let crash = allow_crash && rfmt != Fmt::RawBytesUnchecked && rng.chance(1, 4);
    Epoch {
        wfmt,
        rfmt,
        wplan: if rng.chance(1, 5) { IoPlan::clean() } else { IoPlan::benign(rng) },
        rplan: if rng.chance(1, 5) { IoPlan::clean() } else { IoPlan::benign(rng) },
        crash_permille: if crash { Some(rng.below(1000) as u32) } else { None },
        disk_full_permille: if rng.chance(1, 3) {
            // often within the last bytes, where buffered writers hide errors
            Some(if rng.chance(1, 2) { 990 + rng.below(10) as u32 } else { rng.below(1000) as u32 })
        } else {
            None
        },
    }
}

fn vk_write(vk: &Vk, e: &Epoch, st: &mut Stats) -> Result<Vec<u8>, String> {
    let mut w = FaultyWriter::new(&e.wplan);
    vk.write(&mut w, e.wfmt.to()).map_err(|e| format!("{e}"))?;
    io_stats(st, "write", w.counts.short, w.counts.interrupted, w.counts.calls);
    Ok(w.out)
}
fn io_stats(st: &mut Stats, dir: &str, short: u64, intr: u64, calls: u64) {
    st.add(&format!("fault.short_{dir}"), short);
    st.add(&format!("fault.interrupted_{dir}"), intr);
    st.events += calls;
}
fn vk_read(bytes: &[u8], spec: &Spec, fmt: Fmt, plan: &IoPlan, st: &mut Stats) -> std::io::Result<Vk> {
    let mut r = FaultyReader::new(bytes, plan);
    let res = if spec.v1 {
        Vk::read::<_, GenCircuit<V1>>(&mut r, fmt.to(), spec.clone())
    } else {
        Vk::read::<_, GenCircuit<SimpleFloorPlanner>>(&mut r, fmt.to(), spec.clone())
    };
    io_stats(st, "read", r.counts.short, r.counts.interrupted, r.counts.calls);
    res
}
fn pk_read(bytes: &[u8], spec: &Spec, fmt: Fmt, plan: &IoPlan, st: &mut Stats) -> std::io::Result<Pk> {
    let mut r = FaultyReader::new(bytes, plan);
    let res = if spec.v1 {
        Pk::read::<_, GenCircuit<V1>>(&mut r, fmt.to(), spec.clone())
    } else {
        Pk::read::<_, GenCircuit<SimpleFloorPlanner>>(&mut r, fmt.to(), spec.clone())
    };
    io_stats(st, "read", r.counts.short, r.counts.interrupted, r.counts.calls);
    res
}

/// Disk-full fault: the device accepts only `permille` of `full` and then
/// fails every write. A write that reports success must have stored everything.
fn disk_full_check(
    what: &str,
    full: &[u8],
    permille: u32,
    io: &IoPlan,
    st: &mut Stats,
    write: impl FnOnce(&mut FaultyWriter) -> std::io::Result<()>,
) -> Option<Verdict> {
    let cap = (full.len() as u64 * permille as u64 / 1000) as usize;
    if cap >= full.len() {
        return None;
    }
    let plan = IoPlan { fail_at: Some(cap), ..io.clone() };
    let mut w = FaultyWriter::new(&plan);
    let r = catch(|| write(&mut w));
    st.fault("disk_full");
    match r {
        Ok(Err(_)) => None,
        Ok(Ok(())) => Some(viol(
            "WriteErrorSwallowed",
            what,
            format!("writing the {what} to a device that fills up after {cap} of {} bytes returned Ok(()); only {} bytes were stored", full.len(), w.out.len()),
        )),
        Err(p) => Some(viol("WritePanic", what, format!("writing the {what} to a full device panicked at {}: {}", p.site(), p.msg))),
    }
}

fn viol(class: &str, what: &str, detail: String) -> Verdict {
    Verdict::Violation(Viol::new(class, format!("{class}:{what}"), detail))
}

impl Check for C17 {
    fn id(&self) -> &'static str {
        "C17"
    }
    fn meta(&self) -> Meta {
        Meta {
            level: "exploration",
            rule: "five runs in six: one generated circuit: key generation under a drawn pool size / task order, repeated on fresh OS threads (fresh HashMap seeds) under other schedules; then storage epochs for vk, pk and params: write with format A through a writer with short writes and EINTR, 'restart', read with compatible format B through a reader with short reads and EINTR, re-serialise and compare; crash epochs keep only a durable prefix and must read as an error; proofs from {original, reloaded} pk are verified with {original, reloaded} vk; downsize(k') is compared with parameters derived for k' from the same secret; unsafe_setup is repeated under another schedule. distinct_nontrivial counts distinct scenario digests in which at least one I/O fault or a non-trivial schedule (pool > 1 or permuted order) actually occurred; every 6th run: the keys of a standard-library relation of the operation registry - generated under two schedules (byte-identical), written and read over the faulty disk, re-serialised identically, byte-identical proofs from original and reloaded proving key, all four (pk, vk) combinations verify",
            assumptions: vec![
                "HashMap iteration order cannot be seeded: each extra key generation runs on a fresh OS thread, so an order dependence shows up with probability >= 1/2 per repetition (6 repetitions)",
                "RawBytesUnchecked is only read back from undamaged bytes (it is documented as unchecked)",
            ],
            components: vec![
                ("keygen / vk, pk, params (de)serialisation / prover / verifier", "real"),
                ("disk", "simulated: in-memory, short / interrupted transfers, crash = durable prefix"),
                ("rayon", "simulated: deterministic PRNG scheduler"),
                ("SRS ceremony", "real unsafe_setup from a fixed secret (subject here)"),
            ],
            expected_probes: vec![
                "short_read",
                "short_write",
                "interrupted_read",
                "interrupted_write",
                "crash_mid_write",
                "disk_full",
                "pool_gt_1",
                "four_way_proof_check",
                "downsize",
            ],
        }
    }
    fn runs(&self, tier: Tier) -> u64 {
        match tier {
            Tier::Quick => 400,
            Tier::Thorough => 8000,
        }
    }
    fn generate(&self, rng: &mut Prng, tier: Tier, idx: u64) -> Value {
        // every 6th run: the keys of a standard-library relation
        if idx % 6 == 5 {
            return serde_json::json!({"std": super::stdpipe::gen(rng, tier == Tier::Thorough)});
        }
        let mut base = c01::gen_scn_k(rng, tier, 8);
        base.witnesses.truncate(1);
        let thorough = tier == Tier::Thorough;
        let regen = (0..6).map(|_| Sched::draw(rng, thorough)).collect();
        let downsize_to = rng.range(1, base.spec.k as u64) as u32;
        let scn = Scn {
            regen,
            vk_epochs: (0..rng.range(1, 3)).map(|_| draw_epoch(rng, true)).collect(),
            pk_epochs: (0..rng.range(1, 2)).map(|_| draw_epoch(rng, true)).collect(),
            params_epochs: if rng.chance(1, 2) { vec![draw_epoch(rng, false)] } else { vec![] },
            downsize_to,
            setup_sched: Sched::draw(rng, thorough),
            base,
        };
        serde_json::to_value(scn).unwrap()
    }
    fn execute(&self, scn: &Value, st: &mut Stats) -> Verdict {
        if let Some(std) = scn.get("std") {
            return match serde_json::from_value::<super::stdpipe::StdScn>(std.clone()) {
                Ok(s) => super::stdpipe::run_c17(&s, st),
                Err(e) => Verdict::Harness(format!("bad scenario: {e}")),
            };
        }
        let s: Scn = match serde_json::from_value(scn.clone()) {
            Ok(s) => s,
            Err(e) => return Verdict::Harness(format!("bad scenario: {e}")),
        };
        run(&s, st)
    }
    fn shrink(&self, scn: &Value, _v: &Viol) -> Vec<Value> {
        if scn.get("std").is_some() {
            return vec![];
        }
        let s: Scn = serde_json::from_value(scn.clone()).unwrap();
        let mut out = vec![];
        macro_rules! drop_last {
            ($f:ident) => {
                if !s.$f.is_empty() {
                    let mut c = s.clone();
                    c.$f.pop();
                    out.push(c);
                }
            };
        }
        drop_last!(params_epochs);
        drop_last!(pk_epochs);
        drop_last!(vk_epochs);
        drop_last!(regen);
        for b in c01::shrink_scn(&s.base) {
            out.push(Scn { base: b, ..s.clone() });
        }
        out.into_iter().map(|s| serde_json::to_value(s).unwrap()).collect()
    }
}

fn keygen_on_fresh_thread(spec: &Spec, sched: Sched) -> Result<(Vec<u8>, Vec<u8>, String), String> {
    let spec = spec.clone();
    std::thread::Builder::new()
        .stack_size(256 << 20)
        .spawn(move || {
            crate::core::runner::install_thread_state();
            sched.enter();
            match catch(|| pipeline::keygen(&spec)) {
                Ok(Ok((vk, _pk))) => Ok((
                    vk.to_bytes(SerdeFormat::RawBytes),
                    vk.to_bytes(SerdeFormat::Processed),
                    format!("{:?}", vk.transcript_repr()),
                )),
                Ok(Err(e)) => Err(format!("{e:?}")),
                Err(p) => Err(format!("panic at {}: {}", p.site(), p.msg)),
            }
        })
        .map_err(|e| e.to_string())?
        .join()
        .map_err(|_| "keygen thread died".to_string())?
}

fn run(s: &Scn, st: &mut Stats) -> Verdict {
    let b = &s.base;
    let spec = &b.spec;
    let mut nontrivial = false;
    b.sched_keygen.enter();
    let (vk, pk) = match catch(|| pipeline::keygen(spec)) {
        Ok(Ok(k)) => k,
        Ok(Err(e)) => return Verdict::Harness(format!("keygen failed on a generated circuit: {e:?}")),
        Err(p) => return Verdict::Harness(format!("keygen panicked at {}: {}", p.site(), p.msg)),
    };
    let vk_raw = vk.to_bytes(SerdeFormat::RawBytes);
    let vk_proc = vk.to_bytes(SerdeFormat::Processed);
    let repr = format!("{:?}", vk.transcript_repr());
    if b.sched_keygen.threads > 1 {
        st.probe("pool_gt_1");
        nontrivial = true;
    }

    // ---- determinism across schedules, repetitions and OS threads
    for (i, sc) in s.regen.iter().enumerate() {
        if sc.threads > 1 || sc.permute {
            nontrivial = true;
        }
        match keygen_on_fresh_thread(spec, *sc) {
            Ok((raw, proc_, r)) => {
                st.inc("keygen_repetitions");
                if raw != vk_raw || proc_ != vk_proc || r != repr {
                    return viol(
                        "NondeterministicKeygen",
                        "vk",
                        format!(
                            "verifying key of repetition {i} (pool {} permute {}) differs from the first (pool {}): raw_equal={} processed_equal={} transcript_repr_equal={}",
                            sc.threads, sc.permute, b.sched_keygen.threads, raw == vk_raw, proc_ == vk_proc, r == repr
                        ),
                    );
                }
            }
            Err(e) => return viol("NondeterministicKeygen", "keygen-failed", format!("repetition {i}: {e}")),
        }
    }

    // ---- vk epochs
    let mut cur_vk = vk.clone();
    for (i, e) in s.vk_epochs.iter().enumerate() {
        let bytes = match vk_write(&cur_vk, e, st) {
            Ok(b) => b,
            Err(err) => return viol("SerializationFailed", "vk-write", format!("epoch {i}: write failed under benign I/O faults: {err}")),
        };
        if !e.wplan.is_clean() {
            nontrivial = true;
        }
        if bytes != cur_vk.to_bytes(e.wfmt.to()) {
            return viol("SerializationChanged", "vk-write-bytes", format!("epoch {i}: bytes written through a short-writing writer differ from to_bytes ({:?})", e.wfmt));
        }
        if let Some(pm) = e.disk_full_permille {
            let fmt = e.wfmt.to();
            if let Some(v) = disk_full_check("vk", &bytes, pm, &e.wplan, st, |w| cur_vk.write(w, fmt)) {
                return v;
            }
        }
        if let Some(pm) = e.crash_permille {
            // crash mid-write: only a durable prefix survives the restart
            let keep = (bytes.len() as u64 * pm as u64 / 1000) as usize;
            if keep < bytes.len() {
                st.fault("crash_mid_write");
                nontrivial = true;
                match catch(|| vk_read(&bytes[..keep], spec, e.rfmt, &e.rplan, st)) {
                    Ok(Err(_)) => {}
                    Ok(Ok(_)) => return viol("TornWriteAccepted", "vk", format!("epoch {i}: a verifying key truncated to {keep}/{} bytes was read successfully", bytes.len())),
                    Err(p) => return viol("ReadPanic", "vk-truncated", format!("epoch {i}: reading a truncated vk panicked at {}: {}", p.site(), p.msg)),
                }
            }
        }
        let vk1 = match catch(|| vk_read(&bytes, spec, e.rfmt, &e.rplan, st)) {
            Ok(Ok(v)) => v,
            Ok(Err(err)) => return viol("RoundTripFailed", "vk-read", format!("epoch {i}: reading back a vk written with {:?} using {:?} under short reads/EINTR failed: {err}", e.wfmt, e.rfmt)),
            Err(p) => return viol("ReadPanic", "vk", format!("epoch {i}: vk read panicked at {}: {}", p.site(), p.msg)),
        };
        if !e.rplan.is_clean() {
            nontrivial = true;
        }
        if vk1.to_bytes(SerdeFormat::RawBytes) != vk_raw
            || vk1.to_bytes(SerdeFormat::Processed) != vk_proc
            || format!("{:?}", vk1.transcript_repr()) != repr
        {
            return viol("RoundTripChanged", "vk", format!("epoch {i}: vk written with {:?}, read with {:?}: re-serialisation or transcript identity differs", e.wfmt, e.rfmt));
        }
        cur_vk = vk1;
    }

    // ---- pk epochs
    let mut cur_pk: Option<Pk> = None;
    for (i, e) in s.pk_epochs.iter().enumerate() {
        let src = cur_pk.as_ref().unwrap_or(&pk);
        let mut w = FaultyWriter::new(&e.wplan);
        if let Err(err) = src.write(&mut w, e.wfmt.to()) {
            return viol("SerializationFailed", "pk-write", format!("epoch {i}: {err}"));
        }
        io_stats(st, "write", w.counts.short, w.counts.interrupted, w.counts.calls);
        let bytes = w.out;
        if bytes != src.to_bytes(e.wfmt.to()) {
            return viol("SerializationChanged", "pk-write-bytes", format!("epoch {i}: bytes written through a short-writing writer differ from to_bytes"));
        }
        if let Some(pm) = e.disk_full_permille {
            let fmt = e.wfmt.to();
            if let Some(v) = disk_full_check("pk", &bytes, pm, &e.wplan, st, |w| src.write(w, fmt)) {
                return v;
            }
        }
        if let Some(pm) = e.crash_permille {
            let keep = (bytes.len() as u64 * pm as u64 / 1000) as usize;
            if keep < bytes.len() {
                st.fault("crash_mid_write");
                match catch(|| pk_read(&bytes[..keep], spec, e.rfmt, &e.rplan, st)) {
                    Ok(Err(_)) => {}
                    Ok(Ok(_)) => return viol("TornWriteAccepted", "pk", format!("epoch {i}: a proving key truncated to {keep}/{} bytes was read successfully", bytes.len())),
                    Err(p) => {
                        // proving keys are local artefacts: a panic on a torn file is reported, not a violation of C17
                        st.inc(&format!("reported.pk_truncated_read_panic@{}", p.site_file()));
                    }
                }
            }
        }
        let pk1 = match catch(|| pk_read(&bytes, spec, e.rfmt, &e.rplan, st)) {
            Ok(Ok(v)) => v,
            Ok(Err(err)) => return viol("RoundTripFailed", "pk-read", format!("epoch {i}: reading back a pk written with {:?} using {:?} failed: {err}", e.wfmt, e.rfmt)),
            Err(p) => return viol("ReadPanic", "pk", format!("epoch {i}: pk read panicked at {}: {}", p.site(), p.msg)),
        };
        if pk1.to_bytes(e.wfmt.to()) != bytes {
            return viol("RoundTripChanged", "pk", format!("epoch {i}: re-serialised proving key differs (written {:?}, read {:?})", e.wfmt, e.rfmt));
        }
        cur_pk = Some(pk1);
    }

    // ---- proofs with {original, reloaded} pk x {original, reloaded} vk
    let pks: Vec<(&str, &Pk)> = match &cur_pk {
        Some(p1) => vec![("original", &pk), ("reloaded", p1)],
        None => vec![("original", &pk)],
    };
    let vks: Vec<(&str, &Vk)> = vec![("original", &vk), ("reloaded", &cur_vk)];
    for (pn, p) in &pks {
        b.sched_prove.enter();
        let rng = Prng::new(b.blinding_seed, "blinding").chacha("prove");
        let proof = match catch(|| pipeline::prove(p, spec, &b.witnesses, b.nb_committed, b.hash, rng)) {
            Ok((Ok(pr), log)) => {
                st.events += log.len() as u64;
                pr
            }
            Ok((Err(e), _)) => {
                if *pn == "original" {
                    return Verdict::Harness(format!("honest prover failed: {e:?} (C01's subject)"));
                }
                return viol("ReloadedKeyUnusable", "prove", format!("prover with the reloaded pk failed: {e:?}"));
            }
            Err(pa) => {
                if *pn == "original" {
                    return Verdict::Harness(format!("honest prover panicked at {} (C01's subject)", pa.site()));
                }
                return viol("ReloadedKeyUnusable", "prove-panic", format!("prover with the reloaded pk panicked at {}: {}", pa.site(), pa.msg));
            }
        };
        for (vn, v) in &vks {
            let stmts: Vec<_> = b.witnesses.iter().map(|w| pipeline::statement(v, spec.k, w, b.nb_committed)).collect();
            b.sched_verify.enter();
            match catch(|| pipeline::verify(spec.k, v, &stmts, &proof, b.hash)) {
                Ok((Ok(()), log)) => st.events += log.len() as u64,
                Ok((Err(e), _)) => {
                    if *pn == "original" && *vn == "original" {
                        return Verdict::Harness(format!("honest proof rejected: {e:?} (C01's subject)"));
                    }
                    return viol("ReloadedKeyUnusable", "verify", format!("proof made with the {pn} pk rejected by the {vn} vk: {e:?}"));
                }
                Err(pa) => return viol("ReloadedKeyUnusable", "verify-panic", format!("verifying ({pn} pk, {vn} vk) panicked at {}: {}", pa.site(), pa.msg)),
            }
        }
    }
    if pks.len() == 2 {
        st.probe("four_way_proof_check");
    }

    // ---- params: serialisation epochs, downsize, re-derivation
    let params = fixtures::srs(spec.k);
    for (i, e) in s.params_epochs.iter().enumerate() {
        let mut w = FaultyWriter::new(&e.wplan);
        if let Err(err) = params.write_custom(&mut w, e.wfmt.to()) {
            return viol("SerializationFailed", "params-write", format!("epoch {i}: {err}"));
        }
        io_stats(st, "write", w.counts.short, w.counts.interrupted, w.counts.calls);
        let bytes = w.out;
        if let Some(pm) = e.disk_full_permille {
            let fmt = e.wfmt.to();
            if let Some(v) = disk_full_check("params", &bytes, pm, &e.wplan, st, |w| params.write_custom(w, fmt)) {
                return v;
            }
        }
        let mut r = FaultyReader::new(&bytes, &e.rplan);
        let p1 = match catch(|| ParamsKZG::<Bls12>::read_custom(&mut r, e.rfmt.to())) {
            Ok(Ok(p)) => p,
            Ok(Err(err)) => return viol("RoundTripFailed", "params-read", format!("epoch {i}: {err} (written {:?}, read {:?})", e.wfmt, e.rfmt)),
            Err(pa) => return viol("ReadPanic", "params", format!("epoch {i}: params read panicked at {}: {}", pa.site(), pa.msg)),
        };
        io_stats(st, "read", r.counts.short, r.counts.interrupted, r.counts.calls);
        let mut again = vec![];
        p1.write_custom(&mut again, e.wfmt.to()).unwrap();
        if again != bytes {
            return viol("RoundTripChanged", "params", format!("epoch {i}: re-serialised parameters differ (written {:?}, read {:?})", e.wfmt, e.rfmt));
        }
        st.probe("params_round_trip");
    }
    if s.downsize_to < spec.k {
        s.setup_sched.enter();
        let mut small = (*params).clone();
        if let Err(p) = catch(|| small.downsize(s.downsize_to)) {
            return viol("DownsizeFailed", "panic", format!("downsize({}) of k={} params panicked at {}: {}", s.downsize_to, spec.k, p.site(), p.msg));
        }
        let mut a = vec![];
        small.write_custom(&mut a, SerdeFormat::RawBytes).unwrap();
        let mut bb = vec![];
        fixtures::srs(s.downsize_to).write_custom(&mut bb, SerdeFormat::RawBytes).unwrap();
        if a != bb {
            return viol("DownsizeMismatch", "params", format!("parameters of k={} downsized to {} differ from parameters derived for {} from the same secret", spec.k, s.downsize_to, s.downsize_to));
        }
        st.probe("downsize");
    }
    {
        // unsafe_setup under another schedule must give the fixture's parameters
        let k = s.downsize_to.min(6);
        s.setup_sched.enter();
        let p2 = ParamsKZG::<Bls12>::unsafe_setup(k, ChaCha20Rng::from_seed([7u8; 32]));
        let mut a = vec![];
        p2.write_custom(&mut a, SerdeFormat::RawBytes).unwrap();
        let mut bb = vec![];
        fixtures::srs(k).write_custom(&mut bb, SerdeFormat::RawBytes).unwrap();
        if a != bb {
            return viol("NondeterministicSetup", "params", format!("unsafe_setup(k={k}) under pool {} differs from the sequential run with the same secret", s.setup_sched.threads));
        }
    }
    if nontrivial {
        st.nontrivial(prng::digest(serde_json::to_string(s).unwrap().as_bytes()));
    }
    if st.samples.is_empty() {
        st.sample(0, json!({"circuit": c01::sample(b), "regen": s.regen.iter().map(|r| r.threads).collect::<Vec<_>>(),
            "vk_epochs": s.vk_epochs, "pk_epochs": s.pk_epochs.len(), "downsize_to": s.downsize_to}));
    }
    Verdict::Pass
}
