//! C07 - hash gadgets equal their reference functions on every message.
use serde_json::Value;

use super::opcheck::{self, Scn};
use crate::{
    core::{
        prng::Prng,
        runner::{Check, Meta, Tier, Verdict, Viol},
        stats::Stats,
    },
    ops, ops_hash,
};

pub struct C07;

fn op_list() -> Vec<String> {
    // Poseidon is cheap: three times as often
    let mut v = ops_hash::hash_ops();
    v.push("h.poseidon".into());
    v.push("h.poseidon".into());
    // sponge sequences (absorb / squeeze interleavings, empty absorbs) in a circuit built on PoseidonChip
    v.push("sp.poseidon".into());
    v.push("sp.poseidon".into());
    // variable-length SHA-256 over a vector of capacity 128 (honest executions only)
    v.push("vh.sha256".into());
    // RIPEMD-160 in a circuit built on RipeMD160Chip (not reachable through ZkStdLib)
    v.push("hr.ripemd160".into());
    // variable-length Poseidon over a vector of capacity 8 (default and chosen filler)
    v.push("vp.poseidon".into());
    crate::ops::dev_filter(v)
}

impl Check for C07 {
    fn id(&self) -> &'static str {
        "C07"
    }
    fn meta(&self) -> Meta {
        Meta {
            level: "exploration",
            rule: "one run = one message hashed in circuit (SHA-256, SHA-512, SHA3-256, Keccak-256, BLAKE2b-256/512 through the standard library, messages of 0..2 blocks with every length around the padding boundaries 55/56/63/64, 111/112/119/120/127/128, 135/136/137 and all-zero / all-0xff / random contents; fixed-length Poseidon on 0..12 field elements incl. boundary values; Poseidon sponge sequences of absorbs (incl. empty ones) and squeezes in fixed- and variable-length mode on PoseidonChip; RIPEMD-160 on RipeMD160Chip, 0..120 bytes around 55/56/63/64/119/120; variable-length SHA-256 over a vector of capacity 128 with every length class and a default or chosen filler byte, whose unused cells the Byzantine stage overwrites; variable-length Poseidon over a vector of capacity 8 with the default or a chosen filler element), executed honestly and under Byzantine plans (single and multi-cell faults sampled over the whole trace, honest continuation, local repair of failing gate rows incl. additive-selector constraints). The published input bytes and digest must satisfy the reference function (sha2, sha3, ripemd, blake2b_simd crates; for Poseidon the library's off-circuit hash AND an independent textbook permutation over the repository's constants). distinct_nontrivial counts distinct honest cases plus (case, plan) digests whose plan fired",
            assumptions: vec![
                "MockProver is the constraint model, including additive-selector constraints since the C02 repair",
                "RIPEMD-160, Poseidon sponge sequences and variable-length SHA-256 are not reachable through ZkStdLib: they run in circuits built on the chips' FromScratch configurations; for variable-length SHA-256 and Poseidon the Byzantine stage edits only the unused cells of the buffer (the input vector is crate-private and cannot be published)",
                "fault sites are sampled (these chips make 10^3..10^5 assignments)",
            ],
            components: vec![
                ("Sha256Chip, Sha512Chip, PoseidonChip, keccak/sha3 and blake2b third-party chips, ZkStdLib wiring", "real"),
                ("witness generation", "real, perturbed by hook H1"),
                ("constraint satisfaction", "MockProver"),
                ("reference semantics", "sha2 / sha3 / blake2b_simd crates; harness textbook Poseidon over the repository's constants"),
            ],
            expected_probes: vec!["byzantine_cell", "byzantine_repair"],
        }
    }
    fn runs(&self, tier: Tier) -> u64 {
        match tier {
            Tier::Quick => 270,
            Tier::Thorough => 1500,
        }
    }
    fn generate(&self, rng: &mut Prng, tier: Tier, idx: u64) -> Value {
        let all = op_list();
        let op = &all[(idx as usize) % all.len()];
        let case = ops::gen_case(rng, op);
        let n_plans = match tier {
            Tier::Quick => 3,
            Tier::Thorough => {
                if idx % 16 == 0 {
                    0
                } else {
                    16
                }
            }
        };
        // the variable-length gadget's input vector cannot be published from outside the crate:
        // no Byzantine stage for it (there would be nothing to judge an accepted execution by)
        let honest_only = op.starts_with("vh.") || op.starts_with("vp.");
        opcheck::to_json(&Scn { case, fault_seed: rng.u64(), n_plans, only: honest_only.then(Vec::new), only_late: honest_only.then(Vec::new) })
    }
    fn execute(&self, scn: &Value, st: &mut Stats) -> Verdict {
        let s: Scn = match serde_json::from_value(scn.clone()) {
            Ok(s) => s,
            Err(e) => return Verdict::Harness(format!("bad scenario: {e}")),
        };
        opcheck::run(&s, st, true)
    }
    fn shrink(&self, scn: &Value, viol: &Viol) -> Vec<Value> {
        let s: Scn = serde_json::from_value(scn.clone()).unwrap();
        opcheck::shrink(&s, viol).iter().map(opcheck::to_json).collect()
    }
}
