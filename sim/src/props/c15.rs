//! C15 - batching and accumulation accept exactly the all-valid batches.
//! A batch verifier receiving 0..6 deliveries, each honest or faulted; the
//! reference is the single verifier applied to every member.
use std::collections::BTreeMap;

use ff::Field;
use group::Group;
use midnight_circuits::verifier::{self, Accumulator, BlstrsEmulation};
use midnight_curves::{Bls12, Fq, G1Projective};
use midnight_proofs::{
    plonk::prepare,
    poly::{
        commitment::Guard,
        kzg::{msm::DualMSM, params::ParamsVerifierKZG, KZGCommitmentScheme},
    },
    transcript::{CircuitTranscript, Transcript},
};
use midnight_zk_stdlib::MidnightVK;
use serde::{Deserialize, Serialize};
use serde_json::{json, Value};

use crate::{
    core::{
        prng::{self, Prng},
        runner::{catch, Check, Meta, Tier, Verdict, Viol},
        stats::Stats,
    },
    fixtures,
    pipeline::Sched,
    stdfix::{self, StdFixture},
    util::{uniform_fq, Fe},
};

pub struct C15;
type S = BlstrsEmulation;
type H = blake2b_simd::State;

#[derive(Clone, Debug, Serialize, Deserialize, PartialEq)]
pub enum MFault {
    None,
    /// one bit of the proof flipped
    ProofBit { bit: usize },
    /// a public input changed
    WrongPi { pos: usize, add: Fe },
    /// verified under the other relation's key
    WrongVk,
    PiExtra,
    PiMissing,
    /// bytes appended to the proof (only delivered to entries that receive proof bytes)
    ProofTrailing { n: usize, byte: u8 },
}

#[derive(Clone, Debug, Serialize, Deserialize, PartialEq)]
pub struct Member {
    /// 0: Poseidon relation, 1: arithmetic relation
    pub rel: usize,
    /// which honest proof of that relation's pool
    pub proof: usize,
    pub fault: MFault,
}

#[derive(Clone, Copy, Debug, Serialize, Deserialize, PartialEq, Eq)]
pub enum Entry {
    /// zk_stdlib::batch_verify
    Stdlib,
    /// Guard::batch_verify over prepared guards
    Guards,
    /// DualMSM::{scale, add_msm, check}
    DualMsm,
    /// off-circuit Accumulator::{from_dual_msm, accumulate, collapse, check}
    Accumulator,
}

#[derive(Clone, Debug, Serialize, Deserialize, PartialEq)]
pub struct Scn {
    pub members: Vec<Member>,
    pub entry: Entry,
    /// length-mismatched slices: drop the last public-input vector / key / params
    pub mismatch: bool,
    pub r_seed: u64,
    pub sched: Sched,
    /// the adaptive adversary against the batching challenge (see `run_joint`)
    #[serde(default)]
    pub joint: Option<Joint>,
}

/// Two copies of one honest proof whose final opening elements are shifted by D and by
/// -c D, where c is the batching coefficient the adversary predicts from everything but the
/// last member. Each copy is invalid alone; the pair cancels in the batched check exactly
/// when the coefficient does not depend on the last member.
#[derive(Clone, Debug, Serialize, Deserialize, PartialEq)]
pub struct Joint {
    pub rel: usize,
    pub proof: usize,
    pub d: Fe,
    /// an honest proof of the other relation placed before the pair
    pub prefix: bool,
}

fn fixtures_of(rel: usize) -> std::sync::Arc<StdFixture> {
    if rel == 0 {
        stdfix::poseidon()
    } else {
        stdfix::arith()
    }
}

struct Built {
    vk: MidnightVK,
    pi: Vec<Fq>,
    proof: Vec<u8>,
}

fn build_member(m: &Member) -> Built {
    let f = fixtures_of(m.rel);
    let d = &f.pool[m.proof % f.pool.len()];
    let mut b = Built { vk: f.vk.clone(), pi: d.pi.clone(), proof: d.proof.clone() };
    match &m.fault {
        MFault::None => {}
        MFault::ProofBit { bit } => {
            let n = b.proof.len() * 8;
            let bit = bit % n;
            b.proof[bit / 8] ^= 1 << (bit % 8);
        }
        MFault::WrongPi { pos, add } => {
            let n = b.pi.len();
            b.pi[pos % n] += add.0;
        }
        MFault::WrongVk => b.vk = fixtures_of(1 - m.rel).vk.clone(),
        MFault::PiExtra => b.pi.push(Fq::ZERO),
        MFault::PiMissing => {
            b.pi.pop();
        }
        MFault::ProofTrailing { n, byte } => b.proof.extend(std::iter::repeat(*byte).take(*n)),
    }
    b
}

/// The single verifier (reference): prepare, assert_empty, pairing check.
/// Returns the guard when preparation succeeded.
fn single(b: &Built, vp: &ParamsVerifierKZG<Bls12>) -> (bool, Option<DualMSM<Bls12>>) {
    let mut t = CircuitTranscript::<H>::init_from_bytes(&b.proof);
    let g = prepare::<Fq, KZGCommitmentScheme<Bls12>, _>(
        b.vk.vk(),
        &[&[G1Projective::identity()]],
        &[&[&b.pi]],
        &mut t,
    );
    match g {
        Err(_) => (false, None),
        Ok(g) => {
            if t.assert_empty().is_err() {
                return (false, None);
            }
            (g.clone().verify(vp).is_ok(), Some(g))
        }
    }
}

fn fault_kind(f: &MFault) -> &'static str {
    match f {
        MFault::None => "none",
        MFault::ProofBit { .. } => "member-proof-corrupted",
        MFault::WrongPi { .. } => "member-wrong-public-input",
        MFault::WrongVk => "member-wrong-vk",
        MFault::PiExtra => "member-extra-public-input",
        MFault::PiMissing => "member-missing-public-input",
        MFault::ProofTrailing { .. } => "member-proof-trailing-bytes",
    }
}

impl Check for C15 {
    fn id(&self) -> &'static str {
        "C15"
    }
    fn meta(&self) -> Meta {
        Meta {
            level: "exploration",
            rule: "one run = one batch of 0..6 deliveries over two standard-library relations (Poseidon, arithmetic; different k), each delivery an honest proof from a pool or one faulted by a proof bit flip, a wrong public input, a wrong key, an extra or a missing public input, bytes appended to the proof (batch_verify only), in a drawn order with repetitions, delivered to one of: zk_stdlib::batch_verify, Guard::batch_verify, DualMSM scale/add_msm/check with drawn scalars, off-circuit Accumulator from_dual_msm/accumulate/collapse/check with the union of both keys' fixed-base maps; also empty and length-mismatched batches. Every 10th run is the adaptive adversary against the batching challenge: two copies of one honest proof with the final opening element moved by D and by -c D, c predicted from the members before the last, must be refused. Oracle: the batch verdict equals the conjunction of the single verifier's verdicts on the members; empty / mismatched batches return a value. distinct_nontrivial counts distinct (entry, member list) digests containing at least one fault or a repetition",
            assumptions: vec![
                "a random linear combination hiding an invalid member has probability <= 2^-120 and is ignored",
                "Accumulator::accumulate is exercised on >= 1 accumulators (its empty case is not part of the batch-verification contract)",
            ],
            components: vec![
                ("zk_stdlib::batch_verify / prepare / DualMSM / Guard / Accumulator", "real"),
                ("single verifier used as reference", "real (C01-C03's subject)"),
                ("rayon", "simulated: deterministic PRNG scheduler"),
                ("proof pool", "honest proofs made once per process by the real prover"),
            ],
            expected_probes: vec![
                "member-proof-corrupted",
                "member-wrong-public-input",
                "member-wrong-vk",
                "member-extra-public-input",
                "member-missing-public-input",
                "empty_batch",
                "length_mismatch",
                "all_valid_batch_accepted",
                "invalid_batch_rejected",
                "repeated_member",
                "mixed_relations",
                "accumulator_collapse",
            ],
        }
    }
    fn runs(&self, tier: Tier) -> u64 {
        match tier {
            Tier::Quick => 2500,
            Tier::Thorough => 60000,
        }
    }
    fn generate(&self, rng: &mut Prng, tier: Tier, idx: u64) -> Value {
        let n = if idx < 8 { 0 } else { *rng.pick(&[0usize, 1, 1, 2, 2, 3, 3, 4, 5, 6]) };
        let all_valid = rng.chance(2, 5);
        let bad = if n > 0 { rng.usize(n) } else { 0 };
        let mut members: Vec<Member> = (0..n)
            .map(|i| {
                let fault = if !all_valid && (i == bad || rng.chance(1, 6)) {
                    match rng.below(7) {
                        6 => MFault::ProofTrailing { n: *rng.pick(&[1usize, 32, 48]), byte: *rng.pick(&[0u8, 0xff]) },
                        0 | 1 => MFault::WrongPi { pos: rng.usize(4), add: Fe(Fq::from(1 + rng.below(9))) },
                        2 => MFault::ProofBit { bit: rng.usize(1 << 16) },
                        3 => MFault::WrongVk,
                        4 => MFault::PiExtra,
                        _ => MFault::PiMissing,
                    }
                } else {
                    MFault::None
                };
                Member { rel: rng.usize(2), proof: rng.usize(4), fault }
            })
            .collect();
        if n >= 2 && rng.chance(1, 4) {
            // repeated member
            let j = rng.usize(n);
            let k = rng.usize(n);
            members[k] = members[j].clone();
        }
        rng.shuffle(&mut members);
        if idx % 10 == 9 {
            let scn = Scn {
                members: vec![],
                entry: Entry::Stdlib,
                mismatch: false,
                r_seed: rng.u64(),
                sched: Sched::draw(rng, tier == Tier::Thorough),
                joint: Some(Joint { rel: rng.usize(2), proof: rng.usize(4), d: Fe(uniform_fq(rng)), prefix: rng.chance(1, 2) }),
            };
            return serde_json::to_value(scn).unwrap();
        }
        let entry = *rng.pick(&[Entry::Stdlib, Entry::Stdlib, Entry::Guards, Entry::DualMsm, Entry::Accumulator]);
        if entry != Entry::Stdlib {
            // the other entries receive prepared guards, not proof bytes
            for m in members.iter_mut() {
                if matches!(m.fault, MFault::ProofTrailing { .. }) {
                    m.fault = MFault::None;
                }
            }
        }
        let scn = Scn {
            members,
            entry,
            mismatch: rng.chance(1, 10),
            r_seed: rng.u64(),
            sched: Sched::draw(rng, tier == Tier::Thorough),
            joint: None,
        };
        serde_json::to_value(scn).unwrap()
    }
    fn execute(&self, scn: &Value, st: &mut Stats) -> Verdict {
        let s: Scn = match serde_json::from_value(scn.clone()) {
            Ok(s) => s,
            Err(e) => return Verdict::Harness(format!("bad scenario: {e}")),
        };
        run(&s, st)
    }
    fn shrink(&self, scn: &Value, _v: &Viol) -> Vec<Value> {
        let s: Scn = serde_json::from_value(scn.clone()).unwrap();
        let mut out = vec![];
        for i in 0..s.members.len() {
            let mut c = s.clone();
            c.members.remove(i);
            out.push(c);
        }
        if s.sched != Sched::seq() {
            out.push(Scn { sched: Sched::seq(), ..s.clone() });
        }
        out.into_iter().map(|s| serde_json::to_value(s).unwrap()).collect()
    }
}

/// The proof with its last element (the final opening element, a compressed G1 point)
/// moved by `by` times the generator; None when the tail does not decode.
fn shift_last_point(proof: &[u8], by: Fq) -> Option<Vec<u8>> {
    use group::{Curve, GroupEncoding};
    let n = proof.len();
    if n < 48 {
        return None;
    }
    let mut repr = <midnight_curves::G1Affine as GroupEncoding>::Repr::default();
    repr.as_mut().copy_from_slice(&proof[n - 48..]);
    let p: midnight_curves::G1Affine = Option::from(midnight_curves::G1Affine::from_bytes(&repr))?;
    let q = (G1Projective::from(p) + G1Projective::generator() * by).to_affine();
    let mut out = proof[..n - 48].to_vec();
    out.extend_from_slice(q.to_bytes().as_ref());
    Some(out)
}

/// What batch_verify absorbs for one member: the challenge squeezed from the member's
/// transcript after the whole proof has been read.
fn summary_of(b: &Built) -> Option<Fq> {
    let mut t = CircuitTranscript::<H>::init_from_bytes(&b.proof);
    prepare::<Fq, KZGCommitmentScheme<Bls12>, _>(b.vk.vk(), &[&[G1Projective::identity()]], &[&[&b.pi]], &mut t).ok()?;
    Some(t.squeeze_challenge())
}

fn run_joint(j: &Joint, s: &Scn, st: &mut Stats) -> Verdict {
    let vp = fixtures::srs(1).verifier_params();
    let honest = rayon::sim::isolated(1, || build_member(&Member { rel: j.rel, proof: j.proof, fault: MFault::None }));
    let Some(p0) = shift_last_point(&honest.proof, j.d.0) else {
        st.inc("joint.tail_not_a_point");
        return Verdict::Pass;
    };
    let first = Built { vk: honest.vk.clone(), pi: honest.pi.clone(), proof: p0 };
    let mut batch: Vec<Built> = vec![];
    if j.prefix {
        batch.push(rayon::sim::isolated(1, || build_member(&Member { rel: 1 - j.rel, proof: j.proof, fault: MFault::None })));
    }
    batch.push(first);
    // the coefficient as an implementation would compute it that does not wait for the last member
    let c = rayon::sim::isolated(1, || -> Option<Fq> {
        let mut rt = CircuitTranscript::<H>::init();
        for b in &batch {
            rt.common(&summary_of(b)?).ok()?;
        }
        Some(rt.squeeze_challenge())
    });
    let Some(c) = c else {
        st.inc("joint.prepare_failed");
        return Verdict::Pass;
    };
    let Some(p1) = shift_last_point(&honest.proof, -(c * j.d.0)) else { return Verdict::Pass };
    batch.push(Built { vk: honest.vk.clone(), pi: honest.pi.clone(), proof: p1 });
    st.fault("joint-compensating-pair");
    st.nontrivial(prng::digest(serde_json::to_string(j).unwrap().as_bytes()));
    let n = batch.len();
    let alone: Vec<bool> = rayon::sim::isolated(1, || batch.iter().map(|b| single(b, &vp).0).collect());
    if alone[n - 1] || alone[n - 2] {
        return Verdict::Harness("a proof with a shifted opening element verifies on its own".into());
    }
    s.sched.enter();
    let vks: Vec<MidnightVK> = batch.iter().map(|b| b.vk.clone()).collect();
    let pis: Vec<Vec<Fq>> = batch.iter().map(|b| b.pi.clone()).collect();
    let proofs: Vec<Vec<u8>> = batch.iter().map(|b| b.proof.clone()).collect();
    st.events += n as u64;
    match catch(|| midnight_zk_stdlib::batch_verify::<H>(&vp, &vks, &pis, &proofs)) {
        Ok(Err(_)) => {
            st.probe("joint_pair_rejected");
            Verdict::Pass
        }
        Ok(Ok(())) => Verdict::Violation(Viol::new(
            "ForgedBatchAccepted",
            "ForgedBatchAccepted:batch_verify",
            format!("batch_verify accepted {n} members of which the last two are copies of one honest proof with the final opening element moved by D and by -c D (c predicted from the members before the last; prefix {}): each of the two is rejected alone", j.prefix),
        )),
        Err(p) => Verdict::Violation(Viol::new("BatchCrash", format!("BatchCrash:batch_verify@{}", p.site_file()), format!("batch_verify panicked at {} on the compensating pair: {}", p.site(), p.msg))),
    }
}

fn run(s: &Scn, st: &mut Stats) -> Verdict {
    if let Some(j) = &s.joint {
        return run_joint(j, s, st);
    }
    let vp = fixtures::srs(1).verifier_params();
    let built: Vec<Built> = rayon::sim::isolated(1, || s.members.iter().map(build_member).collect());
    let n = built.len();
    if n == 0 {
        st.probe("empty_batch");
    }
    for m in &s.members {
        if m.fault != MFault::None {
            st.fault(fault_kind(&m.fault));
        }
    }
    if s.members.iter().any(|m| m.rel == 0) && s.members.iter().any(|m| m.rel == 1) {
        st.probe("mixed_relations");
    }
    let repeated = (0..n).any(|i| (0..i).any(|j| s.members[i] == s.members[j]));
    if repeated {
        st.probe("repeated_member");
    }
    // reference verdicts
    let singles: Vec<(bool, Option<DualMSM<Bls12>>)> =
        rayon::sim::isolated(1, || built.iter().map(|b| single(b, &vp)).collect());
    let all_valid = singles.iter().all(|x| x.0);
    for (m, (ok, _)) in s.members.iter().zip(&singles) {
        if m.fault == MFault::None && !ok {
            return Verdict::Harness("an honest pool proof does not verify on its own (C01's subject)".into());
        }
    }
    st.events += n as u64;
    if s.members.iter().any(|m| m.fault != MFault::None) || repeated {
        st.nontrivial(prng::digest(serde_json::to_string(&(&s.entry, &s.members, s.mismatch)).unwrap().as_bytes()));
    }
    let describe = || {
        format!(
            "entry {:?}, members {:?}, individually valid {:?}",
            s.entry,
            s.members.iter().map(|m| (m.rel, fault_kind(&m.fault))).collect::<Vec<_>>(),
            singles.iter().map(|x| x.0).collect::<Vec<_>>()
        )
    };
    s.sched.enter();
    let verdict: Result<bool, String> = match s.entry {
        Entry::Stdlib => {
            let vks: Vec<MidnightVK> = built.iter().map(|b| b.vk.clone()).collect();
            let mut pis: Vec<Vec<Fq>> = built.iter().map(|b| b.pi.clone()).collect();
            let proofs: Vec<Vec<u8>> = built.iter().map(|b| b.proof.clone()).collect();
            let mismatch = s.mismatch && n > 0;
            if mismatch {
                pis.pop();
                st.probe("length_mismatch");
            }
            match catch(|| midnight_zk_stdlib::batch_verify::<H>(&vp, &vks, &pis, &proofs)) {
                Err(p) => {
                    return Verdict::Violation(Viol::new(
                        "BatchCrash",
                        format!("BatchCrash:batch_verify@{}", p.site_file()),
                        format!("batch_verify panicked at {} ({}): {}", p.site(), describe(), p.msg),
                    ))
                }
                Ok(r) => {
                    if mismatch {
                        if r.is_ok() {
                            return Verdict::Violation(Viol::new("MismatchAccepted", "MismatchAccepted:batch_verify", format!("batch_verify accepted slices of different lengths ({})", describe())));
                        }
                        return Verdict::Pass;
                    }
                    if n == 0 {
                        // any value is fine for the empty batch
                        return Verdict::Pass;
                    }
                    Ok(r.is_ok())
                }
            }
        }
        Entry::Guards => {
            // only members whose preparation succeeded yield guards
            let guards: Vec<DualMSM<Bls12>> = singles.iter().filter_map(|x| x.1.clone()).collect();
            let expect = singles.iter().filter(|x| x.1.is_some()).all(|x| x.0);
            let mut params: Vec<&ParamsVerifierKZG<Bls12>> = guards.iter().map(|_| &vp).collect();
            let mismatch = s.mismatch && !guards.is_empty();
            if mismatch {
                params.pop();
                st.probe("length_mismatch");
            }
            let ng = guards.len();
            match catch(|| <DualMSM<Bls12> as Guard<Fq, KZGCommitmentScheme<Bls12>>>::batch_verify(guards.into_iter(), params.into_iter())) {
                Err(p) => {
                    return Verdict::Violation(Viol::new(
                        "BatchCrash",
                        format!("BatchCrash:Guard::batch_verify@{}", p.site_file()),
                        format!("Guard::batch_verify panicked at {} on {ng} guards (mismatched lengths: {mismatch}): {}", p.site(), p.msg),
                    ))
                }
                Ok(r) => {
                    if mismatch {
                        if r.is_ok() && !expect {
                            return Verdict::Violation(Viol::new("WrongBatchVerdict", "WrongBatchVerdict:Guard::batch_verify", format!("mismatched Guard::batch_verify accepted an invalid guard ({})", describe())));
                        }
                        return Verdict::Pass;
                    }
                    if ng == 0 {
                        return Verdict::Pass;
                    }
                    if r.is_ok() != expect {
                        return Verdict::Violation(Viol::new("WrongBatchVerdict", "WrongBatchVerdict:Guard::batch_verify", format!("Guard::batch_verify returned {:?}, expected accept={expect} ({})", r.is_ok(), describe())));
                    }
                    st.probe(if expect { "all_valid_batch_accepted" } else { "invalid_batch_rejected" });
                    return Verdict::Pass;
                }
            }
        }
        Entry::DualMsm => {
            let guards: Vec<(bool, DualMSM<Bls12>)> =
                singles.iter().filter_map(|x| x.1.clone().map(|g| (x.0, g))).collect();
            if guards.is_empty() {
                return Verdict::Pass;
            }
            let expect = guards.iter().all(|g| g.0);
            let mut rng = Prng::new(s.r_seed, "r");
            let r = catch(|| {
                let mut acc = guards[0].1.clone();
                for (_, g) in guards.iter().skip(1) {
                    let mut sc = uniform_fq(&mut rng);
                    if sc == Fq::ZERO {
                        sc = Fq::ONE;
                    }
                    acc.scale(sc);
                    acc.add_msm(g.clone());
                }
                acc.check(&vp)
            });
            match r {
                Err(p) => {
                    return Verdict::Violation(Viol::new("BatchCrash", format!("BatchCrash:DualMSM@{}", p.site_file()), format!("DualMSM scale/add_msm/check panicked at {}: {}", p.site(), p.msg)))
                }
                Ok(ok) => {
                    if ok != expect {
                        return Verdict::Violation(Viol::new("WrongBatchVerdict", "WrongBatchVerdict:DualMSM", format!("scaled sum of {} guards checks to {ok}, expected {expect} ({})", guards.len(), describe())));
                    }
                    st.probe(if expect { "all_valid_batch_accepted" } else { "invalid_batch_rejected" });
                    return Verdict::Pass;
                }
            }
        }
        Entry::Accumulator => {
            // fixed-base maps of both keys under distinct prefixes
            let pos = stdfix::poseidon();
            let ar = stdfix::arith();
            let mut fixed: BTreeMap<String, G1Projective> = verifier::fixed_bases::<S>("vk0", pos.vk.vk());
            fixed.extend(verifier::fixed_bases::<S>("vk1", ar.vk.vk()));
            let s_g2 = fixtures::srs(1).s_g2().into();
            // members verified under their own key only (from_dual_msm asserts the bases of the named key)
            let items: Vec<(bool, DualMSM<Bls12>, &'static str)> = s
                .members
                .iter()
                .zip(&singles)
                .filter(|(m, _)| m.fault != MFault::WrongVk)
                .filter_map(|(m, x)| x.1.clone().map(|g| (x.0, g, if m.rel == 0 { "vk0" } else { "vk1" })))
                .collect();
            if items.is_empty() {
                return Verdict::Pass;
            }
            let expect = items.iter().all(|i| i.0);
            let r = catch(|| {
                let accs: Vec<Accumulator<S>> =
                    items.iter().map(|(_, g, pre)| Accumulator::<S>::from_dual_msm(g.clone(), pre, &fixed)).collect();
                let each: Vec<bool> = accs.iter().map(|a| a.check(&s_g2, &fixed)).collect();
                let mut acc = Accumulator::<S>::accumulate(&accs);
                let before = acc.check(&s_g2, &fixed);
                acc.collapse();
                let after = acc.check(&s_g2, &fixed);
                (each, before, after)
            });
            match r {
                Err(p) => {
                    return Verdict::Violation(Viol::new("BatchCrash", format!("BatchCrash:Accumulator@{}", p.site_file()), format!("Accumulator from_dual_msm/accumulate/collapse/check panicked at {}: {}", p.site(), p.msg)))
                }
                Ok((each, before, after)) => {
                    st.probe("accumulator_collapse");
                    for (i, (e, it)) in each.iter().zip(&items).enumerate() {
                        if *e != it.0 {
                            return Verdict::Violation(Viol::new("WrongBatchVerdict", "WrongBatchVerdict:Accumulator::from_dual_msm", format!("accumulator {i} built from a guard that verifies to {} checks to {e}", it.0)));
                        }
                    }
                    if before != expect || after != expect {
                        return Verdict::Violation(Viol::new("WrongBatchVerdict", "WrongBatchVerdict:Accumulator::accumulate", format!("accumulate of {} accumulators checks to {before} (after collapse {after}), expected {expect} ({})", items.len(), describe())));
                    }
                    st.probe(if expect { "all_valid_batch_accepted" } else { "invalid_batch_rejected" });
                    return Verdict::Pass;
                }
            }
        }
    };
    match verdict {
        Ok(ok) => {
            if ok != all_valid {
                return Verdict::Violation(Viol::new(
                    "WrongBatchVerdict",
                    format!("WrongBatchVerdict:{:?}", s.entry),
                    format!("batch verdict {ok}, conjunction of single verdicts {all_valid} ({})", describe()),
                ));
            }
            st.probe(if all_valid { "all_valid_batch_accepted" } else { "invalid_batch_rejected" });
            if st.samples.is_empty() {
                st.sample(0, json!({"entry": format!("{:?}", s.entry), "members": s.members}));
            }
            Verdict::Pass
        }
        Err(e) => Verdict::Harness(e),
    }
}
