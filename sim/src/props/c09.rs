//! C09 - circuit structure never depends on witness or instance values.
//! An invariant monitor over the operation registry: the structure recorded
//! with unknown witnesses must equal the structure recorded with every
//! concrete (boundary-class and Byzantine) witness; for a sample, the key
//! generated without a witness by the real key generator must verify a real
//! proof made from the witness.
use midnight_proofs::circuit::Value as CValue;
use midnight_zk_stdlib::MidnightCircuit;
use serde::{Deserialize, Serialize};
use serde_json::Value;

use super::opcheck;
use crate::{
    core::{
        prng::Prng,
        runner::{catch, Check, Meta, Tier, Verdict, Viol},
        stats::Stats,
    },
    fixtures,
    opcirc::{run_mock, MockVerdict},
    ops::{self, OpRel},
};

pub struct C09;

#[derive(Clone, Debug, Serialize, Deserialize, PartialEq)]
pub struct Scn {
    pub inner: opcheck::Scn,
    /// also run the real key generator (without witness), prover and verifier
    pub real: bool,
}

impl Check for C09 {
    fn id(&self) -> &'static str {
        "C09"
    }
    fn meta(&self) -> Meta {
        Meta {
            level: "exploration",
            rule: "one run = one operation circuit of the registry (the circuits of C04-C07 and base64: standard-library relations and the circuits built directly on NativeGadget / PoseidonChip) synthesised on a structure-recording back end three ways: with unknown witnesses, with the concrete boundary-class witness (closures invoked), and under Byzantine edits of assigned values; fixed cells, selectors, the copy-constraint partition, table fills, advice cell positions and region count must be identical. For every 12th run the real key generator produces the verifying key without a witness and a real proof made from the witness must verify under it. distinct_nontrivial counts distinct (operation, static parameters, witness) digests compared",
            assumptions: vec![
                "structure = what the Assignment back end receives (assign_fixed, enable_selector, copy, fill_from_row, advice positions)",
                "witness values steer the data-dependent branches of the off-circuit helpers through the registry's boundary classes",
            ],
            components: vec![
                ("gadget synthesis (circuits, zk_stdlib)", "real"),
                ("Assignment back end", "harness: StructureRecorder (records instead of storing)"),
                ("sampled: keygen_vk / create_proof / verify", "real"),
            ],
            expected_probes: vec!["real_pipeline_verified"],
        }
    }
    fn runs(&self, tier: Tier) -> u64 {
        match tier {
            Tier::Quick => 1800,
            Tier::Thorough => 9000,
        }
    }
    fn generate(&self, rng: &mut Prng, _tier: Tier, idx: u64) -> Value {
        let mut all = ops::all_ops();
        // the circuits built directly on the chips (typed assignment, bounded comparisons with
        // cached bounds, two-step operations on one cell), the map, sponge sequences and base64
        all.extend(crate::ops_ng::ng_ops());
        all.push("map.seq".into());
        all.extend(crate::ops_vec::vec_ops());
        all.push("sp.poseidon".into());
        all.extend(crate::ops_parse::B64_OPS.iter().map(|s| s.to_string()));
        let mut op = all[(idx as usize) % all.len()].clone();
        if op.ends_with("mul_by_constant") && (op.starts_with("ec.k256") || op.starts_with("ec.bls")) && (idx / all.len() as u64) % 4 != 0 {
            op = op.replace("mul_by_constant", "double");
        }
        let op = &op;
        let case = ops::gen_case(rng, op);
        let inner = opcheck::Scn { case, fault_seed: rng.u64(), n_plans: 4, only: None, only_late: Some(vec![]) };
        serde_json::to_value(Scn { inner, real: idx % 12 == 0 }).unwrap()
    }
    fn execute(&self, scn: &Value, st: &mut Stats) -> Verdict {
        let s: Scn = match serde_json::from_value(scn.clone()) {
            Ok(s) => s,
            Err(e) => return Verdict::Harness(format!("bad scenario: {e}")),
        };
        match opcheck::run(&s.inner, st, true) {
            Verdict::Pass => {}
            // soundness / completeness findings belong to C04-C07; only structure violations count here
            Verdict::Violation(v) if v.class != "StructureDependsOnWitness" => {
                st.inc(&format!("other_property_violation.{}", v.class));
            }
            other => return other,
        }
        // (the real pipeline goes through the standard library's relation wrapper; operations
        //  that run in circuits of their own are covered by the structure monitor only)
        let own_circuit = ["ff.c25519", "ng.", "sp.", "vec"].iter().any(|p| s.inner.case.op.starts_with(p));
        if s.real && !own_circuit && ops::expected_admissible(&s.inner.case) {
            return real_pipeline(&s.inner.case, st);
        }
        Verdict::Pass
    }
    fn shrink(&self, scn: &Value, viol: &Viol) -> Vec<Value> {
        let s: Scn = serde_json::from_value(scn.clone()).unwrap();
        opcheck::shrink(&s.inner, viol)
            .into_iter()
            .map(|i| serde_json::to_value(Scn { inner: i, real: s.real }).unwrap())
            .collect()
    }
}

fn real_pipeline(case: &ops::OpCase, st: &mut Stats) -> Verdict {
    let rel = OpRel { case: case.clone() };
    let ins = ops::witness(case);
    let k = match opcheck::min_k(case) {
        Ok(k) => k,
        Err(e) => return Verdict::Harness(e),
    };
    if k > 12 {
        return Verdict::Pass;
    }
    // the public inputs, as bound by the circuit
    let circuit = MidnightCircuit::new(&rel, CValue::known(vec![]), CValue::known(ins.clone()), Some(case.mbl));
    let m = run_mock(k, &circuit, &[], false);
    if m.verdict != MockVerdict::Accept {
        return Verdict::Pass;
    }
    let pi = m.bound_plain.clone();
    let r = catch(|| {
        rayon::sim::isolated(1, || {
            // setup_vk picks its own table size: use the k of that choice
            let k2 = MidnightCircuit::from_relation(&rel).min_k();
            if k2 > 12 {
                return Ok(());
            }
            let srs = fixtures::srs(k2);
            // key generation never sees a witness
            let vk = midnight_zk_stdlib::setup_vk(&srs, &rel);
            let pk = midnight_zk_stdlib::setup_pk(&rel, &vk);
            let proof = midnight_zk_stdlib::prove::<OpRel, blake2b_simd::State>(
                &srs,
                &pk,
                &rel,
                &pi,
                ins.clone(),
                Prng::new(1, "c09").chacha("prove"),
            )
            .map_err(|e| format!("prove: {e:?}"))?;
            midnight_zk_stdlib::verify::<OpRel, blake2b_simd::State>(&srs.verifier_params(), &vk, &pi, None, &proof)
                .map_err(|e| format!("verify: {e:?}"))
        })
    });
    match r {
        Ok(Ok(())) => {
            st.probe("real_pipeline_verified");
            Verdict::Pass
        }
        Ok(Err(e)) => Verdict::Violation(Viol::new(
            "WitnessFreeKeyRejectsHonestProof",
            format!("WitnessFreeKeyRejectsHonestProof:{}", case.op),
            format!("{} {:?}: the key generated without a witness does not verify the proof made with witness {:?}: {e}", case.op, case.p, case.ins),
        )),
        Err(p) => Verdict::Violation(Viol::new(
            "WitnessFreeKeyRejectsHonestProof",
            format!("WitnessFreeKeyRejectsHonestProof:{}:panic", case.op),
            format!("{} {:?}: real keygen/prove/verify panicked at {}: {}", case.op, case.p, p.site(), p.msg),
        )),
    }
}
