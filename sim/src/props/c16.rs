//! C16 - decoding and verifying untrusted bytes is total: errors, never
//! crashes. Storage / channel faults on every verifier-facing decoder. Cases
//! run in rlimited child processes of this binary (so aborts, stack overflows
//! and runaway allocations are observed rather than fatal), under the counting
//! allocator.
use std::{
    io::{Read, Write},
    process::{Command, Stdio},
    time::{Duration, Instant},
};

use group::Curve;
use midnight_curves::CurveAffine;
use midnight_curves::{Bls12, Fq, G1Projective};
use midnight_proofs::{
    circuit::SimpleFloorPlanner,
    poly::kzg::params::{ParamsKZG, ParamsVerifierKZG},
    utils::SerdeFormat,
};
use midnight_zk_stdlib::{MidnightPK, MidnightVK, Relation, ZkStdLibArch};
use midnight_zkir::ZkirRelation;
use serde::{Deserialize, Serialize};
use serde_json::{json, Value};

use super::{c01, c17::Fmt};
use crate::{
    alloc_track,
    core::{
        fio::{FaultyReader, IoPlan},
        prng::{self, Prng},
        runner::{catch, Check, Meta, Tier, Verdict, Viol},
        stats::Stats,
    },
    fixtures,
    gen_circuit::{GenCircuit, Spec},
    pipeline::{self, HashKind, Sched, Vk},
    stdfix::{self, PoseidonRel},
    util::{hex, unhex, Fe},
};

pub struct C16;

#[derive(Clone, Copy, Debug, Serialize, Deserialize, PartialEq, Eq)]
pub enum Target {
    MidnightVk,
    Arch,
    VkGen,
    VerifierParams,
    ZkirJson,
    ZkirBincode,
    Proof,
    /// reported only (local artefacts of the prover)
    MidnightPk,
    ParamsFull,
}
const VERIFIER_TARGETS: [Target; 7] = [
    Target::MidnightVk,
    Target::Arch,
    Target::VkGen,
    Target::VerifierParams,
    Target::ZkirJson,
    Target::ZkirBincode,
    Target::Proof,
];

#[derive(Clone, Debug, Serialize, Deserialize, PartialEq)]
pub enum Mutation {
    None,
    /// only the first `at` bytes are there (EOF / torn write)
    Truncate { at: usize },
    SetByte { pos: usize, val: u8 },
    FlipBit { bit: usize },
    /// copy `len` bytes from `from` over `to`
    Splice { from: usize, to: usize, len: usize },
    Append { hex: String },
    Zero { pos: usize, len: usize },
    /// completely arbitrary bytes
    Random { seed: u64, len: usize },
}

#[derive(Clone, Debug, Serialize, Deserialize, PartialEq)]
pub struct Scn {
    pub target: Target,
    pub fmt: Fmt,
    pub muts: Vec<Mutation>,
    pub io: IoPlan,
}

pub fn apply(base: &[u8], m: &Mutation) -> Vec<u8> {
    let mut b = base.to_vec();
    let n = base.len().max(1);
    match m {
        Mutation::None => {}
        Mutation::Truncate { at } => b.truncate(at % n),
        Mutation::SetByte { pos, val } => {
            if !b.is_empty() {
                b[pos % n] = *val
            }
        }
        Mutation::FlipBit { bit } => {
            if !b.is_empty() {
                b[(bit / 8) % n] ^= 1 << (bit % 8)
            }
        }
        Mutation::Splice { from, to, len } => {
            if !b.is_empty() {
                let (from, to) = (from % n, to % n);
                let len = (*len).min(n - from).min(n - to);
                let chunk = base[from..from + len].to_vec();
                b[to..to + len].copy_from_slice(&chunk);
            }
        }
        Mutation::Append { hex } => b.extend(unhex(hex)),
        Mutation::Zero { pos, len } => {
            if !b.is_empty() {
                let pos = pos % n;
                let len = (*len).min(n - pos);
                b[pos..pos + len].iter_mut().for_each(|x| *x = 0);
            }
        }
        Mutation::Random { seed, len } => b = Prng::new(*seed, "random-bytes").bytes(*len),
    }
    b
}

// ------------------------------------------------------------ fixtures (parent side)

fn gen_fixture_spec() -> Spec {
    // a fixed member of the generated family with lookups, copies and two instance columns
    let mut rng = Prng::new(0xC16, "c16-spec");
    loop {
        let s = c01::gen_scn_k(&mut rng, Tier::Quick, 6);
        if !s.spec.lookups.is_empty() && !s.spec.copies.is_empty() && s.spec.n_instance >= 1 && !s.spec.v1 {
            return s.spec;
        }
    }
}

struct GenFix {
    spec: Spec,
    vk: Vk,
    witness: crate::gen_circuit::Witness,
    proof: Vec<u8>,
}
fn gen_fix() -> std::sync::Arc<GenFix> {
    use std::sync::{Arc, OnceLock};
    static FIX: OnceLock<Arc<GenFix>> = OnceLock::new();
    FIX.get_or_init(|| {
        rayon::sim::isolated(1, || {
            let spec = gen_fixture_spec();
            let mut rng = Prng::new(0xC16, "c16-witness");
            let witness = crate::gen_circuit::gen_witness(&mut rng, &spec);
            let (vk, pk) = pipeline::keygen(&spec).expect("fixture keygen");
            let (proof, _) = pipeline::prove(
                &pk,
                &spec,
                std::slice::from_ref(&witness),
                0,
                HashKind::Blake2b,
                rng.chacha("fixture"),
            );
            Arc::new(GenFix { spec, vk, witness, proof: proof.expect("fixture proof") })
        })
    })
    .clone()
}

const ZKIR_JSON: &str = r#"{
  "version": { "major": 3, "minor": 0 },
  "instructions": [
    { "op": {"load": "Native"}, "outputs": ["v0", "v1"] },
    { "op": {"load": "Bool"}, "outputs": ["b0"] },
    { "op": {"load": { "Bytes" : 2 }}, "outputs": ["bytes"] },
    { "op": {"load": { "BigUint": 64 }}, "outputs": ["P", "Q"] },
    { "op": "mul", "inputs": ["P", "Q"], "outputs": ["N"] },
    { "op": {"into_bytes": 16}, "inputs": ["N"], "outputs": ["nb"] },
    { "op": {"mod_exp": 3}, "inputs": ["P", "Q"], "outputs": ["E"] },
    { "op": "publish", "inputs": ["v0", "v1", "N"] },
    { "op": "add", "inputs": ["v0", "v1"], "outputs": ["z"] },
    { "op": "assert_equal", "inputs": ["z", "Native:-0x01"] }
  ]
}"#;

fn base_bytes(t: Target, fmt: Fmt) -> Vec<u8> {
    match t {
        Target::MidnightVk => {
            let f = stdfix::poseidon();
            let mut b = vec![];
            f.vk.write(&mut b, fmt.to()).unwrap();
            b
        }
        Target::Arch => {
            let mut b = vec![];
            ZkStdLibArch { poseidon: true, sha2_256: true, nr_pow2range_cols: 2, ..ZkStdLibArch::default() }
                .write(&mut b)
                .unwrap();
            b
        }
        Target::VkGen => gen_fix().vk.to_bytes(fmt.to()),
        Target::VerifierParams => {
            let mut b = vec![];
            fixtures::srs(4).verifier_params().write(&mut b, fmt.to()).unwrap();
            b
        }
        Target::ZkirJson => ZKIR_JSON.as_bytes().to_vec(),
        Target::ZkirBincode => {
            let r = ZkirRelation::read(ZKIR_JSON).expect("fixture IR");
            let mut b = vec![];
            r.write_relation(&mut b).unwrap();
            b
        }
        Target::Proof => stdfix::poseidon().proof.clone(),
        Target::MidnightPk => {
            let f = stdfix::poseidon();
            if fmt == Fmt::Processed {
                // re-encode through a read of the raw key
                let pk = MidnightPK::<PoseidonRel>::read(&mut &f.pk_bytes_raw[..], SerdeFormat::RawBytes).unwrap();
                let mut b = vec![];
                pk.write(&mut b, SerdeFormat::Processed).unwrap();
                b
            } else {
                f.pk_bytes_raw.clone()
            }
        }
        Target::ParamsFull => {
            let mut b = vec![];
            fixtures::srs(3).write_custom(&mut b, fmt.to()).unwrap();
            b
        }
    }
}

// ------------------------------------------------------------ worker protocol

#[derive(Serialize, Deserialize)]
struct Delivery {
    pi: Vec<Fe>,
    proof: String,
}
#[derive(Serialize, Deserialize)]
struct Job {
    target: Target,
    fmt: Fmt,
    io: IoPlan,
    cases: Vec<String>,
    /// proofs to verify with every key that decodes (first: valid for the fixture key)
    deliveries: Vec<Delivery>,
    spec: Option<Spec>,
    /// for Target::Proof: a valid MidnightVK (RawBytes)
    vk: Option<String>,
}
#[derive(Serialize, Deserialize, Debug, Clone)]
struct CaseResult {
    i: usize,
    /// "ok" | "err" | "panic"
    o: String,
    /// panic site / failed post-condition
    site: String,
    msg: String,
    alloc: usize,
    /// outcomes of post-decode verifications ("ok"|"err"|"panic@site")
    post: Vec<String>,
    /// non-canonical / off-curve / non-subgroup value accepted by a checked format
    bad_accept: Option<String>,
}

fn checked(fmt: Fmt) -> bool {
    fmt != Fmt::RawBytesUnchecked
}

/// Checked formats accept only points on the curve, and in the prime-order
/// subgroup for compressed points (`Processed`).
fn g1_ok(p: &G1Projective, fmt: Fmt) -> Option<String> {
    let a = p.to_affine();
    if !bool::from(a.is_on_curve()) {
        return Some("point off the curve accepted".into());
    }
    if fmt == Fmt::Processed && !bool::from(a.is_torsion_free()) {
        return Some("compressed point outside the prime-order subgroup accepted".into());
    }
    None
}

/// Child process: decode every case, report one JSON line per case.
pub fn worker_main() -> i32 {
    // address-space limit: runaway allocations abort the child, not the machine
    unsafe {
        let lim = libc::rlimit { rlim_cur: 6 << 30, rlim_max: 6 << 30 };
        libc::setrlimit(libc::RLIMIT_AS, &lim);
    }
    let mut input = String::new();
    std::io::stdin().read_to_string(&mut input).expect("stdin");
    let job: Job = serde_json::from_str(&input).expect("job");
    // an 8 MiB stack like a default main thread: deep recursion overflows observably
    let h = std::thread::Builder::new().stack_size(8 << 20).spawn(move || worker(job)).unwrap();
    match h.join() {
        Ok(()) => 0,
        Err(_) => 3,
    }
}

fn worker(job: Job) {
    rayon::sim::set(1, 1, false);
    let out = std::io::stdout();
    let vparams = fixtures::srs(1).verifier_params();
    let deliveries: Vec<(Vec<Fq>, Vec<u8>)> =
        job.deliveries.iter().map(|d| (d.pi.iter().map(|x| x.0).collect(), unhex(&d.proof))).collect();
    let proof_vk: Option<MidnightVK> = job
        .vk
        .as_ref()
        .map(|h| MidnightVK::read(&mut &unhex(h)[..], SerdeFormat::RawBytes).expect("aux vk"));
    for (i, c) in job.cases.iter().enumerate() {
        let bytes = unhex(c);
        // announce the case first: if the process dies, the parent knows where
        {
            let mut o = out.lock();
            writeln!(o, "START {i}").unwrap();
            o.flush().unwrap();
        }
        let mut res = CaseResult { i, o: String::new(), site: String::new(), msg: String::new(), alloc: 0, post: vec![], bad_accept: None };
        alloc_track::start();
        let fmt = job.fmt.to();
        let r = catch(|| -> Result<(Vec<String>, Option<String>), String> {
            let mut rd = FaultyReader::new(&bytes, &job.io);
            match job.target {
                Target::MidnightVk => {
                    let vk = MidnightVK::read(&mut rd, fmt).map_err(|e| e.to_string())?;
                    let consumed = rd.position();
                    let mut bad = None;
                    if checked(job.fmt) {
                        let mut again = vec![];
                        vk.write(&mut again, fmt).map_err(|e| e.to_string())?;
                        if again != bytes[..consumed] {
                            bad = Some("decoded key re-encodes to different bytes (non-canonical encoding accepted)".to_string());
                        }
                        for p in vk.vk().fixed_commitments().iter().chain(vk.vk().permutation().commitments().iter()) {
                            if let Some(b) = g1_ok(p, job.fmt) {
                                bad = Some(b);
                            }
                        }
                    }
                    let mut post = vec![];
                    for (pi, proof) in &deliveries {
                        let r = catch(|| {
                            midnight_zk_stdlib::batch_verify::<blake2b_simd::State>(
                                &vparams,
                                std::slice::from_ref(&vk),
                                std::slice::from_ref(pi),
                                std::slice::from_ref(proof),
                            )
                        });
                        post.push(match r {
                            Ok(Ok(())) => "ok".into(),
                            Ok(Err(_)) => "err".into(),
                            Err(p) => format!("panic@{}", p.site()),
                        });
                    }
                    Ok((post, bad))
                }
                Target::Arch => {
                    let a = ZkStdLibArch::read(&mut rd).map_err(|e| e.to_string())?;
                    let r = catch(|| a.nb_points());
                    Ok((vec![match r {
                        Ok(_) => "ok".into(),
                        Err(p) => format!("panic@{}", p.site()),
                    }], None))
                }
                Target::VkGen => {
                    let spec = job.spec.clone().expect("spec");
                    let vk = Vk::read::<_, GenCircuit<SimpleFloorPlanner>>(&mut rd, fmt, spec.clone())
                        .map_err(|e| e.to_string())?;
                    let consumed = rd.position();
                    let mut bad = None;
                    if checked(job.fmt) {
                        if vk.to_bytes(fmt) != bytes[..consumed] {
                            bad = Some("decoded key re-encodes to different bytes (non-canonical encoding accepted)".to_string());
                        }
                        for p in vk.fixed_commitments().iter().chain(vk.permutation().commitments().iter()) {
                            if let Some(b) = g1_ok(p, job.fmt) {
                                bad = Some(b);
                            }
                        }
                    }
                    let mut post = vec![];
                    for (pi, proof) in &deliveries {
                        // pi: concatenated instance columns, split by the spec's column count
                        let stmts = vec![pipeline::Statement { committed: vec![], plain: split_cols(pi, spec.n_instance) }];
                        let r = catch(|| pipeline::verify(spec.k, &vk, &stmts, proof, HashKind::Blake2b).0);
                        post.push(match r {
                            Ok(Ok(())) => "ok".into(),
                            Ok(Err(_)) => "err".into(),
                            Err(p) => format!("panic@{}", p.site()),
                        });
                    }
                    Ok((post, bad))
                }
                Target::VerifierParams => {
                    let p = ParamsVerifierKZG::<Bls12>::read(&mut rd, fmt).map_err(|e| e.to_string())?;
                    let f = proof_vk.as_ref().expect("aux vk");
                    let mut post = vec![];
                    for (pi, proof) in &deliveries {
                        let r = catch(|| {
                            midnight_zk_stdlib::batch_verify::<blake2b_simd::State>(
                                &p,
                                std::slice::from_ref(f),
                                std::slice::from_ref(pi),
                                std::slice::from_ref(proof),
                            )
                        });
                        post.push(match r {
                            Ok(Ok(())) => "ok".into(),
                            Ok(Err(_)) => "err".into(),
                            Err(p) => format!("panic@{}", p.site()),
                        });
                    }
                    Ok((post, None))
                }
                Target::ZkirJson => {
                    let s = String::from_utf8(bytes.clone()).map_err(|_| "not utf-8".to_string())?;
                    let s: &'static str = Box::leak(s.into_boxed_str());
                    let rel = ZkirRelation::read(s).map_err(|e| format!("{e:?}"))?;
                    let _ = rel.used_chips();
                    Ok((vec![], None))
                }
                Target::ZkirBincode => {
                    let rel = ZkirRelation::read_relation(&mut rd).map_err(|e| e.to_string())?;
                    let _ = rel.used_chips();
                    Ok((vec![], None))
                }
                Target::Proof => {
                    let vk = proof_vk.as_ref().expect("aux vk");
                    let pi = &deliveries[0].0;
                    midnight_zk_stdlib::batch_verify::<blake2b_simd::State>(
                        &vparams,
                        std::slice::from_ref(vk),
                        std::slice::from_ref(pi),
                        std::slice::from_ref(&bytes),
                    )
                    .map_err(|e| format!("{e:?}"))?;
                    Ok((vec![], None))
                }
                Target::MidnightPk => {
                    MidnightPK::<PoseidonRel>::read(&mut rd, fmt).map_err(|e| e.to_string())?;
                    Ok((vec![], None))
                }
                Target::ParamsFull => {
                    ParamsKZG::<Bls12>::read_custom(&mut rd, fmt).map_err(|e| e.to_string())?;
                    Ok((vec![], None))
                }
            }
        });
        res.alloc = alloc_track::stop();
        match r {
            Ok(Ok((post, bad))) => {
                res.o = "ok".into();
                res.post = post;
                res.bad_accept = bad;
            }
            Ok(Err(e)) => {
                res.o = "err".into();
                res.msg = e.chars().take(120).collect();
            }
            Err(p) => {
                res.o = "panic".into();
                res.site = p.site();
                res.msg = p.msg.chars().take(160).collect();
            }
        }
        let mut o = out.lock();
        writeln!(o, "RESULT {}", serde_json::to_string(&res).unwrap()).unwrap();
        o.flush().unwrap();
    }
}

fn split_cols(pi: &[Fq], n: usize) -> Vec<Vec<Fq>> {
    // deliveries for the generated circuit carry column lengths as a prefix
    let mut cols = vec![];
    let mut pos = 0;
    for _ in 0..n {
        let len = pi.get(pos).map(fq_small).unwrap_or(0);
        pos += 1;
        let end = (pos + len).min(pi.len());
        cols.push(pi[pos.min(pi.len())..end].to_vec());
        pos = end;
    }
    cols
}
fn fq_small(f: &Fq) -> usize {
    let b = f.to_bytes_le();
    u32::from_le_bytes([b[0], b[1], b[2], b[3]]) as usize
}
fn join_cols(cols: &[Vec<Fq>]) -> Vec<Fe> {
    let mut v = vec![];
    for c in cols {
        v.push(Fe(Fq::from(c.len() as u64)));
        v.extend(c.iter().map(|x| Fe(*x)));
    }
    v
}

// ------------------------------------------------------------ parent

fn job_for(s: &Scn) -> Job {
    let base = base_bytes(s.target, s.fmt);
    let cases: Vec<String> = s.muts.iter().map(|m| hex(&apply(&base, m))).collect();
    let pos = stdfix::poseidon();
    let ar = stdfix::arith();
    let std_deliveries = vec![
        Delivery { pi: pos.pi.iter().map(|x| Fe(*x)).collect(), proof: hex(&pos.proof) },
        // a proof for another circuit
        Delivery { pi: ar.pi.iter().map(|x| Fe(*x)).collect(), proof: hex(&ar.proof) },
    ];
    match s.target {
        Target::VkGen => {
            let g = gen_fix();
            let cols = g.witness.effective_instance();
            Job {
                target: s.target,
                fmt: s.fmt,
                io: s.io.clone(),
                cases,
                deliveries: vec![
                    Delivery { pi: join_cols(&cols), proof: hex(&g.proof) },
                    Delivery { pi: join_cols(&cols), proof: hex(&pos.proof) },
                ],
                spec: Some(g.spec.clone()),
                vk: None,
            }
        }
        Target::VerifierParams | Target::Proof => Job {
            target: s.target,
            fmt: s.fmt,
            io: s.io.clone(),
            cases,
            deliveries: std_deliveries,
            spec: None,
            vk: Some(hex(&pos.vk_bytes_raw)),
        },
        _ => Job { target: s.target, fmt: s.fmt, io: s.io.clone(), cases, deliveries: std_deliveries, spec: None, vk: None },
    }
}

enum ChildEnd {
    Done(Vec<CaseResult>),
    Died { at: Option<usize>, status: String, results: Vec<CaseResult> },
    Hung { at: Option<usize>, results: Vec<CaseResult> },
}

fn run_child(job: &Job, timeout: Duration) -> Result<ChildEnd, String> {
    let exe = std::env::current_exe().map_err(|e| e.to_string())?;
    let mut child = Command::new(exe)
        .arg("c16-worker")
        .stdin(Stdio::piped())
        .stdout(Stdio::piped())
        .stderr(Stdio::null())
        .spawn()
        .map_err(|e| e.to_string())?;
    let body = serde_json::to_string(job).unwrap();
    let mut stdin = child.stdin.take().unwrap();
    let writer = std::thread::spawn(move || {
        let _ = stdin.write_all(body.as_bytes());
    });
    let mut stdout = child.stdout.take().unwrap();
    let reader = std::thread::spawn(move || {
        let mut s = String::new();
        let _ = stdout.read_to_string(&mut s);
        s
    });
    let start = Instant::now();
    let mut hung = false;
    let status = loop {
        match child.try_wait().map_err(|e| e.to_string())? {
            Some(st) => break st,
            None => {
                if start.elapsed() > timeout {
                    let _ = child.kill();
                    hung = true;
                    break child.wait().map_err(|e| e.to_string())?;
                }
                std::thread::sleep(Duration::from_millis(5));
            }
        }
    };
    let _ = writer.join();
    let out = reader.join().map_err(|_| "reader thread".to_string())?;
    let mut results = vec![];
    let mut last_start = None;
    for line in out.lines() {
        if let Some(i) = line.strip_prefix("START ") {
            last_start = i.trim().parse::<usize>().ok();
        } else if let Some(j) = line.strip_prefix("RESULT ") {
            if let Ok(r) = serde_json::from_str::<CaseResult>(j) {
                results.push(r);
            }
        }
    }
    let in_flight = match (last_start, results.last()) {
        (Some(s), Some(r)) if r.i == s => None,
        (s, _) => s,
    };
    if hung {
        return Ok(ChildEnd::Hung { at: in_flight, results });
    }
    if !status.success() || results.len() != job.cases.len() {
        return Ok(ChildEnd::Died { at: in_flight, status: format!("{status}"), results });
    }
    Ok(ChildEnd::Done(results))
}

fn mut_kind(m: &Mutation) -> &'static str {
    match m {
        Mutation::None => "none",
        Mutation::Truncate { .. } => "truncate",
        Mutation::SetByte { .. } => "byte-substitution",
        Mutation::FlipBit { .. } => "bit-flip",
        Mutation::Splice { .. } => "splice",
        Mutation::Append { .. } => "append",
        Mutation::Zero { .. } => "zero-range",
        Mutation::Random { .. } => "random-bytes",
    }
}

fn reported_only(t: Target) -> bool {
    matches!(t, Target::MidnightPk | Target::ParamsFull)
}

/// Enumeration plan: (target, fmt, mutations) chunks that together cover EOF at
/// every byte and all 256 values of every header byte.
fn enumeration(tier: Tier) -> Vec<(Target, Fmt, Vec<Mutation>)> {
    let header = match tier {
        Tier::Quick => 48,
        Tier::Thorough => 200,
    };
    let mut plan = vec![];
    for t in VERIFIER_TARGETS {
        let fmts: &[Fmt] = match t {
            Target::MidnightVk | Target::VkGen | Target::VerifierParams => &[Fmt::Processed, Fmt::RawBytes],
            _ => &[Fmt::RawBytes],
        };
        for f in fmts {
            let len = base_bytes(t, *f).len();
            // EOF at every byte
            let ats: Vec<usize> = (0..len).collect();
            for ch in ats.chunks(192) {
                plan.push((t, *f, ch.iter().map(|a| Mutation::Truncate { at: *a }).collect()));
            }
            // every value in every header / length-field byte
            for pos in 0..header.min(len) {
                plan.push((t, *f, (0..=255u8).map(|v| Mutation::SetByte { pos, val: v }).collect()));
            }
        }
    }
    plan
}

fn random_muts(rng: &mut Prng, len: usize, n: usize) -> Vec<Mutation> {
    let len = len.max(1);
    (0..n)
        .map(|_| match rng.below(9) {
            0 => Mutation::FlipBit { bit: rng.usize(len * 8) },
            1 => Mutation::FlipBit { bit: rng.usize(len.min(64) * 8) },
            2 => Mutation::SetByte { pos: rng.usize(len), val: rng.u64() as u8 },
            3 => Mutation::SetByte { pos: rng.usize(len), val: *rng.pick(&[0u8, 1, 0x7f, 0x80, 0xff, 0xfb, 0xfc, 0xfd, 0xfe]) },
            4 => Mutation::Splice { from: rng.usize(len), to: rng.usize(len), len: 1 + rng.usize(96) },
            5 => {
                let n = 1 + rng.usize(64);
                Mutation::Append { hex: hex(&rng.bytes(n)) }
            }
            6 => Mutation::Zero { pos: rng.usize(len), len: 1 + rng.usize(64) },
            7 => Mutation::Truncate { at: rng.usize(len) },
            _ => Mutation::Random { seed: rng.u64(), len: rng.usize(len * 2) },
        })
        .collect()
}

impl Check for C16 {
    fn id(&self) -> &'static str {
        "C16"
    }
    fn meta(&self) -> Meta {
        Meta {
            level: "fault_enumeration",
            rule: "one run = one batch of corrupted encodings of one verifier-facing object (MidnightVK, ZkStdLibArch, proofs VerifyingKey of a generated circuit, verifier params, IR program as JSON and as bincode, proof bytes), decoded through a reader that may also return short reads / EINTR, in a child process with an address-space limit and a counting allocator; every key that decodes then verifies a valid proof and a proof of another circuit. The enumerated part covers EOF at every byte and all 256 values of each header byte of every object/format; the sampled part flips bits, substitutes bytes, splices, zeroes, appends and replaces the body. Proving keys and full parameter sets are exercised and reported only. distinct_nontrivial counts distinct (object, format, corrupted bytes) digests",
            assumptions: vec![
                "allocation bound checked: a single allocation may not exceed 16 MiB + 64 x input length",
                "RawBytesUnchecked is not a checked format and is excluded, as the property states",
                "a child that dies (signal, abort, stack overflow) or exceeds 120 s is a violation attributed to the case in flight",
            ],
            components: vec![
                ("decoders (zk_stdlib, proofs, curves, zkir) and verifiers", "real, in a child process"),
                ("disk / channel", "simulated: corruption, truncation, short reads, EINTR"),
                ("allocator", "real system allocator behind a counting wrapper; RLIMIT_AS in the child"),
            ],
            expected_probes: vec![
                "truncate",
                "byte-substitution",
                "bit-flip",
                "splice",
                "append",
                "random-bytes",
                "decoded_ok_after_corruption",
                "post_verification_ran",
            ],
        }
    }
    fn runs(&self, tier: Tier) -> u64 {
        let e = rayon::sim::isolated(1, || enumeration(tier).len()) as u64;
        match tier {
            Tier::Quick => e + 800,
            Tier::Thorough => e + 40000,
        }
    }
    fn generate(&self, rng: &mut Prng, tier: Tier, idx: u64) -> Value {
        let plan = rayon::sim::isolated(1, || enumeration(tier));
        let scn = if (idx as usize) < plan.len() {
            let (target, fmt, muts) = plan[idx as usize].clone();
            Scn { target, fmt, muts, io: if idx % 3 == 0 { IoPlan::benign(rng) } else { IoPlan::clean() } }
        } else {
            let all: Vec<Target> = VERIFIER_TARGETS.iter().copied().chain([Target::MidnightPk, Target::ParamsFull]).collect();
            let target = if rng.chance(1, 8) { *rng.pick(&all[7..]) } else { *rng.pick(&all[..7]) };
            let fmt = if rng.chance(1, 2) { Fmt::Processed } else { Fmt::RawBytes };
            let len = rayon::sim::isolated(1, || base_bytes(target, fmt).len());
            let n = if reported_only(target) { 24 } else { 96 };
            let mut muts = random_muts(rng, len, n);
            muts.push(Mutation::None);
            Scn { target, fmt, muts, io: if rng.chance(1, 2) { IoPlan::benign(rng) } else { IoPlan::clean() } }
        };
        serde_json::to_value(scn).unwrap()
    }
    fn execute(&self, scn: &Value, st: &mut Stats) -> Verdict {
        let s: Scn = match serde_json::from_value(scn.clone()) {
            Ok(s) => s,
            Err(e) => return Verdict::Harness(format!("bad scenario: {e}")),
        };
        run(&s, st)
    }
    fn shrink(&self, scn: &Value, viol: &Viol) -> Vec<Value> {
        let s: Scn = serde_json::from_value(scn.clone()).unwrap();
        let mut out = vec![];
        if let Some(h) = &viol.hint {
            if let Ok(m) = serde_json::from_value::<Mutation>(h.clone()) {
                if s.muts.len() > 1 {
                    out.push(Scn { muts: vec![m], ..s.clone() });
                }
            }
        }
        if !s.io.is_clean() {
            out.push(Scn { io: IoPlan::clean(), ..s.clone() });
        }
        out.into_iter().map(|s| serde_json::to_value(s).unwrap()).collect()
    }
}

fn run(s: &Scn, st: &mut Stats) -> Verdict {
    let job = rayon::sim::isolated(Sched::seq().threads, || job_for(s));
    let base_len = job.cases.first().map(|c| c.len() / 2).unwrap_or(0);
    let end = match run_child(&job, Duration::from_secs(120)) {
        Ok(e) => e,
        Err(e) => return Verdict::Harness(format!("cannot run the child process: {e}")),
    };
    let tname = format!("{:?}", s.target);
    let (results, crash): (Vec<CaseResult>, Option<Viol>) = match end {
        ChildEnd::Done(r) => (r, None),
        ChildEnd::Died { at, status, results } => {
            let m = at.and_then(|i| s.muts.get(i)).cloned();
            let v = Viol::new(
                "Crash",
                format!("Crash:{tname}:{}", m.as_ref().map(mut_kind).unwrap_or("?")),
                format!("child decoding {tname} ({:?}) died ({status}) while processing case {at:?}: {m:?}", s.fmt),
            );
            (results, Some(match m { Some(m) => v.with_hint(serde_json::to_value(m).unwrap()), None => v }))
        }
        ChildEnd::Hung { at, results } => {
            let m = at.and_then(|i| s.muts.get(i)).cloned();
            let v = Viol::new(
                "Hang",
                format!("Hang:{tname}"),
                format!("child decoding {tname} ({:?}) did not finish within 120 s; case in flight {at:?}: {m:?}", s.fmt),
            );
            (results, Some(match m { Some(m) => v.with_hint(serde_json::to_value(m).unwrap()), None => v }))
        }
    };
    let mut first: Option<Viol> = None;
    let mut note = |v: Viol| {
        if first.is_none() {
            first = Some(v);
        }
    };
    for r in &results {
        let m = &s.muts[r.i];
        let kind = mut_kind(m);
        st.fault(kind);
        st.events += 1;
        let case_len = job.cases[r.i].len() / 2;
        st.nontrivial(prng::digest(format!("{tname}|{:?}|{}", s.fmt, job.cases[r.i]).as_bytes()));
        st.inc(&format!("outcome.{}.{}", tname, r.o));
        let hint = serde_json::to_value(m).unwrap();
        if reported_only(s.target) {
            if r.o == "panic" {
                st.inc(&format!("reported.{tname}.panic@{}", r.site));
            }
            if r.alloc > (16 << 20) + 64 * case_len {
                st.inc(&format!("reported.{tname}.large_allocation"));
            }
            continue;
        }
        if r.o == "panic" {
            let file = r.site.rsplit_once(':').map(|x| x.0).unwrap_or(&r.site);
            note(
                Viol::new(
                    "Panic",
                    format!("Panic:{tname}@{file}"),
                    format!("decoding {tname} ({:?}) after {m:?} panicked at {}: {}", s.fmt, r.site, r.msg),
                )
                .with_hint(hint.clone()),
            );
        }
        if r.alloc > (16 << 20) + 64 * case_len {
            note(
                Viol::new(
                    "UnboundedAllocation",
                    format!("UnboundedAllocation:{tname}"),
                    format!("decoding {tname} ({:?}) after {m:?} allocated {} bytes in one piece for an input of {case_len} bytes", s.fmt, r.alloc),
                )
                .with_hint(hint.clone()),
            );
        }
        if r.o == "ok" {
            if !matches!(m, Mutation::None) && job.cases[r.i].len() / 2 != base_len || !matches!(m, Mutation::None) {
                st.probe("decoded_ok_after_corruption");
            }
            if let Some(b) = &r.bad_accept {
                note(
                    Viol::new(
                        "BadEncodingAccepted",
                        format!("BadEncodingAccepted:{tname}"),
                        format!("{tname} ({:?}) after {m:?}: {b}", s.fmt),
                    )
                    .with_hint(hint.clone()),
                );
            }
            for (j, p) in r.post.iter().enumerate() {
                st.probe("post_verification_ran");
                if let Some(site) = p.strip_prefix("panic@") {
                    let file = site.rsplit_once(':').map(|x| x.0).unwrap_or(site);
                    note(
                        Viol::new(
                            "PanicAfterDecode",
                            format!("PanicAfterDecode:{tname}@{file}"),
                            format!("a {tname} ({:?}) that decoded successfully after {m:?} made verification of delivery {j} panic at {site}", s.fmt),
                        )
                        .with_hint(hint.clone()),
                    );
                }
                // the untouched key must still accept the valid proof (delivery 0)
                if matches!(m, Mutation::None) && j == 0 && p != "ok" && s.target != Target::Arch {
                    note(Viol::new(
                        "HonestRejected",
                        format!("HonestRejected:{tname}"),
                        format!("the untouched {tname} does not verify the fixture proof: {p}"),
                    ));
                }
            }
            if s.target == Target::Proof && !matches!(m, Mutation::None) && job.cases[r.i] != hex(&stdfix::poseidon().proof) {
                note(
                    Viol::new(
                        "AcceptedAlteredDelivery",
                        "AcceptedAlteredDelivery:Proof".to_string(),
                        format!("a corrupted proof was accepted after {m:?} (C03's subject)"),
                    )
                    .with_hint(hint.clone()),
                );
            }
        }
    }
    if st.samples.is_empty() {
        st.sample(0, json!({"target": tname, "fmt": format!("{:?}", s.fmt), "cases": s.muts.len(), "first": s.muts.iter().take(3).collect::<Vec<_>>(),
            "outcomes": results.iter().take(6).map(|r| r.o.clone()).collect::<Vec<_>>() }));
    }
    // proving keys and full prover parameter sets are local artefacts of the prover: the
    // property asks for them to be exercised and reported only - a child that dies or hangs on
    // one of them is counted, like their panics and large allocations above
    let crash = match crash {
        Some(v) if reported_only(s.target) => {
            st.inc(&format!("reported.{tname}.{}", if v.class == "Hang" { "hang" } else { "child_died" }));
            None
        }
        other => other,
    };
    if let Some(v) = crash.or(first) {
        return Verdict::Violation(v);
    }
    Verdict::Pass
}
