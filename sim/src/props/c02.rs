//! C02 - the verifier enforces every constraint class and agrees with the
//! development-time constraint checker. Pipeline simulation with a Byzantine
//! prover: exactly one assigned cell (or public-input value) is edited before
//! proving; the same circuit, assignment and edit go to MockProver.
use midnight_proofs::dev::VerifyFailure;
use serde::{Deserialize, Serialize};
use serde_json::Value;

use super::c01;
use crate::{
    core::{
        prng::{self, Prng},
        runner::{catch, Check, Meta, Tier, Verdict, Viol},
        stats::Stats,
    },
    gen_circuit::{fault_sites, CellFault, FaultKind, Witness},
    pipeline::{self, Sched},
    util::{draw_fq, uniform_fq, Fe},
};

pub struct C02;

/// One Byzantine move: edits applied to proof `proof` of the multi-proof.
#[derive(Clone, Debug, Serialize, Deserialize, PartialEq)]
pub struct Plan {
    pub proof: usize,
    pub cell: Option<CellFault>,
    pub inst: Option<(usize, usize, FaultKind)>,
    /// class of the site ("gate", "lookup", "copy-instance", "unused", "none", ...)
    pub class: String,
    /// a different blinding stream for this plan (must never matter)
    pub blinding_seed: u64,
}

#[derive(Clone, Debug, Serialize, Deserialize, PartialEq)]
pub struct Scn {
    pub base: c01::Scn,
    pub plans: Vec<Plan>,
}

fn draw_kind(rng: &mut Prng, w: &Witness) -> FaultKind {
    match rng.below(5) {
        0 | 1 => FaultKind::Add(Fe(midnight_curves::Fq::from(1))),
        2 => FaultKind::Set(Fe(midnight_curves::Fq::from(0))),
        3 => {
            // value of a neighbouring cell
            let all: Vec<Fe> = w.gate_inputs.iter().flatten().chain(w.copy_vals.iter()).copied().collect();
            if all.is_empty() {
                FaultKind::Set(Fe(draw_fq(rng)))
            } else {
                FaultKind::Set(*rng.pick(&all))
            }
        }
        _ => FaultKind::Set(Fe(uniform_fq(rng))),
    }
}

pub fn gen_plans(rng: &mut Prng, base: &c01::Scn, tier: Tier) -> Vec<Plan> {
    let sites = fault_sites(&base.spec);
    let mut plans = vec![];
    // (a) no fault
    plans.push(Plan { proof: 0, cell: None, inst: None, class: "none".into(), blinding_seed: rng.u64() });
    let n_cell = match tier {
        Tier::Quick => 5,
        Tier::Thorough => 24,
    };
    let mut order: Vec<usize> = (0..sites.len()).collect();
    rng.shuffle(&mut order);
    // (b)/(c) one cell fault per plan; thorough walks every site (up to the cap) once
    for si in order.into_iter().take(n_cell) {
        let proof = rng.usize(base.witnesses.len());
        let (site, class) = &sites[si];
        plans.push(Plan {
            proof,
            cell: Some(CellFault { site: site.clone(), kind: draw_kind(rng, &base.witnesses[proof]) }),
            inst: None,
            class: class.to_string(),
            blinding_seed: rng.u64(),
        });
    }
    // public-input faults
    for _ in 0..2 {
        let proof = rng.usize(base.witnesses.len());
        let w = &base.witnesses[proof];
        let cols: Vec<usize> = (0..w.instance.len()).filter(|c| !w.instance[*c].is_empty()).collect();
        if cols.is_empty() {
            break;
        }
        let c = *rng.pick(&cols);
        let r = rng.usize(w.instance[c].len());
        plans.push(Plan {
            proof,
            cell: None,
            inst: Some((c, r, draw_kind(rng, w))),
            class: if c < base.nb_committed { "committed-instance".into() } else { "public-input".into() },
            blinding_seed: rng.u64(),
        });
    }
    plans
}

fn failure_class(f: &VerifyFailure) -> &'static str {
    match f {
        VerifyFailure::CellNotAssigned { .. } => "lint-cell-not-assigned",
        VerifyFailure::InstanceCellNotAssigned { .. } => "lint-instance-not-assigned",
        VerifyFailure::ConstraintNotSatisfied { .. } => "gate",
        VerifyFailure::ConstraintPoisoned { .. } => "poisoned",
        VerifyFailure::Lookup { .. } => "lookup",
        VerifyFailure::Permutation { .. } => "permutation",
    }
}

impl Check for C02 {
    fn id(&self) -> &'static str {
        "C02"
    }
    fn meta(&self) -> Meta {
        Meta {
            level: "fault_enumeration",
            rule: "one run = one generated circuit and honest assignment (as C01), key generation once, then a list of Byzantine plans, each delivered to the real prover+verifier and to MockProver: no edit; one edited advice cell (sites sampled in quick, walked in thorough; values +1 / 0 / neighbour / random; the edit is not propagated to dependent cells); one edited public-input value; each with a fresh blinding stream. distinct_nontrivial counts distinct (circuit, plan) digests whose edit changed the assignment",
            assumptions: vec![
                "a prover whose create_proof returns an error or panics on a non-satisfying assignment counts as 'rejected'",
                "lint-only checker failures (CellNotAssigned) cannot occur by construction of the family and are harness errors",
                "a random edit hitting another satisfying assignment is handled by the oracle (agreement), not assumed away",
            ],
            components: vec![
                ("keygen / prover / verifier (midnight-proofs)", "real"),
                ("MockProver", "real (the second party of the comparison)"),
                ("rayon", "simulated: deterministic PRNG scheduler"),
                ("SRS ceremony", "stub: fixed secret"),
                ("Byzantine prover", "simulated: explicit assignment table with non-propagating single-cell edits"),
            ],
            expected_probes: vec![
                "rejected.gate",
                "rejected.additive-gate",
                "rejected.lookup",
                "rejected.dyn-table",
                "rejected.copy-advice",
                "rejected.copy-instance",
                "rejected.copy-constant",
                "rejected.copy-fixed",
                "rejected.public-input",
                "rejected.committed-instance",
                "accepted.unused",
                "accepted.none",
            ],
        }
    }
    fn runs(&self, tier: Tier) -> u64 {
        match tier {
            Tier::Quick => 1500,
            Tier::Thorough => 12000,
        }
    }
    fn generate(&self, rng: &mut Prng, tier: Tier, _idx: u64) -> Value {
        let mut base = c01::gen_scn(rng, tier);
        if base.witnesses.len() > 2 {
            base.witnesses.truncate(2);
        }
        let plans = gen_plans(rng, &base, tier);
        serde_json::to_value(Scn { base, plans }).unwrap()
    }
    fn execute(&self, scn: &Value, st: &mut Stats) -> Verdict {
        let s: Scn = match serde_json::from_value(scn.clone()) {
            Ok(s) => s,
            Err(e) => return Verdict::Harness(format!("bad scenario: {e}")),
        };
        run(&s, st)
    }
    fn shrink(&self, scn: &Value, _viol: &Viol) -> Vec<Value> {
        let s: Scn = serde_json::from_value(scn.clone()).unwrap();
        let mut out = vec![];
        // a single plan
        if s.plans.len() > 1 {
            for p in &s.plans {
                out.push(Scn { base: s.base.clone(), plans: vec![p.clone()] });
            }
        }
        for b in c01::shrink_scn(&s.base) {
            // keep plans whose proof index and sites still exist
            let plans: Vec<Plan> = s
                .plans
                .iter()
                .filter(|p| p.proof < b.witnesses.len())
                .filter(|p| match &p.cell {
                    Some(cf) => fault_sites(&b.spec).iter().any(|(s, _)| *s == cf.site)
                        && fault_sites(&b.spec).len() == fault_sites(&s.base.spec).len(),
                    None => true,
                })
                .cloned()
                .collect();
            if !plans.is_empty() {
                out.push(Scn { base: b, plans });
            }
        }
        out.into_iter().map(|s| serde_json::to_value(s).unwrap()).collect()
    }
}

fn run(s: &Scn, st: &mut Stats) -> Verdict {
    let b = &s.base;
    c01::shape_probes(&b.spec, st);
    b.sched_keygen.enter();
    let (vk, pk) = match catch(|| pipeline::keygen(&b.spec)) {
        Ok(Ok(k)) => k,
        Ok(Err(e)) => return Verdict::Harness(format!("keygen failed on a generated circuit: {e:?}")),
        Err(p) => return Verdict::Harness(format!("keygen panicked at {}: {}", p.site(), p.msg)),
    };
    for (pi, plan) in s.plans.iter().enumerate() {
        let mut ws = b.witnesses.clone();
        if let Some(cf) = &plan.cell {
            ws[plan.proof].faults.push(cf.clone());
        }
        if let Some(f) = &plan.inst {
            ws[plan.proof].inst_faults.push(f.clone());
        }
        // the constraint checker
        let mock: Vec<Result<(), Vec<VerifyFailure>>> =
            rayon::sim::isolated(Sched::seq().threads, || {
                ws.iter().map(|w| pipeline::mock(&b.spec, w)).collect()
            });
        let mut mock_classes: Vec<&'static str> = vec![];
        for m in &mock {
            if let Err(fs) = m {
                for f in fs {
                    let c = failure_class(f);
                    if !mock_classes.contains(&c) {
                        mock_classes.push(c);
                    }
                }
            }
        }
        if mock_classes.iter().any(|c| c.starts_with("lint") || *c == "poisoned") {
            return Verdict::Harness(format!(
                "generator bug: checker reports {mock_classes:?} on plan {pi} ({})",
                plan.class
            ));
        }
        let mock_ok = mock_classes.is_empty();
        // the real prover and verifier
        b.sched_prove.enter();
        let rng = Prng::new(plan.blinding_seed, "blinding").chacha("prove");
        let proved = catch(|| pipeline::prove(&pk, &b.spec, &ws, b.nb_committed, b.hash, rng));
        let (real_ok, stage): (bool, String) = match proved {
            Err(p) => {
                st.inc("prover_panicked");
                (false, format!("prover panicked at {}", p.site()))
            }
            Ok((Err(e), log)) => {
                st.events += log.len() as u64;
                st.inc("prover_refused");
                (false, format!("prover error {e:?}"))
            }
            Ok((Ok(proof), log)) => {
                st.events += log.len() as u64;
                let stmts: Vec<_> = ws
                    .iter()
                    .map(|w| pipeline::statement(&vk, b.spec.k, w, b.nb_committed))
                    .collect();
                b.sched_verify.enter();
                match catch(|| pipeline::verify(b.spec.k, &vk, &stmts, &proof, b.hash)) {
                    Err(p) => {
                        return Verdict::Violation(Viol::new(
                            "VerifierPanic",
                            format!("VerifierPanic@{}", p.site_file()),
                            format!("verifier panicked at {} on plan {pi} ({}): {}", p.site(), plan.class, p.msg),
                        ))
                    }
                    Ok((r, vlog)) => {
                        st.events += vlog.len() as u64;
                        (r.is_ok(), format!("verifier {r:?}"))
                    }
                }
            }
        };
        st.inc("deliveries");
        let changed = plan.cell.is_some() || plan.inst.is_some();
        if changed {
            st.fault(&plan.class);
            st.nontrivial(prng::digest(
                format!("{}|{}", serde_json::to_string(&b.spec).unwrap(), serde_json::to_string(plan).unwrap())
                    .as_bytes(),
            ));
        }
        // independent of the checker (which shares the permutation assembly with key
        // generation): one end of a copy constraint moved by a non-zero offset while the
        // other end keeps its value - the copy constraint is violated whatever the checker says
        if real_ok && plan.class.starts_with("copy-") {
            if let Some(c) = &plan.cell {
                if matches!(&c.kind, crate::gen_circuit::FaultKind::Add(d) if d.0 != midnight_curves::Fq::from(0)) {
                    return Verdict::Violation(Viol::new(
                        "CopyConstraintNotEnforced",
                        format!("CopyConstraintNotEnforced:{}", plan.class),
                        format!("plan {pi} class={} edit={:?}: one end of a copy constraint is moved by a non-zero offset and the real verifier accepts the proof (checker: {})", plan.class, (&c.site, &c.kind), if mock_ok { "accepts too" } else { "rejects" }),
                    ));
                }
            }
        }
        if real_ok != mock_ok {
            let side = if real_ok { "verifier-accepts-checker-rejects" } else { "verifier-rejects-checker-accepts" };
            return Verdict::Violation(Viol::new(
                "VerdictMismatch",
                format!("VerdictMismatch:{side}:{}", plan.class),
                format!(
                    "plan {pi} class={} edit={:?}{:?}: real={real_ok} ({stage}) checker={mock_ok} {mock_classes:?}",
                    plan.class,
                    plan.cell.as_ref().map(|c| (&c.site, &c.kind)),
                    plan.inst
                ),
            ));
        }
        if real_ok {
            st.probe(&format!("accepted.{}", plan.class));
        } else {
            st.probe(&format!("rejected.{}", plan.class));
            for c in &mock_classes {
                st.inc(&format!("checker_failure.{c}"));
            }
        }
    }
    Verdict::Pass
}
