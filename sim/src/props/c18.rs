//! C18 - ZKIR: off-circuit evaluation and the compiled circuit agree on every
//! program. Two implementations of one interface (the off-circuit interpreter
//! and the compiled circuit) driven by the same generated program and witness;
//! faults: program corruption (ill-typed / wrong arity / duplicate / missing
//! names), a Byzantine prover on the compiled circuit, storage faults on the
//! JSON and binary forms.
use std::collections::HashMap;

use ff::{Field, PrimeField};
use group::Group;
use midnight_curves::{Fq, Fr as JubjubFr, JubjubSubgroup};
use midnight_proofs::{circuit::Value as CValue, dev::cost_model::dummy_synthesize_run};
use midnight_zk_stdlib::{MidnightCircuit, Relation};
use midnight_zkir::{Instruction, IrValue, ZkirRelation};
use num_bigint::BigUint;
use num_traits::{One, Zero};
use serde::{Deserialize, Serialize};
use serde_json::{json, Value};

use crate::{
    core::{
        fio::{FaultyReader, FaultyWriter, IoPlan},
        prng::{self, Prng},
        runner::{catch, Check, Meta, Tier, Verdict, Viol},
        stats::Stats,
    },
    opcirc::{run_mock, CellEdit, LateEdit, MockVerdict},
    props::opcheck::gen_plans,
    util::{big_to_fq, fq_to_big, uniform_fq, Fe},
};

pub struct C18;

#[derive(Clone, Debug, Serialize, Deserialize, PartialEq)]
pub enum Ty {
    Bool,
    Bytes(usize),
    Native,
    Big(u32),
    Point,
    Scalar,
}

/// A witness value in scenario form.
#[derive(Clone, Debug, Serialize, Deserialize, PartialEq)]
pub enum WVal {
    Bool(bool),
    Bytes(String),
    Native(Fe),
    Big(String),
    /// discrete logarithm of a Jubjub point (0 = identity)
    Point(String),
    /// a Jubjub point by affine coordinates (read back from a circuit)
    PointXY(Fe, Fe),
    Scalar(String),
}

#[derive(Clone, Debug, Serialize, Deserialize, PartialEq)]
pub enum Corruption {
    None,
    /// drop the last input of instruction i (wrong arity)
    DropInput(usize),
    /// replace input j of instruction i by variable `name` of another type
    IllTyped(usize, usize, String),
    /// rename an output of instruction i to an existing name
    Duplicate(usize, String),
    /// use an undefined name as input j of instruction i
    Missing(usize, usize),
    /// drop witness `name`
    MissingWitness(String),
}

#[derive(Clone, Debug, Serialize, Deserialize, PartialEq)]
pub struct Scn {
    /// the program as the JSON text `ZkirRelation::read` parses
    pub program: String,
    pub witness: Vec<(String, WVal)>,
    pub corruption: Corruption,
    pub n_plans: usize,
    pub fault_seed: u64,
    pub io: IoPlan,
    pub only: Option<Vec<Vec<CellEdit>>>,
    #[serde(default)]
    pub only_late: Option<Vec<LateEdit>>,
}

fn leak(s: &str) -> &'static str {
    Box::leak(s.to_string().into_boxed_str())
}

fn jj_order() -> BigUint {
    crate::ops_ecc::jubjub_order()
}
fn to_fr(k: &BigUint) -> JubjubFr {
    let mut b = (k % jj_order()).to_bytes_le();
    b.resize(32, 0);
    JubjubFr::from_repr(b.try_into().unwrap()).unwrap()
}
fn hexbig(s: &str) -> BigUint {
    BigUint::parse_bytes(s.as_bytes(), 16).unwrap_or_default()
}

fn to_ir(v: &WVal) -> IrValue {
    match v {
        WVal::Bool(b) => IrValue::Bool(*b),
        WVal::Bytes(h) => IrValue::Bytes(crate::util::unhex(h)),
        WVal::Native(f) => IrValue::Native(f.0),
        WVal::Big(h) => IrValue::BigUint(hexbig(h)),
        WVal::Point(h) => IrValue::JubjubPoint(JubjubSubgroup::generator() * to_fr(&hexbig(h))),
        WVal::PointXY(x, y) => {
            use group::GroupEncoding;
            let mut b = y.0.to_bytes_le();
            b[31] |= (x.0.to_bytes_le()[0] & 1) << 7;
            IrValue::JubjubPoint(Option::from(JubjubSubgroup::from_bytes(&b)).unwrap_or(JubjubSubgroup::identity()))
        }
        WVal::Scalar(h) => IrValue::JubjubScalar(to_fr(&hexbig(h))),
    }
}

fn witness_map(w: &[(String, WVal)]) -> HashMap<&'static str, IrValue> {
    w.iter().map(|(n, v)| (leak(n), to_ir(v))).collect()
}

// ------------------------------------------------------------------ program generator

struct Gen<'a> {
    rng: &'a mut Prng,
    vars: Vec<(String, Ty)>,
    instrs: Vec<serde_json::Value>,
    witness: Vec<(String, WVal)>,
    next: usize,
    heavy: bool,
    taken: Vec<String>,
    pending_alias: Vec<(String, String)>,
}

impl Gen<'_> {
    fn fresh(&mut self) -> String {
        self.next += 1;
        // some variables bear names that also parse as constants (hexadecimal byte strings,
        // a single bit): name resolution must prefer the variable on both sides
        if self.rng.chance(1, 6) {
            let pool = ["ab", "b0", "c0de", "ff", "00", "dead", "1", "0", "0a0b"];
            let cand = pool[self.rng.usize(pool.len())];
            if !self.vars.iter().any(|v| v.0 == cand) && !self.taken.contains(&cand.to_string()) {
                self.taken.push(cand.to_string());
                return cand.to_string();
            }
        }
        format!("v{}", self.next)
    }
    fn of(&mut self, pred: impl Fn(&Ty) -> bool) -> Option<(String, Ty)> {
        let c: Vec<_> = self.vars.iter().filter(|v| pred(&v.1)).cloned().collect();
        if c.is_empty() {
            None
        } else {
            Some(c[self.rng.usize(c.len())].clone())
        }
    }
    fn push(&mut self, op: serde_json::Value, inputs: Vec<String>, outputs: Vec<(String, Ty)>) {
        let mut o = json!({"op": op});
        if !inputs.is_empty() {
            o["inputs"] = json!(inputs);
        }
        if !outputs.is_empty() {
            o["outputs"] = json!(outputs.iter().map(|x| x.0.clone()).collect::<Vec<_>>());
        }
        self.instrs.push(o);
        self.vars.extend(outputs);
    }
    fn wval(&mut self, t: &Ty) -> WVal {
        let rng = &mut *self.rng;
        match t {
            Ty::Bool => WVal::Bool(rng.chance(1, 2)),
            Ty::Bytes(n) => {
                let mode = rng.below(3);
                WVal::Bytes(crate::util::hex(&(0..*n).map(|_| match mode { 0 => 0u8, 1 => 0xff, _ => rng.below(256) as u8 }).collect::<Vec<_>>()))
            }
            Ty::Native => WVal::Native(Fe(match rng.below(6) {
                0 => Fq::ZERO,
                1 => Fq::ONE,
                2 => -Fq::ONE,
                3 => Fq::from(rng.below(1000)),
                _ => uniform_fq(rng),
            })),
            Ty::Big(nb) => {
                let top = BigUint::one() << *nb;
                let v = match rng.below(5) {
                    0 => BigUint::zero(),
                    1 => BigUint::one(),
                    2 => &top - 1u32, // max of the declared width
                    _ => BigUint::from_bytes_le(&rng.bytes(*nb as usize / 8 + 9)) % &top,
                };
                WVal::Big(v.to_str_radix(16))
            }
            Ty::Point => WVal::Point(match rng.below(4) {
                0 => "0".into(), // identity
                1 => "1".into(),
                _ => (BigUint::from_bytes_le(&rng.bytes(40)) % jj_order()).to_str_radix(16),
            }),
            Ty::Scalar => WVal::Scalar(match rng.below(4) {
                0 => "0".into(),
                1 => (jj_order() - 1u32).to_str_radix(16),
                _ => (BigUint::from_bytes_le(&rng.bytes(40)) % jj_order()).to_str_radix(16),
            }),
        }
    }
    fn ty_json(t: &Ty) -> serde_json::Value {
        match t {
            Ty::Bool => json!("Bool"),
            Ty::Bytes(n) => json!({"Bytes": n}),
            Ty::Native => json!("Native"),
            Ty::Big(n) => json!({"BigUint": n}),
            Ty::Point => json!("JubjubPoint"),
            Ty::Scalar => json!("JubjubScalar"),
        }
    }
    fn load(&mut self, t: Ty, n: usize) {
        let names: Vec<(String, Ty)> = (0..n).map(|_| (self.fresh(), t.clone())).collect();
        let mut prev: Option<WVal> = None;
        let mut alias: Option<(String, String)> = None;
        for (idx, (name, _)) in names.iter().enumerate() {
            let mut v = self.wval(&t);
            // byte arrays that differ by the order of the native field in a 32-byte
            // little-endian chunk: equal once packed into one field element
            if let (Ty::Bytes(nb), Some(WVal::Bytes(p))) = (&t, &prev) {
                if *nb >= 32 && self.rng.chance(1, 2) {
                    let mut a = crate::util::unhex(p);
                    let chunk = self.rng.usize(nb / 32) * 32;
                    let x = BigUint::from(self.rng.below(1 << 20));
                    let r = crate::util::fq_modulus();
                    let k = if self.rng.chance(1, 2) { 1u32 } else { 2 };
                    let (lo, hi) = (x.clone(), &x + &r * k);
                    let put = |a: &mut Vec<u8>, v: &BigUint| {
                        let mut b = v.to_bytes_le();
                        b.resize(32, 0);
                        a[chunk..chunk + 32].copy_from_slice(&b);
                    };
                    let mut b = a.clone();
                    put(&mut a, &lo);
                    put(&mut b, &hi);
                    // rewrite the previous witness and make this one its alias
                    let last = self.witness.len() - 1;
                    self.witness[last].1 = WVal::Bytes(crate::util::hex(&a));
                    v = WVal::Bytes(crate::util::hex(&b));
                    alias = Some((names[idx - 1].0.clone(), name.clone()));
                }
            }
            prev = Some(v.clone());
            self.witness.push((name.clone(), v));
        }
        self.push(json!({"load": Self::ty_json(&t)}), vec![], names);
        // the aliasing pair goes straight into a comparison (emitted right after the loads have
        // been published): the arrays differ, whatever a packed comparison says
        if let Some(pair) = alias {
            self.pending_alias.push(pair);
        }
    }
    fn alias_comparisons(&mut self) {
        for (a, b) in std::mem::take(&mut self.pending_alias) {
            match self.rng.below(4) {
                0 => {
                    let o = self.fresh();
                    self.push(json!("is_equal"), vec![a, b], vec![(o, Ty::Bool)])
                }
                1 | 2 => self.push(json!("assert_equal"), vec![a, b], vec![]),
                _ => self.push(json!("assert_not_equal"), vec![a, b], vec![]),
            }
        }
    }
    fn constant(&mut self, t: &Ty) -> Option<String> {
        let rng = &mut *self.rng;
        Some(match t {
            Ty::Bool => if rng.chance(1, 2) { "1".into() } else { "0".into() },
            Ty::Native => match rng.below(3) {
                0 => "Native:-0x01".into(),
                1 => "Native:0x00".into(),
                _ => format!("Native:0x{:04x}", rng.below(65536)),
            },
            Ty::Big(_) => format!("BigUint:0x{:x}", rng.below(1 << 40)),
            Ty::Point => if rng.chance(1, 2) { "Jubjub:GENERATOR".into() } else { "Jubjub:IDENTITY".into() },
            _ => return None,
        })
    }
    /// an operand of type `t`: a variable, sometimes a constant
    fn operand(&mut self, t: &Ty) -> Option<String> {
        if self.rng.chance(1, 6) {
            if let Some(c) = self.constant(t) {
                return Some(c);
            }
        }
        let tt = t.clone();
        self.of(move |x| match (&tt, x) {
            (Ty::Big(_), Ty::Big(_)) => true,
            (a, b) => a == b,
        })
        .map(|v| v.0)
    }
    fn step(&mut self) {
        let r = self.rng.below(17);
        match r {
            0 | 1 => {
                // arithmetic on natives
                let op = *self.rng.pick(&["add", "sub", "mul"]);
                if let (Some(a), Some(b)) = (self.operand(&Ty::Native), self.operand(&Ty::Native)) {
                    let o = self.fresh();
                    self.push(json!(op), vec![a, b], vec![(o, Ty::Native)]);
                }
            }
            2 | 3 => {
                let op = *self.rng.pick(&["add", "sub", "mul"]);
                let a = self.of(|t| matches!(t, Ty::Big(_)));
                let b = self.of(|t| matches!(t, Ty::Big(_)));
                if let (Some((a, Ty::Big(na))), Some((b, Ty::Big(nb)))) = (a, b) {
                    let bits = match op {
                        "add" => na.max(nb) + 1,
                        "sub" => na,
                        _ => na + nb,
                    };
                    if bits <= 1100 {
                        let o = self.fresh();
                        self.push(json!(op), vec![a, b], vec![(o, Ty::Big(bits))]);
                    }
                }
            }
            4 => {
                // point arithmetic
                let op = *self.rng.pick(&["add", "sub"]);
                if let (Some(a), Some(b)) = (self.operand(&Ty::Point), self.operand(&Ty::Point)) {
                    let o = self.fresh();
                    self.push(json!(op), vec![a, b], vec![(o, Ty::Point)]);
                }
            }
            5 => {
                if let (Some(s), Some(p)) = (self.operand(&Ty::Scalar), self.operand(&Ty::Point)) {
                    let o = self.fresh();
                    self.push(json!("mul"), vec![s, p], vec![(o, Ty::Point)]);
                }
            }
            6 => {
                let t = if self.rng.chance(1, 2) { Ty::Native } else { Ty::Point };
                if let Some(a) = self.operand(&t) {
                    let o = self.fresh();
                    self.push(json!("neg"), vec![a], vec![(o, t)]);
                }
            }
            7 => {
                let a = self.of(|t| matches!(t, Ty::Big(n) if *n <= 256));
                let m = self.of(|t| matches!(t, Ty::Big(n) if *n <= 256));
                if let (Some((a, _)), Some((m, Ty::Big(nm)))) = (a, m) {
                    let n = *self.rng.pick(&[0u64, 1, 2, 3, 5, 17]);
                    let o = self.fresh();
                    self.push(json!({"mod_exp": n}), vec![a, m], vec![(o, Ty::Big(nm))]);
                }
            }
            8 => {
                let m = self.rng.range(1, 3) as usize;
                let native = self.rng.chance(1, 2);
                let (ta, tb, to) = if native { (Ty::Native, Ty::Native, Ty::Native) } else { (Ty::Scalar, Ty::Point, Ty::Point) };
                let xs: Vec<Option<String>> = (0..m).map(|_| self.operand(&ta)).collect();
                let ys: Vec<Option<String>> = (0..m).map(|_| self.operand(&tb)).collect();
                if xs.iter().chain(ys.iter()).all(|x| x.is_some()) {
                    let inputs: Vec<String> = xs.into_iter().chain(ys).map(|x| x.unwrap()).collect();
                    let o = self.fresh();
                    self.push(json!("inner_product"), inputs, vec![(o, to)]);
                }
            }
            9 => {
                if let Some(p) = self.operand(&Ty::Point) {
                    let (x, y) = (self.fresh(), self.fresh());
                    self.push(json!("affine_coordinates"), vec![p], vec![(x, Ty::Native), (y, Ty::Native)]);
                }
            }
            10 => {
                // into_bytes
                match self.rng.below(3) {
                    0 => {
                        if let Some((a, _)) = self.of(|t| *t == Ty::Native) {
                            let n = *self.rng.pick(&[1usize, 8, 16, 31, 32]);
                            let o = self.fresh();
                            self.push(json!({"into_bytes": n}), vec![a], vec![(o, Ty::Bytes(n))]);
                        }
                    }
                    1 => {
                        if let Some((a, Ty::Big(nb))) = self.of(|t| matches!(t, Ty::Big(n) if *n <= 600)) {
                            let min = (nb as usize).div_ceil(8);
                            let n = match self.rng.below(4) {
                                0 => min,
                                1 => min + 1,
                                // wider than the limbs hold
                                2 => min + 13 + self.rng.usize(20),
                                _ => min.saturating_sub(1).max(1),
                            };
                            let o = self.fresh();
                            self.push(json!({"into_bytes": n}), vec![a], vec![(o, Ty::Bytes(n))]);
                        }
                    }
                    _ => {
                        if let Some((a, _)) = self.of(|t| *t == Ty::Point) {
                            let o = self.fresh();
                            self.push(json!({"into_bytes": 32}), vec![a], vec![(o, Ty::Bytes(32))]);
                        }
                    }
                }
            }
            11 => {
                if let Some((a, Ty::Bytes(n))) = self.of(|t| matches!(t, Ty::Bytes(_))) {
                    let o = self.fresh();
                    match self.rng.below(4) {
                        0 => self.push(json!({"from_bytes": "Native"}), vec![a], vec![(o, Ty::Native)]),
                        1 => {
                            let nb = (8 * n as u32).max(1) + *self.rng.pick(&[0u32, 0, 1, 8]);
                            self.push(json!({"from_bytes": {"BigUint": nb}}), vec![a], vec![(o, Ty::Big(nb))])
                        }
                        2 => self.push(json!({"from_bytes": "JubjubScalar"}), vec![a], vec![(o, Ty::Scalar)]),
                        _ => {
                            if n == 32 {
                                self.push(json!({"from_bytes": "JubjubPoint"}), vec![a], vec![(o, Ty::Point)])
                            }
                        }
                    }
                }
            }
            12 => {
                let m = self.rng.range(1, 4) as usize;
                let xs: Vec<Option<String>> = (0..m).map(|_| self.operand(&Ty::Native)).collect();
                if xs.iter().all(|x| x.is_some()) {
                    let o = self.fresh();
                    self.push(json!("poseidon"), xs.into_iter().map(|x| x.unwrap()).collect(), vec![(o, Ty::Native)]);
                }
            }
            13 => {
                if self.heavy {
                    if let Some((a, _)) = self.of(|t| matches!(t, Ty::Bytes(n) if *n <= 70)) {
                        let o = self.fresh();
                        if self.rng.chance(1, 2) {
                            self.push(json!("sha256"), vec![a], vec![(o, Ty::Bytes(32))]);
                        } else {
                            self.push(json!("sha512"), vec![a], vec![(o, Ty::Bytes(64))]);
                        }
                    }
                }
            }
            14 => {
                // equality test / assertions between values of the same type
                if let Some((a, t)) = self.of(|_| true) {
                    let tt = t.clone();
                    let b = if self.rng.chance(1, 2) { Some(a.clone()) } else { self.of(move |x| *x == tt).map(|v| v.0) };
                    if let Some(b) = b {
                        match self.rng.below(4) {
                            0 | 1 => {
                                let o = self.fresh();
                                self.push(json!("is_equal"), vec![a, b], vec![(o, Ty::Bool)])
                            }
                            2 => self.push(json!("assert_equal"), vec![a, b], vec![]),
                            _ => self.push(json!("assert_not_equal"), vec![a, b], vec![]),
                        }
                    }
                }
            }
            _ => {
                // publish a few values
                let m = self.rng.range(1, 3) as usize;
                let xs: Vec<String> = (0..m).filter_map(|_| self.of(|_| true).map(|v| v.0)).collect();
                if !xs.is_empty() {
                    self.push(json!("publish"), xs, vec![]);
                }
            }
        }
    }
}

pub fn gen_program(rng: &mut Prng, heavy: bool) -> (String, Vec<(String, WVal)>, Vec<(String, Ty)>) {
    let mut g = Gen { rng, vars: vec![], instrs: vec![], witness: vec![], next: 0, heavy, taken: vec![], pending_alias: vec![] };
    // loads of a few types
    let n_loads = g.rng.range(1, 4);
    for _ in 0..n_loads {
        let t = match g.rng.below(8) {
            0 => Ty::Bool,
            1 => Ty::Bytes(*g.rng.pick(&[0usize, 1, 2, 31, 32, 33, 55, 64, 70])),
            2 | 3 => Ty::Native,
            4 => Ty::Big(*g.rng.pick(&[1u32, 8, 12, 17, 20, 33, 64, 96, 97, 128, 255, 256, 512])),
            5 => Ty::Point,
            6 => Ty::Scalar,
            _ => Ty::Native,
        };
        let n = if matches!(t, Ty::Bytes(nb) if nb >= 32) { 2 } else { g.rng.range(1, 2) as usize };
        g.load(t, n);
    }
    // publish every loaded value first: the loads become part of the statement,
    // so that a Byzantine execution is judged on the loads the circuit binds
    let loaded: Vec<String> = g.vars.iter().map(|v| v.0.clone()).collect();
    g.push(json!("publish"), loaded, vec![]);
    g.alias_comparisons();
    let n_steps = g.rng.range(1, 22);
    for _ in 0..n_steps {
        g.step();
    }
    // publish the last few values
    let tail: Vec<String> = g.vars.iter().rev().take(3).map(|v| v.0.clone()).collect();
    if !tail.is_empty() {
        g.push(json!("publish"), tail, vec![]);
    }
    let program = json!({"version": {"major": 3, "minor": 0}, "instructions": g.instrs});
    (serde_json::to_string(&program).unwrap(), g.witness, g.vars)
}

fn corrupt(program: &str, c: &Corruption) -> String {
    let mut p: serde_json::Value = serde_json::from_str(program).unwrap();
    let ins = p["instructions"].as_array_mut().unwrap();
    match c {
        Corruption::None | Corruption::MissingWitness(_) => {}
        Corruption::DropInput(i) => {
            if let Some(a) = ins.get_mut(*i).and_then(|x| x.get_mut("inputs")).and_then(|x| x.as_array_mut()) {
                a.pop();
            }
        }
        Corruption::IllTyped(i, j, name) => {
            if let Some(a) = ins.get_mut(*i).and_then(|x| x.get_mut("inputs")).and_then(|x| x.as_array_mut()) {
                if let Some(x) = a.get_mut(*j) {
                    *x = json!(name);
                }
            }
        }
        Corruption::Duplicate(i, name) => {
            if let Some(a) = ins.get_mut(*i).and_then(|x| x.get_mut("outputs")).and_then(|x| x.as_array_mut()) {
                if let Some(x) = a.get_mut(0) {
                    *x = json!(name);
                }
            }
        }
        Corruption::Missing(i, j) => {
            if let Some(a) = ins.get_mut(*i).and_then(|x| x.get_mut("inputs")).and_then(|x| x.as_array_mut()) {
                if let Some(x) = a.get_mut(*j) {
                    *x = json!("undefined_name");
                }
            }
        }
    }
    serde_json::to_string(&p).unwrap()
}

// ------------------------------------------------------------------ decoding the loads a circuit binds

fn load_types(program: &str) -> Vec<(String, Ty)> {
    let p: serde_json::Value = serde_json::from_str(program).unwrap();
    let mut out = vec![];
    for i in p["instructions"].as_array().unwrap() {
        if let Some(t) = i["op"].get("load") {
            let ty = match t {
                serde_json::Value::String(s) => match s.as_str() {
                    "Bool" => Ty::Bool,
                    "Native" => Ty::Native,
                    "JubjubPoint" => Ty::Point,
                    _ => Ty::Scalar,
                },
                o => {
                    if let Some(n) = o.get("Bytes") {
                        Ty::Bytes(n.as_u64().unwrap() as usize)
                    } else {
                        Ty::Big(o["BigUint"].as_u64().unwrap() as u32)
                    }
                }
            };
            for n in i["outputs"].as_array().unwrap() {
                out.push((n.as_str().unwrap().to_string(), ty.clone()));
            }
        }
    }
    out
}

/// Reads the loaded values back from the leading public inputs. Err: a load
/// outside its type's domain is bound (the circuit should be unsatisfiable).
fn decode_loads(tys: &[(String, Ty)], pi: &[Fq]) -> Result<(Vec<(String, WVal)>, usize), String> {
    let mut pos = 0;
    let mut out = vec![];
    let mut take = |n: usize| -> Result<Vec<Fq>, String> {
        if pos + n > pi.len() {
            return Err("too few public inputs".into());
        }
        let v = pi[pos..pos + n].to_vec();
        pos += n;
        Ok(v)
    };
    let lb = crate::ops_ff::big_log2_base();
    for (name, t) in tys {
        let v = match t {
            Ty::Bool => {
                let x = take(1)?[0];
                if x != Fq::ZERO && x != Fq::ONE {
                    return Err(format!("load {name}: a Bool bound to a non-bit"));
                }
                WVal::Bool(x == Fq::ONE)
            }
            Ty::Bytes(n) => {
                let xs = take(*n)?;
                if xs.iter().any(|b| fq_to_big(b).bits() > 8) {
                    return Err(format!("load {name}: a byte bound to a value above 255"));
                }
                WVal::Bytes(crate::util::hex(&xs.iter().map(|b| b.to_bytes_le()[0]).collect::<Vec<_>>()))
            }
            Ty::Native => WVal::Native(Fe(take(1)?[0])),
            Ty::Big(nb) => {
                let nl = (*nb).max(1).div_ceil(lb) as usize;
                let xs = take(nl)?;
                let mut v = BigUint::zero();
                for (i, l) in xs.iter().enumerate() {
                    let li = fq_to_big(l);
                    if li.bits() > lb as u64 {
                        return Err(format!("load {name}: limb {i} above the base"));
                    }
                    v += li << (lb * i as u32);
                }
                if v.bits() > *nb as u64 {
                    return Err(format!("load {name}: a BigUint({nb}) bound to a value of {} bits", v.bits()));
                }
                WVal::Big(v.to_str_radix(16))
            }
            Ty::Point => {
                let xs = take(2)?;
                let m = crate::ops_ecc::jubjub_model();
                let p = (fq_to_big(&xs[0]), fq_to_big(&xs[1]));
                if !m.on_curve(&p) || m.mul(&jj_order(), &p) != m.identity() {
                    return Err(format!("load {name}: a point off the curve or outside the subgroup"));
                }
                WVal::PointXY(Fe(xs[0]), Fe(xs[1]))
            }
            Ty::Scalar => {
                let x = fq_to_big(&take(1)?[0]);
                if x >= jj_order() {
                    // not the encoding of any scalar: no verifier derives this
                    // instance from a statement, nothing to judge
                    return Err("NONCANONICAL-SCALAR".into());
                }
                WVal::Scalar(x.to_str_radix(16))
            }
        };
        out.push((name.clone(), v));
    }
    Ok((out, pos))
}

// ------------------------------------------------------------------ the check

impl Check for C18 {
    fn id(&self) -> &'static str {
        "C18"
    }
    fn meta(&self) -> Meta {
        Meta {
            level: "exploration",
            rule: "one run = one generated straight-line IR program (1..25 instructions over all 17 operations and 6 value types, dataflow reuse, constants, every load published first, results published last) with a boundary-class witness, given to the off-circuit interpreter and to the compiled circuit: success with published values P requires the circuit to be satisfiable with exactly format_instance(P) (the instance is read off the copy constraints), failure (assertion, range, underflow, encoding) requires it not to be satisfiable, and neither side may panic. Faults: (a) program corruption - wrong arity, ill-typed operand, duplicate name, missing name, missing witness - both sides must answer with an error value; (b) Byzantine prover on the compiled circuit - an accepted execution must publish what the interpreter computes from the loads the circuit binds; (c) storage - the binary form written and read through faulty writers / readers must re-encode identically and decode to the instructions of the JSON form. distinct_nontrivial counts distinct program digests plus (program, plan) digests whose plan fired",
            assumptions: vec![
                "the off-circuit interpreter is one of the two systems under test; the harness adds no third evaluator (hash and arithmetic gadgets are compared with independent references under C04-C07)",
                "SHA-256 / SHA-512 instructions only in every 8th program (large circuits)",
            ],
            components: vec![
                ("zkir off-circuit interpreter, in-circuit parser, ZkirRelation (de)serialisation", "real"),
                ("constraint satisfaction", "MockProver"),
                ("disk", "simulated: short / interrupted transfers"),
            ],
            expected_probes: vec![
                "offcircuit_ok_circuit_satisfied",
                "offcircuit_error_circuit_unsatisfiable",
                "corruption_rejected_by_both",
                "byzantine_cell",
                "binary_round_trip",
            ],
        }
    }
    fn runs(&self, tier: Tier) -> u64 {
        match tier {
            Tier::Quick => 700,
            Tier::Thorough => 12000,
        }
    }
    fn generate(&self, rng: &mut Prng, tier: Tier, idx: u64) -> Value {
        let (program, witness, vars) = gen_program(rng, idx % 8 == 7);
        let n_ins = serde_json::from_str::<serde_json::Value>(&program).unwrap()["instructions"].as_array().unwrap().len();
        let corruption = if rng.chance(1, 4) && n_ins > 2 {
            let i = 2 + rng.usize(n_ins - 2);
            match rng.below(5) {
                0 => Corruption::DropInput(i),
                1 => {
                    let v = &vars[rng.usize(vars.len())];
                    Corruption::IllTyped(i, rng.usize(2), v.0.clone())
                }
                2 => Corruption::Duplicate(i, vars[0].0.clone()),
                3 => Corruption::Missing(i, rng.usize(2)),
                _ => Corruption::MissingWitness(witness[rng.usize(witness.len())].0.clone()),
            }
        } else {
            Corruption::None
        };
        let scn = Scn {
            program,
            witness,
            corruption,
            n_plans: if tier == Tier::Quick { 3 } else { 8 },
            fault_seed: rng.u64(),
            io: IoPlan::benign(rng),
            only: None,
            only_late: None,
        };
        serde_json::to_value(scn).unwrap()
    }
    fn execute(&self, scn: &Value, st: &mut Stats) -> Verdict {
        let s: Scn = match serde_json::from_value(scn.clone()) {
            Ok(s) => s,
            Err(e) => return Verdict::Harness(format!("bad scenario: {e}")),
        };
        run(&s, st)
    }
    fn shrink(&self, scn: &Value, viol: &Viol) -> Vec<Value> {
        let s: Scn = serde_json::from_value(scn.clone()).unwrap();
        let mut out = vec![];
        if let Some(h) = &viol.hint {
            if let Ok(plan) = serde_json::from_value::<Vec<CellEdit>>(h.clone()) {
                out.push(Scn { only: Some(vec![plan]), only_late: Some(vec![]), ..s.clone() });
            } else if let Some(le) = h.get("late").and_then(|l| serde_json::from_value::<LateEdit>(l.clone()).ok()) {
                out.push(Scn { only: Some(vec![]), only_late: Some(vec![le]), ..s.clone() });
            }
        } else if s.only.is_none() {
            out.push(Scn { only: Some(vec![]), only_late: Some(vec![]), ..s.clone() });
        }
        // drop instructions from the end (keeping loads and their publish)
        let p: serde_json::Value = serde_json::from_str(&s.program).unwrap();
        let n = p["instructions"].as_array().unwrap().len();
        if n > 3 && s.corruption == Corruption::None {
            let mut q = p.clone();
            q["instructions"].as_array_mut().unwrap().pop();
            out.push(Scn { program: serde_json::to_string(&q).unwrap(), ..s.clone() });
        }
        out.into_iter().map(|s| serde_json::to_value(s).unwrap()).collect()
    }
}

fn defining<'a>(ins: &'a [serde_json::Value], name: &str) -> Option<&'a serde_json::Value> {
    ins.iter().find(|j| j.get("outputs").and_then(|o| o.as_array()).is_some_and(|o| o.iter().any(|x| x.as_str() == Some(name))))
}

/// Length in bytes of a value of type Bytes named `name`, from its producer.
fn byte_len(ins: &[serde_json::Value], name: &str) -> Option<usize> {
    match defining(ins, name) {
        None => Some(name.len() / 2), // a hexadecimal constant
        Some(j) => {
            let op = &j["op"];
            if let Some(n) = op.get("load").and_then(|t| t.get("Bytes")) {
                n.as_u64().map(|n| n as usize)
            } else if let Some(n) = op.get("into_bytes") {
                n.as_u64().map(|n| n as usize)
            } else if op == &json!("sha256") {
                Some(32)
            } else if op == &json!("sha512") {
                Some(64)
            } else {
                None
            }
        }
    }
}

/// "<op>" of the instruction defining `name`; for from_bytes, the class of
/// the input length is appended.
fn producer_sig(ins: &[serde_json::Value], name: &str) -> String {
    match defining(ins, name) {
        None => "const".into(),
        Some(j) => {
            let op = j["op"].to_string().replace('"', "");
            if j["op"].get("from_bytes").is_some() {
                let n = j["inputs"][0].as_str().and_then(|i| byte_len(ins, i));
                let class = match n {
                    Some(n) if n >= 32 => ">=32 bytes",
                    Some(0) => "0 bytes",
                    Some(_) => "1..31 bytes",
                    None => "? bytes",
                };
                format!("{op}({class})")
            } else {
                op
            }
        }
    }
}

/// Which published value do the two sides disagree on? Each published name is
/// published alone (all other publish instructions removed) and both sides are
/// run again; the first name on which they differ is reported by its producer.
fn attribute(text: &str, wit: &[(String, WVal)]) -> String {
    let prog: serde_json::Value = serde_json::from_str(text).unwrap();
    let ins = prog["instructions"].as_array().unwrap().clone();
    let mut names: Vec<String> = vec![];
    for i in ins.iter().filter(|i| i["op"] == json!("publish")) {
        for n in i["inputs"].as_array().unwrap() {
            let n = n.as_str().unwrap().to_string();
            if !names.contains(&n) {
                names.push(n);
            }
        }
    }
    let rest: Vec<serde_json::Value> = ins.iter().filter(|i| i["op"] != json!("publish")).cloned().collect();
    for name in &names {
        let mut q = rest.clone();
        q.push(json!({"op": "publish", "inputs": [name]}));
        let t = serde_json::to_string(&json!({"version": {"major": 3, "minor": 0}, "instructions": q})).unwrap();
        let differs = catch(|| {
            let rel = ZkirRelation::read(leak(&t)).ok()?;
            let p = rel.public_inputs(witness_map(wit)).ok()?;
            let expect = ZkirRelation::format_instance(&p).ok()?;
            let k = rayon::sim::isolated(1, || MidnightCircuit::from_relation(&rel).min_k());
            let m = run_mock(k, &MidnightCircuit::new(&rel, CValue::known(vec![]), CValue::known(witness_map(wit)), None), &[], false);
            Some((m.verdict != MockVerdict::Accept || m.bound_plain != expect, format!("{:?}", p[0].1)))
        });
        if let Ok(Some((true, ty))) = differs {
            return format!("{ty}<-{}", producer_sig(&ins, name));
        }
    }
    "no-single-value".into()
}

fn vio(class: &str, what: &str, detail: String) -> Verdict {
    Verdict::Violation(Viol::new(class, format!("{class}:{what}"), detail))
}

fn run(s: &Scn, st: &mut Stats) -> Verdict {
    let text = corrupt(&s.program, &s.corruption);
    let corrupted = s.corruption != Corruption::None;
    let mut wit = s.witness.clone();
    if let Corruption::MissingWitness(n) = &s.corruption {
        wit.retain(|w| w.0 != *n);
    }
    // ---- the same program delivered in binary form must get the same answer as in JSON form
    let json_read = catch(|| ZkirRelation::read(leak(&text)).is_ok());
    if let Ok(ins) = serde_json::from_value::<Vec<Instruction>>(serde_json::from_str::<serde_json::Value>(&text).unwrap()["instructions"].clone()) {
        if let Ok(bytes) = bincode::encode_to_vec(&ins, bincode::config::standard()) {
            let bin_read = catch(|| ZkirRelation::read_relation(&mut &bytes[..]).is_ok());
            match (&json_read, &bin_read) {
                (_, Err(p)) => return vio("Panic", &format!("read_relation@{}", p.site_file()), format!("read_relation panicked at {} ({:?}): {}", p.site(), s.corruption, p.msg)),
                (Ok(j), Ok(b)) if j != b => {
                    return vio("SidesDisagree", "json-vs-binary-acceptance", format!("program ({:?}): ZkirRelation::read gives {} on the JSON form, read_relation gives {} on the binary form of the same instructions", s.corruption, if *j { "Ok" } else { "Err" }, if *b { "Ok" } else { "Err" }))
                }
                _ => st.inc("binary_delivery_agrees_with_json"),
            }
        }
    }
    // ---- decode (JSON)
    let rel = match catch(|| ZkirRelation::read(leak(&text))) {
        Err(p) => return vio("Panic", &format!("read@{}", p.site_file()), format!("ZkirRelation::read panicked at {}: {}", p.site(), p.msg)),
        Ok(Err(e)) => {
            if corrupted {
                st.probe("corruption_rejected_by_both");
                st.inc("corruption.rejected_at_read");
                return Verdict::Pass;
            }
            return Verdict::Harness(format!("generated program does not parse: {e:?}"));
        }
        Ok(Ok(r)) => r,
    };
    let pd = prng::digest(text.as_bytes());
    st.nontrivial(pd);
    // ---- off-circuit interpreter
    let off = match catch(|| rel.public_inputs(witness_map(&wit))) {
        Err(p) => {
            return vio("OffCircuitPanic", &p.site_file(), format!("off-circuit evaluation panicked at {} ({:?}): {}", p.site(), s.corruption, p.msg))
        }
        Ok(r) => r,
    };
    st.events += 1;
    // ---- compiled circuit: the program alone (no witness)
    let compile = catch(|| {
        rayon::sim::isolated(1, || dummy_synthesize_run(&MidnightCircuit::new(&rel, CValue::unknown(), CValue::unknown(), Some(8))))
    });
    match compile {
        Err(p) => {
            return vio("CompilePanic", &p.site_file(), format!("compiling the program ({:?}) panicked at {}: {}; off-circuit evaluation gave {}", s.corruption, p.site(), p.msg, if off.is_ok() { "Ok" } else { "Err" }))
        }
        Ok(Err(e)) => {
            // the circuit side rejects the program with an error value
            return match &off {
                Err(_) => {
                    st.probe(if corrupted { "corruption_rejected_by_both" } else { "generated_program_rejected_by_both" });
                    Verdict::Pass
                }
                Ok(_) => vio("SidesDisagree", "program-rejected-in-circuit-only", format!("the circuit side rejects the program ({:?}) with {e:?} but off-circuit evaluation succeeds", s.corruption)),
            };
        }
        Ok(Ok(())) => {}
    }
    let k = match catch(|| rayon::sim::isolated(1, || MidnightCircuit::from_relation(&rel).min_k())) {
        Ok(k) => k,
        Err(p) => return vio("CompilePanic", &format!("min_k@{}", p.site_file()), format!("the cost model panicked at {} on a program that synthesizes: {}", p.site(), p.msg)),
    };
    if k > 13 {
        st.inc("skipped_large_k");
        return Verdict::Pass;
    }
    let known = || MidnightCircuit::new(&rel, CValue::known(vec![]), CValue::known(witness_map(&wit)), None);
    if corrupted {
        st.inc("corruption.program_still_compiles");
    }
    let honest = run_mock(k, &known(), &[], true);
    st.events += honest.assignments as u64;
    match &off {
        Ok(p) => {
            let expect = match ZkirRelation::format_instance(p) {
                Ok(e) => e,
                Err(e) => return vio("FormatInstanceFailed", "format_instance", format!("format_instance failed on the interpreter's own output: {e:?}")),
            };
            match &honest.verdict {
                MockVerdict::Accept => {
                    if honest.bound_plain != expect {
                        return vio(
                            "SidesDisagree",
                            &format!("published-values:{}", attribute(&text, &wit)),
                            format!("off-circuit evaluation publishes {} values, the circuit binds {} values; first difference at {:?}", expect.len(), honest.bound_plain.len(), honest.bound_plain.iter().zip(&expect).position(|(a, b)| a != b)),
                        );
                    }
                    st.probe("offcircuit_ok_circuit_satisfied");
                }
                v => return vio("SidesDisagree", "offcircuit-ok:circuit-unsatisfiable", format!("off-circuit evaluation succeeds but the compiled circuit is not satisfiable with the honest witness: {v:?}")),
            }
        }
        Err(e) => {
            if honest.verdict == MockVerdict::Accept {
                return vio("SidesDisagree", "offcircuit-err:circuit-satisfied", format!("off-circuit evaluation fails with {e:?} but the compiled circuit is satisfied"));
            }
            if let (true, MockVerdict::Panic(m)) = (matches!(s.corruption, Corruption::MissingWitness(_)), &honest.verdict) {
                return vio("CompilePanic", "ill-formed-witness", format!("an ill-formed witness ({:?}) makes the circuit side panic instead of returning an error: {m}", s.corruption));
            }
            st.probe(if corrupted { "corruption_rejected_by_both" } else { "offcircuit_error_circuit_unsatisfiable" });
        }
    }
    // ---- storage: binary round trip through faulty I/O, against the JSON form
    {
        let mut w = FaultyWriter::new(&s.io);
        if let Err(e) = rel.write_relation(&mut w) {
            return vio("RoundTrip", "write", format!("write_relation failed under short writes / EINTR: {e}"));
        }
        let bytes = w.out;
        let mut r = FaultyReader::new(&bytes, &s.io);
        match catch(|| ZkirRelation::read_relation(&mut r)) {
            Err(p) => return vio("Panic", &format!("read_relation@{}", p.site_file()), format!("read_relation panicked at {}: {}", p.site(), p.msg)),
            Ok(Err(e)) => return vio("RoundTrip", "read", format!("read_relation cannot read what write_relation wrote: {e}")),
            Ok(Ok(rel2)) => {
                let mut again = vec![];
                rel2.write_relation(&mut again).unwrap();
                if again != bytes {
                    return vio("RoundTrip", "re-encode", "the binary form changes across a write / read / write round trip".into());
                }
                let from_bin: Result<(Vec<Instruction>, usize), _> = bincode::decode_from_slice(&bytes, bincode::config::standard());
                let from_json: Vec<Instruction> = serde_json::from_value(serde_json::from_str::<serde_json::Value>(&text).unwrap()["instructions"].clone()).unwrap_or_default();
                match from_bin {
                    Ok((ins, _)) if ins == from_json => st.probe("binary_round_trip"),
                    Ok(_) => return vio("RoundTrip", "json-vs-binary", "the binary form decodes to other instructions than the JSON form".into()),
                    Err(e) => return vio("RoundTrip", "binary-decode", format!("the binary form does not decode as a list of instructions: {e}")),
                }
                st.add("fault.short_read", r.counts.short);
                st.add("fault.interrupted_read", r.counts.interrupted);
            }
        }
    }
    // ---- Byzantine prover on the compiled circuit
    if corrupted || off.is_err() || honest.verdict != MockVerdict::Accept {
        return Verdict::Pass;
    }
    let tys = load_types(&s.program);
    let plans = match &s.only {
        Some(p) => p.clone(),
        None => gen_plans(&mut Prng::new(s.fault_seed, "faults"), &honest.trace, s.n_plans),
    };
    // judges the public inputs an accepted Byzantine execution binds; the counters are returned as labels
    let judge = |what: &str, bound: &[Fq]| -> Result<&'static str, Viol> {
        match decode_loads(&tys, bound) {
            Err(e) if e == "NONCANONICAL-SCALAR" => Ok("byzantine_noncanonical_scalar_instance"),
            Err(e) => Err(Viol::new("Unsound", "Unsound:inadmissible-load", format!("with {what} the circuit is satisfied although {e}"))),
            Ok((loads, _)) => match catch(|| rel.public_inputs(witness_map(&loads))) {
                Ok(Ok(p2)) => {
                    let e2 = ZkirRelation::format_instance(&p2).unwrap_or_default();
                    if e2 != bound {
                        if std::env::var("ZKSIM_DEBUG_C18").is_ok() {
                            let pos = e2.iter().zip(bound).position(|(a, b)| a != b);
                            eprintln!("C18 debug: lens {} {} pos {:?} interp {:?} bound {:?}", e2.len(), bound.len(), pos, pos.map(|p| Fe(e2[p])), pos.map(|p| Fe(bound[p])));
                            eprintln!("C18 debug: honest bound {:?}", honest.bound_plain.get(pos.unwrap_or(0)).map(|x| Fe(*x)));
                        }
                        return Err(Viol::new(
                            "Unsound",
                            "Unsound:published-values",
                            format!("with {what} the circuit is satisfied with public inputs that differ from what the interpreter computes from the loads it binds (first difference at {:?})", e2.iter().zip(bound).position(|(a, b)| a != b)),
                        ));
                    }
                    Ok("byzantine_accepted_consistent")
                }
                Ok(Err(e)) => Err(Viol::new("Unsound", "Unsound:interpreter-rejects", format!("with {what} the circuit is satisfied, but the interpreter fails on the loads it binds: {e:?}"))),
                Err(_) => Ok("byzantine_interpreter_panicked"),
            },
        }
    };
    for plan in &plans {
        let r = run_mock(k, &known(), plan, false);
        if r.fired == 0 {
            continue;
        }
        st.fault("byzantine_cell");
        st.nontrivial(prng::digest(format!("{pd}|{}", serde_json::to_string(plan).unwrap()).as_bytes()));
        if r.verdict != MockVerdict::Accept {
            st.inc("byzantine_rejected");
            continue;
        }
        match judge(&format!("the Byzantine edit {plan:?}"), &r.bound_plain) {
            Ok(label) => st.inc(label),
            Err(v) => return Verdict::Violation(v.with_hint(serde_json::to_value(plan).unwrap())),
        }
    }
    // late edits: a value substituted on a whole copy cycle after honest witness generation
    let lates: Vec<LateEdit> = match (&s.only_late, &s.only) {
        (Some(l), _) => l.clone(),
        (None, Some(_)) => vec![],
        (None, None) => crate::props::opcheck::gen_lates(&mut Prng::new(s.fault_seed, "late"), honest.prover.as_ref(), &honest.trace, 4 * s.n_plans),
    };
    let mut labels: Vec<&'static str> = vec![];
    let r = crate::props::opcheck::late_stage(k, &known, &lates, s.fault_seed, &format!("{pd}"), st, &mut |le, n_cycle, made, bp| {
        match judge(&format!("advice cell (column {}, row {}) and its copy cycle ({n_cycle} cells) replaced by {:?} after honest witness generation{}", le.col, le.row, le.val, if made > 0 { format!(" and {made} local repair(s)") } else { String::new() }), bp) {
            Ok(label) => {
                labels.push(label);
                None
            }
            Err(v) => Some(v),
        }
    });
    for l in labels {
        st.inc(l);
    }
    if let Some(v) = r {
        return Verdict::Violation(v);
    }
    if st.samples.is_empty() {
        st.sample(0, json!({"program": serde_json::from_str::<serde_json::Value>(&text).unwrap(), "k": k, "off_circuit_ok": off.is_ok()}));
    }
    let _ = big_to_fq(&BigUint::zero());
    Verdict::Pass
}
