//! C05 - foreign-field and big-integer gadgets are complete and sound.
use serde_json::Value;

use super::opcheck::{self, Scn};
use crate::{
    core::{
        prng::Prng,
        runner::{Check, Meta, Tier, Verdict, Viol},
        stats::Stats,
    },
    ops, ops_ff,
};

pub struct C05;

fn op_list() -> Vec<String> {
    let mut v = ops_ff::ff_ops();
    v.extend(ops_ff::big_ops());
    crate::ops::dev_filter(v)
}

impl Check for C05 {
    fn id(&self) -> &'static str {
        "C05"
    }
    fn meta(&self) -> Meta {
        Meta {
            level: "exploration",
            rule: "one run = one emulated-field operation (secp256k1 base and scalar field, BLS12-381 base field over the BLS12-381 scalar field: add, sub, mul, div, neg, inv, square, constants, pow, equality / zero tests, assertions, select, canonical bit decomposition, bit / byte conversion, and chains that leave elements un-normalised before the next operation) or one BigUint operation (add, sub, mul, div_rem, mod_exp, lower_than, equality, select, bit / byte conversions; widths 1..2048 bits) on boundary-class operands (0, 1, m-1, m-2, all-ones limbs, values near the limb base, random), executed honestly and under Byzantine plans (1..3 faulted assignments incl. +-1, +-2^j on limbs, neighbour values, with honest continuation, then up to 3 re-solved hint cells). Public values are published in marker-delimited groups and decoded by the harness: published representations must be reduced and limb-bounded, and must satisfy the operation modulo m. distinct_nontrivial counts distinct honest cases plus (case, plan) digests whose plan fired",
            assumptions: vec![
                "MockProver is the constraint model (cross-checked by C02)",
                "Curve25519 field parameter sets are not reachable through ZkStdLib and are not covered",
                "sampling of fault sites; every assignment ordinal only in every 4th thorough case",
            ],
            components: vec![
                ("FieldChip (foreign), BigUintGadget, native gadget, ZkStdLib wiring", "real"),
                ("witness generation", "real, perturbed by hook H1"),
                ("constraint satisfaction", "MockProver"),
                ("reference semantics", "harness: num-bigint modular arithmetic, harness-side limb decoder"),
            ],
            expected_probes: vec!["byzantine_cell", "byzantine_repair", "inadmissible_input_rejected"],
        }
    }
    fn runs(&self, tier: Tier) -> u64 {
        match tier {
            Tier::Quick => 800,
            Tier::Thorough => 3200,
        }
    }
    fn generate(&self, rng: &mut Prng, tier: Tier, idx: u64) -> Value {
        let all = op_list();
        let op = &all[(idx as usize) % all.len()];
        let case = ops::gen_case(rng, op);
        let n_plans = match tier {
            Tier::Quick => 5,
            Tier::Thorough => {
                if idx % 16 == 0 {
                    0
                } else {
                    16
                }
            }
        };
        opcheck::to_json(&Scn { case, fault_seed: rng.u64(), n_plans, only: None, only_late: None })
    }
    fn execute(&self, scn: &Value, st: &mut Stats) -> Verdict {
        let s: Scn = match serde_json::from_value(scn.clone()) {
            Ok(s) => s,
            Err(e) => return Verdict::Harness(format!("bad scenario: {e}")),
        };
        opcheck::run(&s, st, true)
    }
    fn shrink(&self, scn: &Value, viol: &Viol) -> Vec<Value> {
        let s: Scn = serde_json::from_value(scn.clone()).unwrap();
        opcheck::shrink(&s, viol).iter().map(opcheck::to_json).collect()
    }
}
