//! C04 - native-field gadgets are complete and sound w.r.t. their
//! mathematical meaning. Operation registry over `ZkStdLib` with a Byzantine
//! prover and a configuration swarm (pow2range columns 1..4, table sizes).
use serde_json::Value;

use super::opcheck::{self, Scn};
use crate::{
    core::{
        prng::Prng,
        runner::{Check, Meta, Tier, Verdict, Viol},
        stats::Stats,
    },
    ops::{gen_native_case, NATIVE_OPS},
    ops_ng::NG_OPS,
};

pub struct C04;

impl Check for C04 {
    fn id(&self) -> &'static str {
        "C04"
    }
    fn meta(&self) -> Meta {
        Meta {
            level: "exploration",
            rule: "one run = one native-field operation of the instruction traits (arithmetic, assertions, zero / equality tests, boolean logic, bitwise, bit / byte / chunk (de)composition, canonicity, sign, range checks, comparison, division, select / swap, conversions, insert / get sequences on the Merkle-tree map) on boundary-class inputs, in a standard-library circuit - or, for typed assignment of bits / bytes (single and batched) and the comparison instructions on bounded values with a different bound per operand (variable and fixed forms), in a circuit built directly on NativeGadget - with a drawn number of pow2range columns (1..4) and table size (8..12 bits): honest execution (satisfiable with the reference result iff the inputs are admissible) and Byzantine executions in which one to three advice assignments are replaced (+1, -1, 0, 1, 1-v, -v, p-1, v+2^j, neighbour value, random) and the witness generator continues from the faulty value; an accepted execution must bind public inputs and outputs that satisfy the definition. Thorough mode walks every assignment ordinal of every 4th case. distinct_nontrivial counts distinct (case, plan) digests whose plan fired plus distinct honest cases",
            assumptions: vec![
                "MockProver is the constraint model of the verifier (cross-checked against the real prover and verifier by C02)",
                "one to three faulted cells with honest continuation; a missing constraint that needs a coordinated change of several hints may escape",
                "public values are read from the cells the copy constraints bind (hook H2), not from the off-circuit encoders",
            ],
            components: vec![
                ("NativeChip / NativeGadget / decomposition / pow2range / ZkStdLib wiring", "real"),
                ("witness generation", "real, perturbed by the Byzantine prover hook H1"),
                ("constraint satisfaction", "MockProver (real checker code)"),
                ("reference semantics", "harness: big-integer model"),
            ],
            expected_probes: vec!["byzantine_cell", "inadmissible_input_rejected"],
        }
    }
    fn runs(&self, tier: Tier) -> u64 {
        match tier {
            Tier::Quick => 2400,
            Tier::Thorough => 12000,
        }
    }
    fn generate(&self, rng: &mut Prng, tier: Tier, idx: u64) -> Value {
        let vec_ops: Vec<&str> = crate::ops_vec::VEC_OPS.iter().chain(crate::ops_vec::VEC4_OPS).chain(crate::ops_vec::VEC3_OPS).copied().collect();
        let n = NATIVE_OPS.len() + NG_OPS.len() + 1 + vec_ops.len();
        let i = (idx as usize) % n;
        if i > NATIVE_OPS.len() + NG_OPS.len() {
            // the vector gadget: honest executions, then Byzantine edits of the unused cells only
            // (a vector's cells cannot be published, so an edited payload is another input)
            let case = crate::ops_vec::gen_case(rng, vec_ops[i - NATIVE_OPS.len() - NG_OPS.len() - 1]);
            return opcheck::to_json(&Scn { case, fault_seed: rng.u64(), n_plans: opcheck::plans_for(tier, idx), only: Some(vec![]), only_late: Some(vec![]) });
        }
        let case = if i < NATIVE_OPS.len() {
            gen_native_case(rng, NATIVE_OPS[i])
        } else if i < NATIVE_OPS.len() + NG_OPS.len() {
            crate::ops_ng::gen_case(rng, NG_OPS[i - NATIVE_OPS.len()])
        } else {
            // insert / get sequences on the Merkle-tree map
            crate::ops_map::gen_case(rng)
        };
        opcheck::to_json(&Scn { case, fault_seed: rng.u64(), n_plans: opcheck::plans_for(tier, idx), only: None, only_late: None })
    }
    fn execute(&self, scn: &Value, st: &mut Stats) -> Verdict {
        let s: Scn = match serde_json::from_value(scn.clone()) {
            Ok(s) => s,
            Err(e) => return Verdict::Harness(format!("bad scenario: {e}")),
        };
        opcheck::run(&s, st, true)
    }
    fn shrink(&self, scn: &Value, viol: &Viol) -> Vec<Value> {
        let s: Scn = serde_json::from_value(scn.clone()).unwrap();
        opcheck::shrink(&s, viol).iter().map(opcheck::to_json).collect()
    }
}
