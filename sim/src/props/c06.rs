//! C06 - elliptic-curve gadgets compute the group law and accept nothing else.
use serde_json::Value;

use super::opcheck::{self, Scn};
use crate::{
    core::{
        prng::Prng,
        runner::{Check, Meta, Tier, Verdict, Viol},
        stats::Stats,
    },
    ops, ops_ecc,
};

pub struct C06;

fn op_list() -> Vec<String> {
    // the native curve twice as often as each foreign curve (foreign circuits are large)
    let mut v = ops_ecc::jj_ops();
    v.extend(ops_ecc::jj_ops());
    v.extend(ops_ecc::fc_ops());
    crate::ops::dev_filter(v)
}

impl Check for C06 {
    fn id(&self) -> &'static str {
        "C06"
    }
    fn meta(&self) -> Meta {
        Meta {
            level: "exploration",
            rule: "one run = one elliptic-curve operation - Jubjub (native): point assignment, add, double, negate, msm of 1..4 terms, msm by bounded scalars, multiplication by a constant, point from coordinates, equality / identity tests, select, assertions; secp256k1 and BLS12-381 G1 (foreign): assignment, add, double, negate, point from coordinates, equality, select, multiplication by a constant - on operand classes identity, generator multiples, P=Q, P=-Q, (Jubjub) a low-order point and off-curve coordinates, scalars 0, 1, 2, r-1, r-2, (r-1)/2, random; executed honestly and under Byzantine plans (faulted assignments with honest continuation, local repair). Published points are decoded by the harness and must lie on the curve (and in the prime-order subgroup for Jubjub); the published result must equal the affine group law over big integers. distinct_nontrivial counts distinct honest cases plus (case, plan) digests whose plan fired",
            assumptions: vec![
                "MockProver is the constraint model (cross-checked by C02)",
                "foreign-curve variable-base msm, hash-to-curve and point (de)compression are not covered at this commit",
                "msm_by_bounded_scalars: outside the caller's bound precondition nothing is checked",
            ],
            components: vec![
                ("EccChip (Jubjub), ForeignEccChip (secp256k1, BLS12-381), FieldChip, ZkStdLib wiring", "real"),
                ("witness generation", "real, perturbed by hook H1"),
                ("constraint satisfaction", "MockProver"),
                ("reference semantics", "harness: affine twisted-Edwards / short-Weierstrass group law over big integers"),
            ],
            expected_probes: vec!["byzantine_cell", "byzantine_repair", "inadmissible_input_rejected"],
        }
    }
    fn runs(&self, tier: Tier) -> u64 {
        match tier {
            Tier::Quick => 300,
            Tier::Thorough => 1500,
        }
    }
    fn generate(&self, rng: &mut Prng, tier: Tier, idx: u64) -> Value {
        let all = op_list();
        let mut op = all[(idx as usize) % all.len()].clone();
        let heavy = (op.ends_with("mul_by_constant") || op.contains(".msm")) && !op.starts_with("ec.jj");
        let round = idx / all.len() as u64;
        let keep = match (tier, op.contains(".msm")) {
            // foreign scalar multiplications are large circuits: one in four (msm: one in six) in the quick tier
            (Tier::Quick, false) => round % 4 == 0,
            (Tier::Quick, true) => round % 6 == if op.ends_with("msm") { 1 } else { 4 },
            (Tier::Thorough, true) => round % 3 == 0,
            _ => true,
        };
        if heavy && !keep {
            let last = op.rsplit('.').next().unwrap().to_string();
            op = op.replace(&last, "add");
        }
        let op = &op;
        let case = ops::gen_case(rng, op);
        let n_plans = match tier {
            Tier::Quick => 4,
            Tier::Thorough => {
                if idx % 16 == 0 {
                    0
                } else {
                    16
                }
            }
        };
        let n_plans = if heavy && n_plans > 2 { 2 } else { n_plans };
        opcheck::to_json(&Scn { case, fault_seed: rng.u64(), n_plans, only: None, only_late: None })
    }
    fn execute(&self, scn: &Value, st: &mut Stats) -> Verdict {
        let s: Scn = match serde_json::from_value(scn.clone()) {
            Ok(s) => s,
            Err(e) => return Verdict::Harness(format!("bad scenario: {e}")),
        };
        opcheck::run(&s, st, true)
    }
    fn shrink(&self, scn: &Value, viol: &Viol) -> Vec<Value> {
        let s: Scn = serde_json::from_value(scn.clone()).unwrap();
        opcheck::shrink(&s, viol).iter().map(opcheck::to_json).collect()
    }
}
