//! C03 - a proof is accepted only for the exact statement and bytes it was
//! made for. Pipeline simulation with channel faults between prover and
//! verifier: the proof layout comes from the tracing transcript, so faults are
//! placed per element; statement-store model as oracle.
use midnight_curves::Fq;
use serde::{Deserialize, Serialize};
use serde_json::{json, Value};

use super::c01;
use crate::{
    core::{
        prng::{self, Prng},
        runner::{catch, Check, Meta, Tier, Verdict, Viol},
        stats::Stats,
    },
    enc::{self, G1Fault, ScalarFault, G1_FAULTS, SCALAR_FAULTS},
    gen_circuit::{gen_spec, CopySpec, GenOpts, Spec},
    pipeline::{self, HashKind, Statement, Vk},
    tracing_t::{Op, TEvent},
    util::{hex, unhex, Fe},
};

pub struct C03;

#[derive(Clone, Debug, Serialize, Deserialize, PartialEq)]
pub enum Delivery {
    /// proof element `elem` (index among the prover's writes) replaced
    G1 { elem: usize, f: G1Fault },
    Scalar { elem: usize, f: ScalarFault },
    /// only the first `at` bytes arrive
    Truncate { at: usize },
    Append { hex: String },
    AppendDupLast,
    /// two equal-width elements swapped
    Swap { i: usize, j: usize },
    BitFlip { bit: usize },
    PiAdd { proof: usize, col: usize, row: usize, add: Fe },
    PiSwapRows { proof: usize, col: usize, i: usize, j: usize },
    PiDropLast { proof: usize, col: usize },
    PiAppendZero { proof: usize, col: usize },
    /// last value of column `from` moved to the end of column `to`
    PiMove { proof: usize, from: usize, to: usize },
    PiSwapProofs { a: usize, b: usize },
    Committed { proof: usize, col: usize, f: G1Fault },
    VkOtherFixed,
    VkOtherK,
    VkOtherCircuit { seed: u64 },
    WrongHash,
}

impl Delivery {
    pub fn kind(&self) -> String {
        match self {
            Delivery::G1 { f, .. } => format!("proof-g1-{}", g1_name(f)),
            Delivery::Scalar { f, .. } => format!("proof-scalar-{}", scalar_name(f)),
            Delivery::Truncate { .. } => "truncate".into(),
            Delivery::Append { .. } => "append".into(),
            Delivery::AppendDupLast => "append-duplicate".into(),
            Delivery::Swap { .. } => "reorder-elements".into(),
            Delivery::BitFlip { .. } => "bit-flip".into(),
            Delivery::PiAdd { .. } => "pi-value".into(),
            Delivery::PiSwapRows { .. } => "pi-permute".into(),
            Delivery::PiDropLast { .. } => "pi-drop-last".into(),
            Delivery::PiAppendZero { .. } => "pi-append-zero".into(),
            Delivery::PiMove { .. } => "pi-move-between-columns".into(),
            Delivery::PiSwapProofs { .. } => "pi-swap-between-proofs".into(),
            Delivery::Committed { f, .. } => format!("committed-instance-{}", g1_name(f)),
            Delivery::VkOtherFixed => "vk-other-fixed".into(),
            Delivery::VkOtherK => "vk-other-k".into(),
            Delivery::VkOtherCircuit { .. } => "vk-other-circuit".into(),
            Delivery::WrongHash => "wrong-transcript-hash".into(),
        }
    }
}
fn g1_name(f: &G1Fault) -> &'static str {
    match f {
        G1Fault::Other(_) => "other-valid",
        G1Fault::Neg => "negated",
        G1Fault::Identity => "identity",
        G1Fault::OffCurve(_) => "off-curve",
        G1Fault::NoCompressionFlag => "no-compression-flag",
        G1Fault::InfinityWithX => "infinity-flag-with-x",
        G1Fault::NonSubgroup(_) => "non-subgroup",
        G1Fault::XPlusP => "non-canonical-x",
    }
}
fn scalar_name(f: &ScalarFault) -> &'static str {
    match f {
        ScalarFault::PlusOne => "plus-one",
        ScalarFault::Zero => "zero",
        ScalarFault::Other(_) => "other-canonical",
        ScalarFault::PlusModulus => "non-canonical",
        ScalarFault::AllOnes => "all-ones",
    }
}

#[derive(Clone, Debug, Serialize, Deserialize, PartialEq)]
pub struct Scn {
    pub base: c01::Scn,
    pub fault_seed: u64,
    pub enumerate: bool,
    /// explicit deliveries (set by the minimiser); None: generate from `fault_seed`
    pub only: Option<Vec<Delivery>>,
}

/// The proof layout: (offset, len, is_g1) of every element the prover wrote.
pub fn layout(plog: &[TEvent]) -> Vec<(usize, usize, bool)> {
    plog.iter().filter(|e| e.op == Op::Write).map(|e| (e.off, e.len, e.ty == "G1")).collect()
}

pub fn gen_deliveries(
    rng: &mut Prng,
    lay: &[(usize, usize, bool)],
    proof_len: usize,
    stmts: &[Statement],
    enumerate: bool,
) -> Vec<Delivery> {
    let mut d = vec![];
    for (i, (_, _, g1)) in lay.iter().enumerate() {
        if *g1 {
            let kinds: Vec<usize> =
                if enumerate { (0..G1_FAULTS).collect() } else { vec![rng.usize(G1_FAULTS), rng.usize(G1_FAULTS)] };
            for k in kinds {
                d.push(Delivery::G1 { elem: i, f: enc::draw_g1_fault(rng, k) });
            }
        } else {
            let kinds: Vec<usize> = if enumerate {
                (0..SCALAR_FAULTS).collect()
            } else {
                vec![rng.usize(SCALAR_FAULTS), rng.usize(SCALAR_FAULTS)]
            };
            for k in kinds {
                d.push(Delivery::Scalar { elem: i, f: enc::draw_scalar_fault(rng, k) });
            }
        }
    }
    // loss: truncation at every element boundary, mid-element too
    for (off, len, _) in lay {
        d.push(Delivery::Truncate { at: *off });
        if enumerate || rng.chance(1, 4) {
            d.push(Delivery::Truncate { at: off + 1 + rng.usize(len - 1) });
        }
    }
    if proof_len > 0 {
        d.push(Delivery::Truncate { at: proof_len - 1 });
    }
    // duplication / extension
    for n in [1usize, 32, 48] {
        d.push(Delivery::Append { hex: hex(&vec![0u8; n]) });
    }
    d.push(Delivery::Append { hex: hex(&rng.bytes(32)) });
    d.push(Delivery::AppendDupLast);
    // reordering
    for _ in 0..if enumerate { 12 } else { 3 } {
        if lay.len() < 2 {
            break;
        }
        let i = rng.usize(lay.len());
        let same: Vec<usize> = (0..lay.len()).filter(|j| *j != i && lay[*j].2 == lay[i].2).collect();
        if !same.is_empty() {
            d.push(Delivery::Swap { i, j: *rng.pick(&same) });
        }
    }
    // corruption
    let nbits = proof_len * 8;
    if nbits > 0 {
        if enumerate && nbits <= 16 * 1024 {
            for b in 0..nbits {
                d.push(Delivery::BitFlip { bit: b });
            }
        } else {
            for _ in 0..if enumerate { 1500 } else { 10 } {
                d.push(Delivery::BitFlip { bit: rng.usize(nbits) });
            }
        }
    }
    // public inputs
    for (p, s) in stmts.iter().enumerate() {
        for (c, col) in s.plain.iter().enumerate() {
            if !col.is_empty() {
                let rows: Vec<usize> =
                    if enumerate && col.len() <= 16 { (0..col.len()).collect() } else { vec![rng.usize(col.len())] };
                for row in rows {
                    d.push(Delivery::PiAdd { proof: p, col: c, row, add: Fe(Fq::from(1 + rng.below(3))) });
                }
                d.push(Delivery::PiDropLast { proof: p, col: c });
                if col.len() >= 2 {
                    let i = rng.usize(col.len());
                    let j = (i + 1 + rng.usize(col.len() - 1)) % col.len();
                    d.push(Delivery::PiSwapRows { proof: p, col: c, i, j });
                }
            }
            d.push(Delivery::PiAppendZero { proof: p, col: c });
            if s.plain.len() >= 2 {
                let to = (c + 1 + rng.usize(s.plain.len() - 1)) % s.plain.len();
                d.push(Delivery::PiMove { proof: p, from: c, to });
            }
        }
        for c in 0..s.committed.len() {
            for f in [G1Fault::Other(rng.u64()), G1Fault::Neg, G1Fault::Identity] {
                d.push(Delivery::Committed { proof: p, col: c, f });
            }
        }
    }
    if stmts.len() >= 2 {
        d.push(Delivery::PiSwapProofs { a: 0, b: 1 + rng.usize(stmts.len() - 1) });
    }
    d.push(Delivery::VkOtherFixed);
    d.push(Delivery::VkOtherK);
    d.push(Delivery::VkOtherCircuit { seed: rng.u64() });
    d.push(Delivery::WrongHash);
    d
}

/// A spec that differs from `spec` in one fixed value (None if it has none).
fn other_fixed(spec: &Spec) -> Option<Spec> {
    let mut s = spec.clone();
    let one = Fq::from(1);
    for gu in s.gate_uses.iter_mut() {
        let g = &spec.gates[gu.gate];
        for (j, c) in g.cells.iter().enumerate() {
            if c.kind == crate::gen_circuit::Kind::F {
                gu.fixed[j] = Fe(gu.fixed[j].0 + one);
                return Some(s);
            }
        }
    }
    for c in s.copies.iter_mut() {
        match c {
            CopySpec::AdvConst { value, .. } | CopySpec::AdvFixed { value, .. } => {
                *value = Fe(value.0 + one);
                return Some(s);
            }
            _ => {}
        }
    }
    for l in s.lookups.iter_mut() {
        if !l.any && l.table.len() > 1 {
            let last = l.table.len() - 1;
            l.table[last][0] = Fe(l.table[last][0].0 + Fq::from(1000003));
            return Some(s);
        }
    }
    None
}

struct Ctx<'a> {
    base: &'a c01::Scn,
    vk: &'a Vk,
    proof: &'a [u8],
    lay: &'a [(usize, usize, bool)],
    stmts: &'a [Statement],
}

/// What the verifier receives: (vk, k, statements, proof, hash). None: fault not applicable.
fn build(
    cx: &Ctx<'_>,
    d: &Delivery,
) -> Option<(Option<(Vk, u32)>, Vec<Statement>, Vec<u8>, HashKind)> {
    let mut proof = cx.proof.to_vec();
    let mut stmts = cx.stmts.to_vec();
    let mut vk = None;
    let mut hash = cx.base.hash;
    match d {
        Delivery::G1 { elem, f } => {
            let (off, len, g1) = *cx.lay.get(*elem)?;
            if !g1 {
                return None;
            }
            let nb = enc::apply_g1(&proof[off..off + len], f)?;
            proof[off..off + len].copy_from_slice(&nb);
        }
        Delivery::Scalar { elem, f } => {
            let (off, len, g1) = *cx.lay.get(*elem)?;
            if g1 {
                return None;
            }
            let nb = enc::apply_scalar(&proof[off..off + len], f)?;
            proof[off..off + len].copy_from_slice(&nb);
        }
        Delivery::Truncate { at } => {
            if *at >= proof.len() {
                return None;
            }
            proof.truncate(*at);
        }
        Delivery::Append { hex } => proof.extend(unhex(hex)),
        Delivery::AppendDupLast => {
            let (off, len, _) = *cx.lay.last()?;
            let last = proof[off..off + len].to_vec();
            proof.extend(last);
        }
        Delivery::Swap { i, j } => {
            let (oi, li, gi) = *cx.lay.get(*i)?;
            let (oj, lj, gj) = *cx.lay.get(*j)?;
            if gi != gj || li != lj {
                return None;
            }
            let a = proof[oi..oi + li].to_vec();
            let b = proof[oj..oj + lj].to_vec();
            proof[oi..oi + li].copy_from_slice(&b);
            proof[oj..oj + lj].copy_from_slice(&a);
        }
        Delivery::BitFlip { bit } => {
            let b = proof.get_mut(bit / 8)?;
            *b ^= 1 << (bit % 8);
        }
        Delivery::PiAdd { proof: p, col, row, add } => {
            let v = stmts.get_mut(*p)?.plain.get_mut(*col)?.get_mut(*row)?;
            *v += add.0;
        }
        Delivery::PiSwapRows { proof: p, col, i, j } => {
            let c = stmts.get_mut(*p)?.plain.get_mut(*col)?;
            if *i >= c.len() || *j >= c.len() {
                return None;
            }
            c.swap(*i, *j);
        }
        Delivery::PiDropLast { proof: p, col } => {
            stmts.get_mut(*p)?.plain.get_mut(*col)?.pop()?;
        }
        Delivery::PiAppendZero { proof: p, col } => {
            stmts.get_mut(*p)?.plain.get_mut(*col)?.push(Fq::from(0));
        }
        Delivery::PiMove { proof: p, from, to } => {
            let s = stmts.get_mut(*p)?;
            if from == to || *to >= s.plain.len() {
                return None;
            }
            let v = s.plain.get_mut(*from)?.pop()?;
            s.plain[*to].push(v);
        }
        Delivery::PiSwapProofs { a, b } => {
            if *a >= stmts.len() || *b >= stmts.len() {
                return None;
            }
            let (pa, pb) = (stmts[*a].plain.clone(), stmts[*b].plain.clone());
            stmts[*a].plain = pb;
            stmts[*b].plain = pa;
        }
        Delivery::Committed { proof: p, col, f } => {
            use group::GroupEncoding;
            let c = stmts.get_mut(*p)?.committed.get_mut(*col)?;
            let nb = enc::apply_g1(c.to_bytes().as_ref(), f)?;
            let mut repr = <midnight_curves::G1Projective as GroupEncoding>::Repr::default();
            repr.as_mut().copy_from_slice(&nb);
            *c = Option::from(midnight_curves::G1Projective::from_bytes(&repr))?;
        }
        Delivery::VkOtherFixed => {
            let s2 = other_fixed(&cx.base.spec)?;
            let (vk2, _) = rayon::sim::isolated(1, || pipeline::keygen(&s2)).ok()?;
            vk = Some((vk2, s2.k));
        }
        Delivery::VkOtherK => {
            let mut s2 = cx.base.spec.clone();
            s2.k += 1;
            let (vk2, _) = rayon::sim::isolated(1, || pipeline::keygen(&s2)).ok()?;
            vk = Some((vk2, s2.k));
        }
        Delivery::VkOtherCircuit { seed } => {
            let mut rng = Prng::new(*seed, "other-circuit");
            let s2 = gen_spec(&mut rng, GenOpts { k_min: 4, k_max: 6, allow_phases: true, max_rot: 2 });
            if s2 == cx.base.spec {
                return None;
            }
            let (vk2, _) = rayon::sim::isolated(1, || pipeline::keygen(&s2)).ok()?;
            vk = Some((vk2, s2.k));
        }
        Delivery::WrongHash => {
            hash = if hash == HashKind::Blake2b { HashKind::Poseidon } else { HashKind::Blake2b };
        }
    }
    Some((vk, stmts, proof, hash))
}

fn decode_elem<H: midnight_proofs::transcript::TranscriptHash>(
    bytes: &[u8],
    g1: bool,
    plan: &crate::core::fio::IoPlan,
) -> Result<Vec<u8>, String>
where
    midnight_curves::G1Projective: midnight_proofs::transcript::Hashable<H>,
    Fq: midnight_proofs::transcript::Hashable<H>,
{
    use midnight_proofs::transcript::Hashable;
    let mut r = crate::core::fio::FaultyReader::new(bytes, plan);
    if g1 {
        <midnight_curves::G1Projective as Hashable<H>>::read(&mut r)
            .map(|p| <midnight_curves::G1Projective as Hashable<H>>::to_bytes(&p))
            .map_err(|e| e.to_string())
    } else {
        <Fq as Hashable<H>>::read(&mut r)
            .map(|p| <Fq as Hashable<H>>::to_bytes(&p))
            .map_err(|e| e.to_string())
    }
}

fn element_decoders_under_io_faults(
    proof: &[u8],
    lay: &[(usize, usize, bool)],
    hash: HashKind,
    seed: u64,
    st: &mut Stats,
) -> Option<Viol> {
    use crate::core::fio::IoPlan;
    let dec = |bytes: &[u8], g1: bool, plan: &IoPlan| match hash {
        HashKind::Blake2b => decode_elem::<blake2b_simd::State>(bytes, g1, plan),
        HashKind::Poseidon => {
            decode_elem::<midnight_circuits::hash::poseidon::PoseidonState<Fq>>(bytes, g1, plan)
        }
    };
    let mut rng = Prng::new(seed, "elem-io");
    for (i, (off, len, g1)) in lay.iter().enumerate() {
        let bytes = &proof[*off..off + len];
        let clean = dec(bytes, *g1, &IoPlan::clean());
        let plan = IoPlan { seed: rng.u64(), short: true, interrupt_16: 4, fail_at: None };
        st.fault("element-short-read");
        let r = match catch(|| dec(bytes, *g1, &plan)) {
            Ok(r) => r,
            Err(p) => {
                return Some(Viol::new(
                    "DecoderPanic",
                    format!("DecoderPanic@{}", p.site_file()),
                    format!("element {i} decoder panicked under short reads at {}: {}", p.site(), p.msg),
                ))
            }
        };
        if r != clean {
            return Some(Viol::new(
                "ShortReadChangedValue",
                format!("ShortReadChangedValue:{}", if *g1 { "g1" } else { "scalar" }),
                format!("proof element {i} decodes to {clean:?} from a well-behaved reader but to {r:?} when the reader returns short reads / EINTR"),
            ));
        }
        // EOF inside the element (sampled cut, plus the last byte)
        for cut in [len - 1, rng.usize(*len)] {
            st.fault("element-eof-inside");
            match catch(|| dec(&bytes[..cut], *g1, &IoPlan::clean())) {
                Ok(Err(_)) => {}
                Ok(Ok(_)) => {
                    return Some(Viol::new(
                        "TruncatedElementAccepted",
                        format!("TruncatedElementAccepted:{}", if *g1 { "g1" } else { "scalar" }),
                        format!("proof element {i} ({len} bytes) decoded successfully from only {cut} bytes"),
                    ))
                }
                Err(p) => {
                    return Some(Viol::new(
                        "DecoderPanic",
                        format!("DecoderPanic@{}", p.site_file()),
                        format!("element {i} decoder panicked on EOF at {}: {}", p.site(), p.msg),
                    ))
                }
            }
        }
    }
    None
}

fn same_statement(a: &[Statement], b: &[Statement]) -> bool {
    a.len() == b.len()
        && a.iter().zip(b).all(|(x, y)| x.plain == y.plain && x.committed == y.committed)
}

impl Check for C03 {
    fn id(&self) -> &'static str {
        "C03"
    }
    fn meta(&self) -> Meta {
        Meta {
            level: "fault_enumeration",
            rule: "one run = one honest pipeline (as C01) whose proof, public inputs, committed instances, vk and transcript hash are then delivered to the verifier under channel faults, one fault per delivery: every proof element replaced (valid other point / negation / identity / off-curve / bad flags / non-subgroup / non-canonical x; other canonical scalar / zero / non-canonical / all-ones), truncation at every element boundary and inside elements, appended bytes and duplicated last element, swapped equal-width elements, bit flips (sampled in quick, every bit in thorough for proofs <= 2 KiB), public-input edits (value, permutation, drop last, append zero, move between columns, swap between proofs), committed-instance replacement, wrong vk (other fixed value, other k, other circuit), wrong transcript hash; then the untouched delivery once more. distinct_nontrivial counts distinct (circuit, delivery) digests whose fault changed what the verifier received",
            assumptions: vec![
                "soundness error of KZG/Fiat-Shamir (<= 2^-120) is ignored: a mutated delivery is expected to be rejected deterministically",
                "deliveries that reproduce the original bytes are recognised by comparison and skipped",
            ],
            components: vec![
                ("keygen / prover / verifier / transcript decoding (midnight-proofs, midnight-curves)", "real"),
                ("channel between prover and verifier", "simulated: fault-injecting"),
                ("rayon", "simulated: deterministic PRNG scheduler"),
                ("SRS ceremony", "stub: fixed secret"),
            ],
            expected_probes: vec![
                "proof-g1-other-valid",
                "proof-g1-negated",
                "proof-g1-identity",
                "proof-g1-off-curve",
                "proof-g1-non-subgroup",
                "proof-g1-non-canonical-x",
                "proof-scalar-non-canonical",
                "proof-scalar-other-canonical",
                "truncate",
                "append",
                "append-duplicate",
                "reorder-elements",
                "bit-flip",
                "pi-value",
                "pi-permute",
                "pi-drop-last",
                "pi-append-zero",
                "pi-move-between-columns",
                "pi-swap-between-proofs",
                "committed-instance-other-valid",
                "vk-other-fixed",
                "vk-other-k",
                "vk-other-circuit",
                "wrong-transcript-hash",
                "final_honest_delivery_accepted",
                "element-short-read",
                "element-eof-inside",
            ],
        }
    }
    fn runs(&self, tier: Tier) -> u64 {
        match tier {
            Tier::Quick => 200,
            Tier::Thorough => 4000,
        }
    }
    fn generate(&self, rng: &mut Prng, tier: Tier, idx: u64) -> Value {
        let base = c01::gen_scn_k(rng, Tier::Quick, 7);
        // every 8th thorough scenario enumerates all fault kinds and bits
        let enumerate = tier == Tier::Thorough && idx % 8 == 0;
        serde_json::to_value(Scn { base, fault_seed: rng.u64(), enumerate, only: None }).unwrap()
    }
    fn execute(&self, scn: &Value, st: &mut Stats) -> Verdict {
        let s: Scn = match serde_json::from_value(scn.clone()) {
            Ok(s) => s,
            Err(e) => return Verdict::Harness(format!("bad scenario: {e}")),
        };
        run(&s, st)
    }
    fn shrink(&self, scn: &Value, viol: &Viol) -> Vec<Value> {
        let s: Scn = serde_json::from_value(scn.clone()).unwrap();
        let mut out = vec![];
        if let Some(h) = &viol.hint {
            if let Ok(d) = serde_json::from_value::<Delivery>(h.clone()) {
                if s.only.as_ref().map(|o| o.len()) != Some(1) {
                    out.push(Scn { only: Some(vec![d]), ..s.clone() });
                }
            }
        }
        for b in c01::shrink_scn(&s.base) {
            out.push(Scn { base: b, ..s.clone() });
        }
        out.into_iter().map(|s| serde_json::to_value(s).unwrap()).collect()
    }
}

fn run(s: &Scn, st: &mut Stats) -> Verdict {
    let b = &s.base;
    b.sched_keygen.enter();
    let (vk, pk) = match catch(|| pipeline::keygen(&b.spec)) {
        Ok(Ok(k)) => k,
        Ok(Err(e)) => return Verdict::Harness(format!("keygen failed on a generated circuit: {e:?}")),
        Err(p) => return Verdict::Harness(format!("keygen panicked at {}: {}", p.site(), p.msg)),
    };
    b.sched_prove.enter();
    let rng = Prng::new(b.blinding_seed, "blinding").chacha("prove");
    let (proof, plog) = match catch(|| pipeline::prove(&pk, &b.spec, &b.witnesses, b.nb_committed, b.hash, rng)) {
        Ok((Ok(p), l)) => (p, l),
        Ok((Err(e), _)) => return Verdict::Harness(format!("honest prover failed: {e:?} (C01's subject)")),
        Err(p) => return Verdict::Harness(format!("honest prover panicked at {} (C01's subject)", p.site())),
    };
    st.events += plog.len() as u64;
    if std::env::var("ZKSIM_DUMP_RUN").is_ok() {
        eprintln!("PROOF-DIGEST {:016x} len {}", crate::core::prng::digest(&proof), proof.len());
    }
    let lay = layout(&plog);
    let stmts: Vec<Statement> =
        b.witnesses.iter().map(|w| pipeline::statement(&vk, b.spec.k, w, b.nb_committed)).collect();
    let deliveries = match &s.only {
        Some(d) => d.clone(),
        None => {
            let mut rng = Prng::new(s.fault_seed, "faults");
            gen_deliveries(&mut rng, &lay, proof.len(), &stmts, s.enumerate)
        }
    };
    // storage seam below the transcript: every element decoder, fed the
    // element's bytes through a reader with short reads / EINTR, must return
    // the same value, and fed a reader that hits EOF inside the element must
    // return an error (never a value made from fewer bytes).
    if s.only.is_none() {
        if let Some(v) = element_decoders_under_io_faults(&proof, &lay, b.hash, s.fault_seed, st) {
            return Verdict::Violation(v);
        }
    }
    let cx = Ctx { base: b, vk: &vk, proof: &proof, lay: &lay, stmts: &stmts };
    let spec_digest = prng::digest(serde_json::to_string(&b.spec).unwrap().as_bytes());
    b.sched_verify.enter();
    for d in &deliveries {
        let Some((vk2, stmts2, proof2, hash2)) = build(&cx, d) else {
            st.inc("skipped.not_applicable");
            continue;
        };
        let kind = d.kind();
        if vk2.is_none() && hash2 == b.hash && proof2 == proof && same_statement(&stmts2, &stmts) {
            st.inc("skipped.identical");
            continue;
        }
        if let Some((v2, _)) = &vk2 {
            use midnight_proofs::utils::SerdeFormat;
            if v2.to_bytes(SerdeFormat::RawBytes) == vk.to_bytes(SerdeFormat::RawBytes) {
                st.inc("skipped.identical");
                continue;
            }
        }
        let (vkr, kr) = match &vk2 {
            Some((v, k)) => (v, *k),
            None => (&vk, b.spec.k),
        };
        st.fault(&kind);
        st.events += 1;
        st.nontrivial(prng::digest(
            format!("{spec_digest}|{}", serde_json::to_string(d).unwrap()).as_bytes(),
        ));
        match catch(|| pipeline::verify(kr, vkr, &stmts2, &proof2, hash2)) {
            Err(p) => {
                return Verdict::Violation(
                    Viol::new(
                        "VerifierPanic",
                        format!("VerifierPanic@{}:{kind}", p.site_file()),
                        format!("verifier panicked at {} on delivery {d:?}: {}", p.site(), p.msg),
                    )
                    .with_hint(serde_json::to_value(d).unwrap()),
                )
            }
            Ok((Ok(()), _)) => {
                return Verdict::Violation(
                    Viol::new(
                        "AcceptedAlteredDelivery",
                        format!("AcceptedAlteredDelivery:{kind}"),
                        format!("verifier accepted a delivery that differs from the proven statement: {d:?}"),
                    )
                    .with_hint(serde_json::to_value(d).unwrap()),
                )
            }
            Ok((Err(e), vlog)) => {
                st.events += vlog.len() as u64;
                st.inc(&format!(
                    "rejected_at.{}",
                    match e {
                        pipeline::VerifyErr::Prepare(_) => "prepare",
                        pipeline::VerifyErr::NotEmpty => "assert_empty",
                        pipeline::VerifyErr::Pairing => "pairing",
                    }
                ));
            }
        }
    }
    // after the last fault the untouched message is delivered once more
    match catch(|| pipeline::verify(b.spec.k, &vk, &stmts, &proof, b.hash)) {
        Ok((Ok(()), _)) => {
            st.probe("final_honest_delivery_accepted");
            if st.samples.is_empty() {
                st.sample(0, json!({"circuit": c01::sample(b), "deliveries": deliveries.len(),
                    "first": deliveries.iter().take(3).collect::<Vec<_>>() }));
            }
            Verdict::Pass
        }
        Ok((Err(e), _)) => Verdict::Violation(Viol::new(
            "HonestRejected",
            "HonestRejectedAfterFaults",
            format!("the untouched delivery was rejected after the fault sequence: {e:?} (C01's subject if it also fails there)"),
        )),
        Err(p) => Verdict::Violation(Viol::new(
            "VerifierPanic",
            format!("VerifierPanic@{}:honest", p.site_file()),
            format!("verifier panicked on the honest delivery at {}: {}", p.site(), p.msg),
        )),
    }
}
