//! C08 - the off-circuit public-input encoding is exactly what the circuit
//! binds. Two parties: the verifier-side formatter `T::as_public_input(v)` and
//! the prover-side circuit exposing v; the instance the circuit binds is read
//! back through the copy constraints (hook H2); instance-vector faults must be
//! rejected.
use midnight_curves::Fq;
use midnight_proofs::{circuit::Value as CValue, dev::InstanceValue};
use midnight_zk_stdlib::MidnightCircuit;
use serde::{Deserialize, Serialize};
use serde_json::{json, Value};

use super::opcheck;
use crate::{
    core::{
        prng::{self, Prng},
        runner::{catch, Check, Meta, Tier, Verdict, Viol},
        stats::Stats,
    },
    fixtures,
    opcirc::{run_mock, MockVerdict},
    ops::{self, OpCase, OpRel},
    ops_pi,
    util::Fe,
};

pub struct C08;

#[derive(Clone, Debug, Serialize, Deserialize, PartialEq)]
pub struct Scn {
    pub case: OpCase,
    /// a second value of the same type (injectivity)
    pub other: OpCase,
    /// run the real key generator / prover / verifier and check nb_public_inputs
    pub real: bool,
}

impl Check for C08 {
    fn id(&self) -> &'static str {
        "C08"
    }
    fn meta(&self) -> Meta {
        Meta {
            level: "exploration",
            rule: "one run = one value v of an Instantiable type (bit, byte, native, secp256k1 Fp/Fq, BLS12-381 Fp, Jubjub point and scalar, secp256k1 and BLS12-381 G1 points, BigUint of 1..2048 bits; boundary representatives: 0, 1, m-1, m-2, identity points, maximal limbs) exposed by a standard-library circuit through constrain_as_public_input, assign_as_public_input or the committed instance column. The instance the circuit binds is read off the copy constraints and must equal T::as_public_input(v); every single-position edit of that vector must make the circuit unsatisfiable; a second value of the same type must have a different encoding; for every 10th run the real key generator records nb_public_inputs, the real verifier accepts the off-circuit encoding and rejects it with the last element dropped or a zero appended (committed column: the verifier is given the commitment to the encoding and an empty plain vector; another commitment, an extra plain scalar and the value repeated in the plain vector must be refused). distinct_nontrivial counts distinct (type, path, value) digests",
            assumptions: vec![
                "there is no schedule or storage in this property: the simulator contributes the two-party framing, the read-back of the bound instance and the instance-vector faults",
                "verifying-key identity, accumulator and MSM encodings are exercised under C20, IR value types under C18",
            ],
            components: vec![
                ("in-circuit exposure (circuits, zk_stdlib)", "real"),
                ("off-circuit encoders (Instantiable::as_public_input)", "real (the second party)"),
                ("constraint satisfaction", "MockProver; sampled: real keygen / prover / verifier"),
            ],
            expected_probes: vec!["instance_position_edit_rejected", "real_nb_public_inputs_checked", "committed_column", "real_committed_column_checked"],
        }
    }
    fn runs(&self, tier: Tier) -> u64 {
        match tier {
            Tier::Quick => 600,
            Tier::Thorough => 12000,
        }
    }
    fn generate(&self, rng: &mut Prng, _tier: Tier, idx: u64) -> Value {
        let all = ops_pi::pi_ops();
        let op = &all[(idx as usize) % all.len()];
        let case = ops_pi::gen_case(rng, op);
        let mut other = ops_pi::gen_case(rng, op);
        other.p = case.p.clone();
        other.cols = case.cols;
        other.mbl = case.mbl;
        // the committed-column paths are few and small: every other visit goes through the real pipeline
        let real = idx % 10 == 0 || (op.ends_with(".committed") && (idx as usize / all.len()) % 2 == 0);
        serde_json::to_value(Scn { case, other, real }).unwrap()
    }
    fn execute(&self, scn: &Value, st: &mut Stats) -> Verdict {
        let s: Scn = match serde_json::from_value(scn.clone()) {
            Ok(s) => s,
            Err(e) => return Verdict::Harness(format!("bad scenario: {e}")),
        };
        run(&s, st)
    }
}

fn fes(v: &[Fq]) -> Vec<Fe> {
    v.iter().map(|x| Fe(*x)).collect()
}

fn run(s: &Scn, st: &mut Stats) -> Verdict {
    let case = &s.case;
    let committed = case.op.ends_with(".committed");
    if committed {
        st.probe("committed_column");
    }
    st.inc(&format!("op.{}", case.op));
    let k = match opcheck::min_k(case) {
        Ok(k) => k,
        Err(e) if case.op.ends_with(".looser") && e.contains("the derived `nb_bits` bound") => {
            // the API refuses a declared width other than the derived one (already without witnesses)
            st.probe("looser_width_refused");
            return Verdict::Pass;
        }
        Err(e) => return Verdict::Harness(e),
    };
    let rel = OpRel { case: case.clone() };
    let wit = ops::witness(case);
    let circuit = MidnightCircuit::new(&rel, CValue::known(vec![]), CValue::known(wit.clone()), Some(case.mbl));
    // the prover-side circuit
    let m = run_mock(k, &circuit, &[], false);
    st.events += m.assignments as u64 + 1;
    let e_circ = if committed { &m.bound_committed } else { &m.bound_plain };
    if case.op.ends_with(".looser") && matches!(m.verdict, MockVerdict::SynthErr(_)) {
        // the API refuses a declared width other than the derived one: nothing is exposed
        st.probe("looser_width_refused");
        return Verdict::Pass;
    }
    // the verifier-side formatter
    let e_off = match catch(|| ops_pi::off_circuit(case)) {
        Ok(v) => v,
        Err(p) => {
            return Verdict::Violation(Viol::new("EncoderPanic", format!("EncoderPanic:{}", case.op), format!("{}: as_public_input panicked at {} on {:?} {:?}: {}", case.op, p.site(), case.ins, case.bins, p.msg)))
        }
    };
    if m.verdict != MockVerdict::Accept {
        return Verdict::Violation(Viol::new(
            "ExposureUnsatisfiable",
            format!("ExposureUnsatisfiable:{}", case.op),
            format!("{}: exposing {:?} {:?} is not satisfiable: {:?}", case.op, case.ins, case.bins, m.verdict),
        ));
    }
    if *e_circ != e_off {
        return Verdict::Violation(Viol::new(
            "EncodingMismatch",
            format!("EncodingMismatch:{}", case.op),
            format!("{} value {:?} {:?}: the circuit binds {:?} but the off-circuit encoding is {:?}", case.op, case.ins, case.bins, fes(e_circ), fes(&e_off)),
        ));
    }
    let other_cols = if committed { &m.bound_plain } else { &m.bound_committed };
    if !other_cols.is_empty() {
        return Verdict::Violation(Viol::new("EncodingMismatch", format!("EncodingMismatch:{}:other-column", case.op), format!("{}: values were bound in the other instance column: {:?}", case.op, fes(other_cols))));
    }
    st.nontrivial(prng::digest(serde_json::to_string(case).unwrap().as_bytes()));
    // instance-vector faults: every single-position edit must be rejected
    if let Some(mut p) = m.prover {
        let col = if committed { 0 } else { 1 };
        for i in 0..e_off.len() {
            p.instance_mut()[col][i] = InstanceValue::Assigned(e_off[i] + Fq::from(1));
            let r = rayon::sim::isolated(1, || catch(|| p.verify()));
            p.instance_mut()[col][i] = InstanceValue::Assigned(e_off[i]);
            st.fault("instance_position_edit");
            match r {
                Ok(Err(_)) => st.probe("instance_position_edit_rejected"),
                Ok(Ok(())) => {
                    return Verdict::Violation(Viol::new("OtherVectorAccepted", format!("OtherVectorAccepted:{}", case.op), format!("{}: the circuit exposing {:?} {:?} is also satisfied by the encoding with position {i} changed", case.op, case.ins, case.bins)))
                }
                Err(pa) => return Verdict::Harness(format!("checker panicked at {}: {}", pa.site(), pa.msg)),
            }
        }
    }
    // injectivity on a second value of the same type
    if s.other.ins != case.ins || s.other.bins != case.bins {
        if let Ok(e2) = catch(|| ops_pi::off_circuit(&s.other)) {
            st.inc("injectivity_pairs");
            if e2 == e_off {
                return Verdict::Violation(Viol::new("EncodingCollision", format!("EncodingCollision:{}", case.op), format!("{}: distinct values {:?} {:?} and {:?} {:?} share the encoding {:?}", case.op, case.ins, case.bins, s.other.ins, s.other.bins, fes(&e_off))));
            }
        }
    }
    // real pipeline: nb_public_inputs recorded at key generation equals what the verifier insists on
    if s.real && committed {
        // the committed column through the real pipeline: the verifier is given the plain
        // vector (empty) and the commitment to the committed values
        use midnight_proofs::poly::kzg::KZGCommitmentScheme;
        let r = catch(|| {
            rayon::sim::isolated(1, || -> Result<(), String> {
                let k2 = MidnightCircuit::from_relation(&rel).min_k();
                if k2 > 12 {
                    return Ok(());
                }
                let srs = fixtures::srs(k2);
                let vk = midnight_zk_stdlib::setup_vk(&srs, &rel);
                let pk = midnight_zk_stdlib::setup_pk(&rel, &vk);
                let plain: Vec<Fq> = vec![];
                let proof = midnight_zk_stdlib::prove::<OpRel, blake2b_simd::State>(&srs, &pk, &rel, &plain, wit.clone(), Prng::new(8, "c08c").chacha("prove")).map_err(|e| format!("prove: {e:?}"))?;
                let vp = srs.verifier_params();
                let com = |v: &[Fq]| -> midnight_curves::G1Affine { midnight_proofs::plonk::commit_to_instances::<_, KZGCommitmentScheme<midnight_curves::Bls12>>(&srs, vk.vk().get_domain(), v).into() };
                midnight_zk_stdlib::verify::<OpRel, blake2b_simd::State>(&vp, &vk, &plain, Some(com(&e_off)), &proof)
                    .map_err(|e| format!("the empty plain vector with the commitment to the off-circuit encoding is rejected by the real verifier: {e:?}"))?;
                let mut other = e_off.clone();
                other[0] += Fq::from(1);
                if midnight_zk_stdlib::verify::<OpRel, blake2b_simd::State>(&vp, &vk, &plain, Some(com(&other)), &proof).is_ok() {
                    return Err("the real verifier accepts the commitment to another committed value".into());
                }
                if midnight_zk_stdlib::verify::<OpRel, blake2b_simd::State>(&vp, &vk, &vec![Fq::from(0)], Some(com(&e_off)), &proof).is_ok() {
                    return Err("the real verifier accepts a plain vector with an unbound extra scalar".into());
                }
                if midnight_zk_stdlib::verify::<OpRel, blake2b_simd::State>(&vp, &vk, &e_off, Some(com(&e_off)), &proof).is_ok() {
                    return Err("the real verifier accepts the committed value repeated in the plain vector".into());
                }
                Ok(())
            })
        });
        match r {
            Ok(Ok(())) => st.probe("real_committed_column_checked"),
            Ok(Err(e)) => return Verdict::Violation(Viol::new("RealPipelineMismatch", format!("RealPipelineMismatch:{}", case.op), format!("{} {:?} {:?}: {e}", case.op, case.ins, case.bins))),
            Err(p) => return Verdict::Violation(Viol::new("RealPipelineMismatch", format!("RealPipelineMismatch:{}:panic", case.op), format!("{}: real pipeline panicked at {}: {}", case.op, p.site(), p.msg))),
        }
    }
    if s.real && !committed {
        let r = catch(|| {
            rayon::sim::isolated(1, || -> Result<(), String> {
                let k2 = MidnightCircuit::from_relation(&rel).min_k();
                if k2 > 12 {
                    return Ok(());
                }
                let srs = fixtures::srs(k2);
                let vk = midnight_zk_stdlib::setup_vk(&srs, &rel);
                let pk = midnight_zk_stdlib::setup_pk(&rel, &vk);
                let proof = midnight_zk_stdlib::prove::<OpRel, blake2b_simd::State>(&srs, &pk, &rel, &e_off, wit.clone(), Prng::new(8, "c08").chacha("prove")).map_err(|e| format!("prove: {e:?}"))?;
                let vp = srs.verifier_params();
                midnight_zk_stdlib::verify::<OpRel, blake2b_simd::State>(&vp, &vk, &e_off, None, &proof).map_err(|e| format!("the off-circuit encoding is rejected by the real verifier: {e:?}"))?;
                let mut short = e_off.clone();
                short.pop();
                if !e_off.is_empty() && midnight_zk_stdlib::verify::<OpRel, blake2b_simd::State>(&vp, &vk, &short, None, &proof).is_ok() {
                    return Err("the real verifier accepts the encoding with its last element dropped".into());
                }
                let mut long = e_off.clone();
                long.push(Fq::from(0));
                if midnight_zk_stdlib::verify::<OpRel, blake2b_simd::State>(&vp, &vk, &long, None, &proof).is_ok() {
                    return Err("the real verifier accepts the encoding with a zero appended".into());
                }
                Ok(())
            })
        });
        match r {
            Ok(Ok(())) => st.probe("real_nb_public_inputs_checked"),
            Ok(Err(e)) => return Verdict::Violation(Viol::new("RealPipelineMismatch", format!("RealPipelineMismatch:{}", case.op), format!("{} {:?} {:?}: {e}", case.op, case.ins, case.bins))),
            Err(p) => return Verdict::Violation(Viol::new("RealPipelineMismatch", format!("RealPipelineMismatch:{}:panic", case.op), format!("{}: real pipeline panicked at {}: {}", case.op, p.site(), p.msg))),
        }
    }
    if st.samples.is_empty() {
        st.sample(0, json!({"case": case, "encoding": fes(&e_off)}));
    }
    Verdict::Pass
}
