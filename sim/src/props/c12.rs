//! C12 - MSM, FFT and the evaluation-domain algebra equal their naive
//! definitions. The scheduler is the subject: every entry point runs under a
//! PRNG-chosen pool size and task order and is compared with the naive
//! definition (and, for the large cases, with the sequential execution).
use ff::{Field, PrimeField};
use group::{Curve, Group};
use midnight_curves::{
    fft::best_fft,
    msm::{msm_best, msm_parallel, msm_serial},
    Bls12, Fq, G1Affine, G1Projective,
};
use midnight_proofs::{
    poly::{
        commitment::PolynomialCommitmentScheme,
        kzg::{msm::msm_specific, KZGCommitmentScheme},
        EvaluationDomain, Rotation,
    },
    utils::arithmetic::{eval_polynomial, g_to_lagrange, kate_division, lagrange_interpolate, parallelize},
};
use serde::{Deserialize, Serialize};
use serde_json::{json, Value};

use crate::{
    core::{
        prng::{self, Prng},
        runner::{catch, Check, Meta, Tier, Verdict, Viol},
        stats::Stats,
    },
    fixtures,
    pipeline::Sched,
    util::{draw_fq, uniform_fq},
};

pub struct C12;

#[derive(Clone, Copy, Debug, Serialize, Deserialize, PartialEq, Eq)]
pub enum MsmEntry {
    Best,
    Parallel,
    Serial,
    MultiExp,
    Specific,
}

#[derive(Clone, Debug, Serialize, Deserialize, PartialEq)]
pub enum Op {
    Msm { entry: MsmEntry, n: usize },
    FftScalar { log_n: u32 },
    FftG1 { log_n: u32 },
    GToLagrange { k: u32 },
    EvalPoly { n: usize },
    Parallelize { n: usize },
    /// coefficient <-> Lagrange <-> extended conversions and their inverses
    DomainConv { k: u32, j: u32 },
    Rotate { k: u32, rot: i32 },
    LiRange { k: u32, from: i32, to: i32 },
    DivideVanishing { k: u32, j: u32 },
    KateDivision { n: usize },
    Interpolate { n: usize },
    CommitBases { k: u32 },
}

#[derive(Clone, Debug, Serialize, Deserialize, PartialEq)]
pub struct Scn {
    pub op: Op,
    pub input_seed: u64,
    pub sched: Sched,
}

fn scalars(rng: &mut Prng, n: usize) -> Vec<Fq> {
    // class mix: zero, one, maximal (-1), small, random
    let mode = rng.below(4);
    (0..n)
        .map(|_| match mode {
            0 => uniform_fq(rng),
            1 => draw_fq(rng),
            2 => match rng.below(4) {
                0 => Fq::ZERO,
                1 => -Fq::ONE,
                _ => uniform_fq(rng),
            },
            _ => Fq::from(rng.below(4)),
        })
        .collect()
}

fn bases(rng: &mut Prng, n: usize) -> Vec<G1Projective> {
    let g = G1Projective::generator();
    let d = g * uniform_fq(rng);
    let mut cur = g * uniform_fq(rng);
    let special = rng.chance(1, 2);
    let mut out: Vec<G1Projective> = Vec::with_capacity(n);
    for i in 0..n {
        cur += d;
        let b = if special && i > 0 {
            match rng.below(12) {
                0 => G1Projective::identity(),
                1 => out[i - 1],  // repeated base
                2 => -out[i - 1], // opposite base
                _ => cur,
            }
        } else {
            cur
        };
        out.push(b);
    }
    out
}

fn naive_msm(s: &[Fq], b: &[G1Projective]) -> G1Projective {
    s.iter().zip(b).fold(G1Projective::identity(), |acc, (s, b)| acc + *b * *s)
}

fn to_affine(b: &[G1Projective]) -> Vec<G1Affine> {
    b.iter().map(|p| p.to_affine()).collect()
}

fn omega(log_n: u32) -> Fq {
    let mut w = Fq::ROOT_OF_UNITY;
    for _ in log_n..Fq::S {
        w = w.square();
    }
    w
}

fn naive_dft_scalar(a: &[Fq], w: Fq) -> Vec<Fq> {
    let n = a.len();
    (0..n)
        .map(|i| {
            let wi = w.pow_vartime([i as u64]);
            let mut acc = Fq::ZERO;
            let mut p = Fq::ONE;
            for x in a {
                acc += *x * p;
                p *= wi;
            }
            acc
        })
        .collect()
}

fn naive_eval(p: &[Fq], x: Fq) -> Fq {
    let mut acc = Fq::ZERO;
    let mut xp = Fq::ONE;
    for c in p {
        acc += *c * xp;
        xp *= x;
    }
    acc
}

fn mismatch(what: &str, detail: String) -> Verdict {
    Verdict::Violation(Viol::new("WrongResult", format!("WrongResult:{what}"), detail))
}

impl Check for C12 {
    fn id(&self) -> &'static str {
        "C12"
    }
    fn meta(&self) -> Meta {
        Meta {
            level: "exploration",
            rule: "one run = one entry point (msm_best / msm_parallel / msm_serial / G1Projective::multi_exp / msm_specific, best_fft over scalars and over G1, g_to_lagrange, eval_polynomial, parallelize, EvaluationDomain conversions, rotate, l_i_range, divide_by_vanishing_poly, kate_division, lagrange_interpolate, commit vs commit_lagrange) on a PRNG-drawn input (all lengths 0..70 in turn, then sampled up to 2^12, some crossing the Pippenger switch at e^9; identity, repeated and opposite bases; zero, one and maximal scalars) executed under a PRNG-drawn pool size and task order, compared with the naive definition. distinct_nontrivial counts distinct (entry point, size, pool size, schedule digest) tuples with pool size > 1 or non-identity order",
            assumptions: vec![
                "naive definitions use the library's own field and single-point group operations (C10/C11 are out of scope here)",
                "blst's Pippenger runs its real single-threaded path (no-threads); its own pool is not simulated",
            ],
            components: vec![
                ("msm.rs / fft.rs / arithmetic.rs / domain.rs / kzg commit", "real"),
                ("rayon", "simulated: deterministic PRNG scheduler (the subject)"),
                ("blst multi-exponentiation", "real, internal thread pool disabled"),
            ],
            expected_probes: vec![
                "msm_window_switch_4",
                "msm_window_switch_32",
                "msm_pippenger_buckets",
                "fft_recursive",
                "fft_iterative",
                "eval_poly_parallel_path",
                "empty_input",
                "pool_larger_than_input",
            ],
        }
    }
    fn runs(&self, tier: Tier) -> u64 {
        match tier {
            Tier::Quick => 2600,
            Tier::Thorough => 40000,
        }
    }
    fn generate(&self, rng: &mut Prng, tier: Tier, idx: u64) -> Value {
        let thorough = tier == Tier::Thorough;
        let entries = [MsmEntry::Best, MsmEntry::Parallel, MsmEntry::Serial, MsmEntry::MultiExp, MsmEntry::Specific];
        // the first 5*71 runs enumerate every length 0..70 for every MSM entry point
        let op = if idx < 355 {
            Op::Msm { entry: entries[(idx / 71) as usize], n: (idx % 71) as usize }
        } else if idx < 355 + 130 {
            // eval_polynomial and parallelize at every length 0..64
            let i = idx - 355;
            if i < 65 {
                Op::EvalPoly { n: i as usize }
            } else {
                Op::Parallelize { n: (i - 65) as usize }
            }
        } else {
            match rng.below(16) {
                0..=3 => {
                    let n = match rng.below(10) {
                        0 => rng.usize(5),
                        1 => 28 + rng.usize(8),
                        2..=6 => rng.usize(600),
                        7 | 8 => rng.usize(4097),
                        _ => {
                            if thorough || rng.chance(1, 2) {
                                8090 + rng.usize(40) // around e^9 = 8103.08: first Pippenger size
                            } else {
                                rng.usize(1200)
                            }
                        }
                    };
                    Op::Msm { entry: *rng.pick(&entries), n }
                }
                4 | 5 => Op::FftScalar { log_n: rng.below(if thorough { 13 } else { 11 }) as u32 },
                6 => Op::FftG1 { log_n: rng.below(7) as u32 },
                7 => Op::GToLagrange { k: rng.range(1, 6) as u32 },
                8 => Op::EvalPoly { n: rng.usize(3000) },
                9 => Op::Parallelize { n: rng.usize(5000) },
                10 => Op::DomainConv { k: rng.range(1, 10) as u32, j: rng.range(2, 9) as u32 },
                11 => Op::Rotate { k: rng.range(1, 8) as u32, rot: rng.range(0, 6) as i32 - 3 },
                12 => {
                    let k = rng.range(1, 8) as u32;
                    let from = -(rng.below(12) as i32);
                    Op::LiRange { k, from, to: from + rng.range(1, (1 << k) + 6) as i32 }
                }
                13 => Op::DivideVanishing { k: rng.range(1, 8) as u32, j: rng.range(2, 9) as u32 },
                14 => {
                    if rng.chance(1, 2) {
                        Op::KateDivision { n: rng.range(1, 600) as usize }
                    } else {
                        Op::Interpolate { n: rng.range(1, 7) as usize }
                    }
                }
                _ => Op::CommitBases { k: rng.range(1, 7) as u32 },
            }
        };
        serde_json::to_value(Scn { op, input_seed: rng.u64(), sched: Sched::draw(rng, thorough) }).unwrap()
    }
    fn execute(&self, scn: &Value, st: &mut Stats) -> Verdict {
        let s: Scn = match serde_json::from_value(scn.clone()) {
            Ok(s) => s,
            Err(e) => return Verdict::Harness(format!("bad scenario: {e}")),
        };
        let r = run(&s, st);
        if matches!(r, Verdict::Pass) && (s.sched.threads > 1 || s.sched.permute) {
            let sd = rayon::sim::get().digest;
            st.nontrivial(prng::digest(format!("{:?}|{}|{sd}", s.op, s.sched.threads).as_bytes()));
        }
        r
    }
    fn shrink(&self, scn: &Value, _v: &Viol) -> Vec<Value> {
        let s: Scn = serde_json::from_value(scn.clone()).unwrap();
        let mut out = vec![];
        if s.sched.permute {
            out.push(Scn { sched: Sched { permute: false, ..s.sched }, ..s.clone() });
        }
        if s.sched.threads > 1 {
            out.push(Scn { sched: Sched { threads: 1, ..s.sched }, ..s.clone() });
            out.push(Scn { sched: Sched { threads: s.sched.threads / 2, ..s.sched }, ..s.clone() });
        }
        if let Op::Msm { entry, n } = &s.op {
            for m in [n / 2, n.saturating_sub(1)] {
                if m != *n {
                    out.push(Scn { op: Op::Msm { entry: *entry, n: m }, ..s.clone() });
                }
            }
        }
        out.into_iter().map(|s| serde_json::to_value(s).unwrap()).collect()
    }
}

fn run(s: &Scn, st: &mut Stats) -> Verdict {
    let mut rng = Prng::new(s.input_seed, "inputs");
    let threads = s.sched.threads;
    st.inc(&format!("pool.{}", threads.min(65)));
    macro_rules! guarded {
        ($what:expr, $e:expr) => {{
            s.sched.enter();
            match catch(|| $e) {
                Ok(v) => v,
                Err(p) => {
                    return Verdict::Violation(Viol::new(
                        "Panic",
                        format!("Panic:{}@{}", $what, p.site_file()),
                        format!("{} panicked at {} under pool {}: {}", $what, p.site(), threads, p.msg),
                    ))
                }
            }
        }};
    }
    match &s.op {
        Op::Msm { entry, n } => {
            let n = *n;
            if n == 0 {
                st.probe("empty_input");
            }
            if threads > n {
                st.probe("pool_larger_than_input");
            }
            if (3..=4).contains(&n) {
                st.probe("msm_window_switch_4");
            }
            if (31..=32).contains(&n) {
                st.probe("msm_window_switch_32");
            }
            if n >= 8104 && *entry == MsmEntry::Best {
                st.probe("msm_pippenger_buckets");
            }
            let sc = scalars(&mut rng, n);
            let b = bases(&mut rng, n);
            let aff = to_affine(&b);
            let expect = rayon::sim::isolated(1, || naive_msm(&sc, &b));
            let what = format!("{entry:?}");
            let got = match entry {
                MsmEntry::Best => guarded!(what, msm_best(&sc, &aff)),
                MsmEntry::Parallel => guarded!(what, msm_parallel(&sc, &aff)),
                MsmEntry::Serial => guarded!(what, {
                    let mut acc = G1Projective::identity();
                    msm_serial(&sc, &aff, &mut acc);
                    acc
                }),
                MsmEntry::MultiExp => guarded!(what, G1Projective::multi_exp(&b, &sc)),
                MsmEntry::Specific => guarded!(what, msm_specific::<G1Affine>(&sc, &b)),
            };
            if got != expect {
                return mismatch(
                    &format!("msm-{entry:?}"),
                    format!("{entry:?} of {n} terms under pool {threads} (permute {}) differs from the naive sum", s.sched.permute),
                );
            }
        }
        Op::FftScalar { log_n } => {
            let n = 1usize << log_n;
            let a = scalars(&mut rng, n);
            let w = omega(*log_n);
            let mut got = a.clone();
            guarded!("best_fft", best_fft(&mut got, w, *log_n));
            if *log_n as usize > (threads.ilog2() as usize) {
                st.probe("fft_recursive");
            } else {
                st.probe("fft_iterative");
            }
            let expect = if *log_n <= 9 {
                naive_dft_scalar(&a, w)
            } else {
                // large: compare with the sequential execution (itself compared with the naive DFT at <= 2^9)
                let mut e = a.clone();
                rayon::sim::isolated(1, || best_fft(&mut e, w, *log_n));
                e
            };
            if got != expect {
                return mismatch("fft-scalar", format!("best_fft of 2^{log_n} scalars under pool {threads} differs from the DFT"));
            }
        }
        Op::FftG1 { log_n } => {
            let n = 1usize << log_n;
            let a = bases(&mut rng, n);
            let w = omega(*log_n);
            let mut got = a.clone();
            guarded!("best_fft-g1", best_fft(&mut got, w, *log_n));
            for (i, g) in got.iter().enumerate() {
                let wi = w.pow_vartime([i as u64]);
                let mut p = Fq::ONE;
                let mut acc = G1Projective::identity();
                for x in &a {
                    acc += *x * p;
                    p *= wi;
                }
                if acc != *g {
                    return mismatch("fft-g1", format!("best_fft of 2^{log_n} points under pool {threads}: output {i} differs from the DFT"));
                }
            }
        }
        Op::GToLagrange { k } => {
            let n = 1usize << k;
            let g = bases(&mut rng, n);
            let got = guarded!("g_to_lagrange", g_to_lagrange(&g, *k));
            let w_inv = omega(*k).invert().unwrap();
            let n_inv = Fq::from(n as u64).invert().unwrap();
            for i in 0..n {
                let wi = w_inv.pow_vartime([i as u64]);
                let mut p = n_inv;
                let mut acc = G1Projective::identity();
                for x in &g {
                    acc += *x * p;
                    p *= wi;
                }
                if acc != got[i] {
                    return mismatch("g_to_lagrange", format!("g_to_lagrange(k={k}) under pool {threads}: element {i} differs from (1/n) sum_j w^(-ij) g_j"));
                }
            }
        }
        Op::EvalPoly { n } => {
            let p = scalars(&mut rng, *n);
            let x = draw_fq(&mut rng);
            if *n == 0 {
                st.probe("empty_input");
            }
            if n * 2 >= threads {
                st.probe("eval_poly_parallel_path");
            }
            let got = guarded!("eval_polynomial", eval_polynomial(&p, x));
            if got != naive_eval(&p, x) {
                return mismatch("eval_polynomial", format!("eval_polynomial of {n} coefficients under pool {threads} differs from the sum of c_i x^i"));
            }
        }
        Op::Parallelize { n } => {
            let mut v = vec![u64::MAX; *n];
            if threads > *n {
                st.probe("pool_larger_than_input");
            }
            guarded!(
                "parallelize",
                parallelize(&mut v, |chunk, offset| {
                    for (i, x) in chunk.iter_mut().enumerate() {
                        // every element must be visited exactly once with its own index
                        *x = if *x == u64::MAX { (offset + i) as u64 } else { u64::MAX - 1 };
                    }
                })
            );
            if let Some(i) = (0..*n).find(|i| v[*i] != *i as u64) {
                return mismatch("parallelize", format!("parallelize over {n} items under pool {threads}: item {i} saw index {}", v[i]));
            }
        }
        Op::DomainConv { k, j } => {
            let n = 1usize << k;
            let d = guarded!("EvaluationDomain::new", EvaluationDomain::<Fq>::new(*j, *k));
            let coeffs = scalars(&mut rng, n);
            let w = d.get_omega();
            // coeff -> lagrange equals evaluation at w^i
            let lag = guarded!("coeff_to_lagrange", d.coeff_to_lagrange(d.coeff_from_vec(coeffs.clone())));
            if *k <= 7 {
                for i in 0..n {
                    if lag[i] != naive_eval(&coeffs, w.pow_vartime([i as u64])) {
                        return mismatch("coeff_to_lagrange", format!("k={k} pool {threads}: value {i} is not p(w^{i})"));
                    }
                }
            }
            let back = guarded!("lagrange_to_coeff", d.lagrange_to_coeff(lag.clone()));
            if back[..] != coeffs[..] {
                return mismatch("lagrange_to_coeff", format!("k={k} j={j} pool {threads}: lagrange_to_coeff(coeff_to_lagrange(p)) != p"));
            }
            // extended: evaluations on the coset zeta * w_ext^i
            let ext = guarded!("coeff_to_extended", d.coeff_to_extended(d.coeff_from_vec(coeffs.clone())));
            if *k <= 5 {
                let we = d.get_extended_omega();
                let zeta = <Fq as ff::WithSmallOrderMulGroup<3>>::ZETA;
                for i in 0..ext.len().min(64) {
                    if ext[i] != naive_eval(&coeffs, zeta * we.pow_vartime([i as u64])) {
                        return mismatch("coeff_to_extended", format!("k={k} j={j} pool {threads}: extended value {i} is not p(zeta w_ext^{i})"));
                    }
                }
            }
            let lag2 = guarded!("extended_to_lagrange", d.extended_to_lagrange(ext.clone()));
            if lag2[..] != lag[..] {
                return mismatch("extended_to_lagrange", format!("k={k} j={j} pool {threads}: extended_to_lagrange(coeff_to_extended(p)) != coeff_to_lagrange(p)"));
            }
            let back2 = guarded!("extended_to_coeff", d.extended_to_coeff(ext));
            if back2[..n] != coeffs[..] || back2[n..].iter().any(|x| *x != Fq::ZERO) {
                return mismatch("extended_to_coeff", format!("k={k} j={j} pool {threads}: extended_to_coeff(coeff_to_extended(p)) != p"));
            }
        }
        Op::Rotate { k, rot } => {
            let n = 1usize << k;
            let d = EvaluationDomain::<Fq>::new(2, *k);
            let vals = scalars(&mut rng, n);
            let lag = d.lagrange_from_vec(vals.clone());
            let r = guarded!("rotate", lag.rotate(Rotation(*rot)));
            // rotating the evaluations by r is evaluating p(w^r X)
            for i in 0..n {
                let src = ((i as i64 + *rot as i64).rem_euclid(n as i64)) as usize;
                if r[i] != vals[src] {
                    return mismatch("rotate", format!("k={k} rotation {rot}: value {i} should be the original value {src}"));
                }
            }
            let x = draw_fq(&mut rng);
            let wr = if *rot >= 0 { d.get_omega().pow_vartime([*rot as u64]) } else { d.get_omega_inv().pow_vartime([(-*rot) as u64]) };
            if d.rotate_omega(x, Rotation(*rot)) != x * wr {
                return mismatch("rotate_omega", format!("k={k} rotation {rot}: rotate_omega(x) != x w^r"));
            }
        }
        Op::LiRange { k, from, to } => {
            let n = 1u64 << k;
            let d = EvaluationDomain::<Fq>::new(2, *k);
            let x = uniform_fq(&mut rng);
            let xn = x.pow_vartime([n]);
            // the index list: the ascending range, or (drawn from the run's generator) the range
            // reversed, stepped, shuffled, or with repeated indices - the argument is any iterator
            let mut list: Vec<i32> = (*from..*to).collect();
            match rng.below(6) {
                0 => list.reverse(),
                1 => list = list.into_iter().step_by(2).collect(),
                2 => rng.shuffle(&mut list),
                3 => {
                    let extra: Vec<i32> = list.iter().rev().take(3).copied().collect();
                    list.extend(extra);
                }
                _ => {}
            }
            let got = guarded!("l_i_range", d.l_i_range(x, xn, list.clone()));
            if got.len() != list.len() {
                return mismatch("l_i_range", format!("k={k} indices {list:?}: {} values returned", got.len()));
            }
            let w = d.get_omega();
            let n_inv = Fq::from(n).invert().unwrap();
            for (idx, i) in list.iter().copied().enumerate() {
                // l_i(x) = (x^n - 1) w^i / (n (x - w^i)), indices mod n (negative and beyond-n included)
                let e = (i as i64).rem_euclid(n as i64) as u64;
                let wi = w.pow_vartime([e]);
                let expect = (xn - Fq::ONE) * wi * n_inv * (x - wi).invert().unwrap();
                if got[idx] != expect {
                    return mismatch("l_i_range", format!("k={k} indices {list:?}: l_{i}(x) differs from the Lagrange basis polynomial"));
                }
            }
        }
        Op::DivideVanishing { k, j } => {
            let n = 1usize << k;
            let d = EvaluationDomain::<Fq>::new(*j, *k);
            // h(X) = a(X) (X^n - 1) with deg a < n; dividing h (extended form) by X^n - 1 gives a
            let a = scalars(&mut rng, n);
            let a_ext = d.coeff_to_extended(d.coeff_from_vec(a.clone()));
            let we = d.get_extended_omega();
            let zeta = <Fq as ff::WithSmallOrderMulGroup<3>>::ZETA;
            let mut h = a_ext.clone();
            for i in 0..h.len() {
                let pt = zeta * we.pow_vartime([i as u64]);
                h[i] *= pt.pow_vartime([n as u64]) - Fq::ONE;
            }
            let q = guarded!("divide_by_vanishing_poly", d.divide_by_vanishing_poly(h));
            if q[..] != a_ext[..] {
                return mismatch("divide_by_vanishing_poly", format!("k={k} j={j} pool {threads}: (a * (X^n-1)) / (X^n-1) != a on the extended coset"));
            }
        }
        Op::KateDivision { n } => {
            let p = scalars(&mut rng, *n);
            let b = draw_fq(&mut rng);
            let q = guarded!("kate_division", kate_division(&p, b));
            // p(X) - p(b) = q(X) (X - b)
            let pb = naive_eval(&p, b);
            let mut prod = vec![Fq::ZERO; *n];
            for (i, c) in q.iter().enumerate() {
                prod[i + 1] += *c;
                prod[i] -= *c * b;
            }
            let mut lhs = p.clone();
            lhs[0] -= pb;
            if q.len() + 1 != *n || prod != lhs {
                return mismatch("kate_division", format!("degree {}: q(X)(X-b) != p(X) - p(b)", n - 1));
            }
        }
        Op::Interpolate { n } => {
            let mut pts: Vec<Fq> = vec![];
            while pts.len() < *n {
                let x = uniform_fq(&mut rng);
                if !pts.contains(&x) {
                    pts.push(x);
                }
            }
            let evals = scalars(&mut rng, *n);
            let poly = guarded!("lagrange_interpolate", lagrange_interpolate(&pts, &evals));
            if poly.len() != *n || pts.iter().zip(&evals).any(|(x, e)| naive_eval(&poly, *x) != *e) {
                return mismatch("lagrange_interpolate", format!("{n} points: the interpolant does not pass through the points"));
            }
        }
        Op::CommitBases { k } => {
            let n = 1usize << k;
            let params = fixtures::srs(*k);
            let d = EvaluationDomain::<Fq>::new(2, *k);
            let coeffs = scalars(&mut rng, n);
            let c1 = guarded!("commit", KZGCommitmentScheme::<Bls12>::commit(&params, &d.coeff_from_vec(coeffs.clone())));
            let lag = d.coeff_to_lagrange(d.coeff_from_vec(coeffs.clone()));
            let c2 = guarded!("commit_lagrange", KZGCommitmentScheme::<Bls12>::commit_lagrange(&params, &lag));
            if c1 != c2 {
                return mismatch("commit-vs-commit_lagrange", format!("k={k} pool {threads}: commitment in the monomial and in the Lagrange basis differ"));
            }
        }
    }
    if st.samples.is_empty() {
        st.sample(0, json!({"op": format!("{:?}", s.op), "pool": threads, "permute": s.sched.permute}));
    }
    Verdict::Pass
}
