//! Standard-library relations through the real pipeline (shared by C01 and
//! C17): the relations are the operation registry's (`OpRel`), i.e. every
//! standard-library relation the harness builds; public inputs are the ones
//! the circuit binds for the honest witness.
use midnight_circuits::hash::poseidon::PoseidonState;
use midnight_curves::Fq;
use midnight_proofs::{circuit::Value as CValue, utils::SerdeFormat};
use midnight_zk_stdlib::{MidnightCircuit, MidnightPK, MidnightVK};
use serde::{Deserialize, Serialize};

use crate::{
    core::{
        fio::{FaultyReader, FaultyWriter, IoPlan},
        prng::{self, Prng},
        runner::{catch, Verdict, Viol},
        stats::Stats,
    },
    fixtures,
    opcirc::{run_mock, MockVerdict},
    ops::{self, OpCase, OpRel},
    pipeline::{HashKind, Sched},
    props::opcheck,
};

#[derive(Clone, Debug, Serialize, Deserialize, PartialEq)]
pub struct StdScn {
    pub case: OpCase,
    pub hash: HashKind,
    pub sched_keygen: Sched,
    pub sched_keygen2: Sched,
    pub sched_prove: Sched,
    pub sched_verify: Sched,
    pub blinding_seed: u64,
    /// C17: serialisation formats and the disk the keys go through
    pub fmt_raw: bool,
    pub io: IoPlan,
}

pub fn gen(rng: &mut Prng, thorough: bool) -> StdScn {
    // operations whose circuits stay small (the heavy ones are skipped at run time by their k)
    let all: Vec<String> = ops::all_ops().into_iter().filter(|o| !o.starts_with("ff.c25519")).collect();
    let op = &all[rng.usize(all.len())];
    let mut case = ops::gen_case(rng, op);
    let mut guard = 0;
    while !ops::expected_admissible(&case) && guard < 20 {
        case = ops::gen_case(rng, op);
        guard += 1;
    }
    StdScn {
        case,
        hash: if rng.chance(1, 3) { HashKind::Poseidon } else { HashKind::Blake2b },
        sched_keygen: Sched::draw(rng, thorough),
        sched_keygen2: Sched::draw(rng, thorough),
        sched_prove: Sched::draw(rng, thorough),
        sched_verify: Sched::draw(rng, thorough),
        blinding_seed: rng.u64(),
        fmt_raw: rng.chance(1, 2),
        io: IoPlan::benign(rng),
    }
}

fn vio(class: &str, what: &str, detail: String) -> Verdict {
    Verdict::Violation(Viol::new(class, format!("{class}:{what}"), detail))
}

fn prove(s: &StdScn, srs: &midnight_proofs::poly::kzg::params::ParamsKZG<midnight_curves::Bls12>, pk: &MidnightPK<OpRel>, rel: &OpRel, pi: &Vec<Fq>, tag: &str) -> Result<Vec<u8>, String> {
    let rng = Prng::new(s.blinding_seed, tag).chacha("prove");
    // what the prover draws outside the caller's generator (entropy seam) restarts too,
    // so that two provers given the same randomness can be compared byte for byte
    midnight_proofs::verif_hooks::seed_entropy(Some(prng::digest(format!("{}|{tag}", s.blinding_seed).as_bytes())));
    let w = ops::witness(&s.case);
    match s.hash {
        HashKind::Blake2b => midnight_zk_stdlib::prove::<OpRel, blake2b_simd::State>(srs, pk, rel, pi, w, rng),
        HashKind::Poseidon => midnight_zk_stdlib::prove::<OpRel, PoseidonState<Fq>>(srs, pk, rel, pi, w, rng),
    }
    .map_err(|e| format!("{e:?}"))
}

fn verify(s: &StdScn, srs: &midnight_proofs::poly::kzg::params::ParamsKZG<midnight_curves::Bls12>, vk: &MidnightVK, pi: &[Fq], proof: &[u8]) -> Result<(), String> {
    let vp = srs.verifier_params();
    match s.hash {
        HashKind::Blake2b => midnight_zk_stdlib::verify::<OpRel, blake2b_simd::State>(&vp, vk, &pi.to_vec(), None, proof),
        HashKind::Poseidon => midnight_zk_stdlib::verify::<OpRel, PoseidonState<Fq>>(&vp, vk, &pi.to_vec(), None, proof),
    }
    .map_err(|e| format!("{e:?}"))
}

/// The statement the circuit binds for the honest witness; None: the case is
/// not satisfiable or too large for this pipeline.
fn statement(s: &StdScn, st: &mut Stats) -> Result<Option<(OpRel, Vec<Fq>, u32)>, Verdict> {
    let case = &s.case;
    let rel = OpRel { case: case.clone() };
    let k = match opcheck::min_k(case) {
        Ok(k) => k,
        Err(e) => return Err(Verdict::Harness(e)),
    };
    if k > 12 {
        st.inc("std.skipped_large_k");
        return Ok(None);
    }
    let circuit = MidnightCircuit::new(&rel, CValue::known(vec![]), CValue::known(ops::witness(case)), Some(case.mbl));
    let m = run_mock(k, &circuit, &[], false);
    if m.verdict != MockVerdict::Accept {
        st.inc("std.skipped_unsatisfiable_case");
        return Ok(None);
    }
    let k2 = match catch(|| rayon::sim::isolated(1, || MidnightCircuit::from_relation(&rel).min_k())) {
        Ok(k) => k,
        Err(p) => return Err(Verdict::Harness(format!("cost model panicked at {}: {}", p.site(), p.msg))),
    };
    if k2 > 12 {
        st.inc("std.skipped_large_k");
        return Ok(None);
    }
    Ok(Some((rel, m.bound_plain, k2)))
}

/// C01 on a standard-library relation: the honest proof verifies, under drawn schedules.
pub fn run_c01(s: &StdScn, st: &mut Stats) -> Verdict {
    let (rel, pi, k) = match statement(s, st) {
        Ok(Some(x)) => x,
        Ok(None) => return Verdict::Pass,
        Err(v) => return v,
    };
    st.inc(&format!("std.op.{}", s.case.op));
    let srs = fixtures::srs(k);
    let r = catch(|| -> Result<(), String> {
        s.sched_keygen.enter();
        let vk = midnight_zk_stdlib::setup_vk(&srs, &rel);
        let pk = midnight_zk_stdlib::setup_pk(&rel, &vk);
        s.sched_prove.enter();
        let proof = prove(s, &srs, &pk, &rel, &pi, "c01").map_err(|e| format!("the honest prover fails: {e}"))?;
        s.sched_verify.enter();
        verify(s, &srs, &vk, &pi, &proof).map_err(|e| format!("the honest proof is rejected: {e}"))?;
        Ok(())
    });
    st.events += 1;
    st.nontrivial(prng::digest(format!("std|{}|{:?}", serde_json::to_string(&s.case).unwrap(), s.hash).as_bytes()));
    match r {
        Ok(Ok(())) => {
            st.probe("std_relation_proof_accepted");
            Verdict::Pass
        }
        Ok(Err(e)) => vio("HonestRejected", &format!("std:{}", s.case.op), format!("standard-library relation {} {:?} ({:?}; pools keygen {:?} prove {:?} verify {:?}): {e}", s.case.op, s.case.p, s.hash, s.sched_keygen.threads, s.sched_prove.threads, s.sched_verify.threads)),
        Err(p) => vio("HonestRejected", &format!("std:{}:panic", s.case.op), format!("standard-library relation {} {:?}: the pipeline panicked at {}: {}", s.case.op, s.case.p, p.site(), p.msg)),
    }
}

/// C17 on a standard-library relation: key generation under two schedules gives
/// identical keys; vk and pk survive a write / restart / read over a faulty
/// disk; proofs of original and reloaded pk verify under original and reloaded vk.
pub fn run_c17(s: &StdScn, st: &mut Stats) -> Verdict {
    let (rel, pi, k) = match statement(s, st) {
        Ok(Some(x)) => x,
        Ok(None) => return Verdict::Pass,
        Err(v) => return v,
    };
    let srs = fixtures::srs(k);
    let fmt = if s.fmt_raw { SerdeFormat::RawBytes } else { SerdeFormat::Processed };
    let r = catch(|| -> Result<(), String> {
        s.sched_keygen.enter();
        let vk = midnight_zk_stdlib::setup_vk(&srs, &rel);
        let pk = midnight_zk_stdlib::setup_pk(&rel, &vk);
        s.sched_keygen2.enter();
        let vk_b = midnight_zk_stdlib::setup_vk(&srs, &rel);
        let ser_vk = |v: &MidnightVK| -> Result<Vec<u8>, String> {
            let mut w = FaultyWriter::new(&s.io);
            v.write(&mut w, fmt).map_err(|e| format!("vk write under short writes / EINTR: {e}"))?;
            Ok(w.out)
        };
        let (a, b) = (ser_vk(&vk)?, ser_vk(&vk_b)?);
        if a != b {
            return Err(format!("key generation under pools {} and {} gives different verifying keys (first difference at byte {:?})", s.sched_keygen.threads, s.sched_keygen2.threads, a.iter().zip(&b).position(|(x, y)| x != y)));
        }
        // restart: only the bytes survive
        let vk2 = MidnightVK::read(&mut FaultyReader::new(&a, &s.io), fmt).map_err(|e| format!("vk read back: {e}"))?;
        if ser_vk(&vk2)? != a {
            return Err("the reloaded verifying key serialises to other bytes".into());
        }
        let mut w = FaultyWriter::new(&s.io);
        pk.write(&mut w, fmt).map_err(|e| format!("pk write: {e}"))?;
        let pk_bytes = w.out;
        let pk2 = MidnightPK::<OpRel>::read(&mut FaultyReader::new(&pk_bytes, &s.io), fmt).map_err(|e| format!("pk read back: {e}"))?;
        let mut w2 = vec![];
        pk2.write(&mut w2, fmt).map_err(|e| format!("pk re-write: {e}"))?;
        if w2 != pk_bytes {
            return Err("the reloaded proving key serialises to other bytes".into());
        }
        // four-way interchangeability
        s.sched_prove.enter();
        let p1 = prove(s, &srs, &pk, &rel, &pi, "c17a").map_err(|e| format!("prove with the original pk: {e}"))?;
        let p2 = prove(s, &srs, &pk2, &rel, &pi, "c17a").map_err(|e| format!("prove with the reloaded pk: {e}"))?;
        if p1 != p2 {
            return Err("original and reloaded proving key produce different proofs from the same randomness".into());
        }
        s.sched_verify.enter();
        for (pn, p) in [("original", &p1), ("reloaded", &p2)] {
            for (vn, v) in [("original", &vk), ("reloaded", &vk2)] {
                verify(s, &srs, v, &pi, p).map_err(|e| format!("proof of the {pn} pk under the {vn} vk: {e}"))?;
            }
        }
        Ok(())
    });
    st.events += 1;
    st.nontrivial(prng::digest(format!("std17|{}|{:?}|{}", serde_json::to_string(&s.case).unwrap(), s.hash, s.fmt_raw).as_bytes()));
    match r {
        Ok(Ok(())) => {
            st.probe("std_relation_keys_round_trip");
            Verdict::Pass
        }
        Ok(Err(e)) => vio("KeyRoundTrip", &format!("std:{}", s.case.op), format!("standard-library relation {} {:?} ({:?}, {}): {e}", s.case.op, s.case.p, s.hash, if s.fmt_raw { "RawBytes" } else { "Processed" })),
        Err(p) => vio("KeyRoundTrip", &format!("std:{}:panic", s.case.op), format!("standard-library relation {} {:?}: panicked at {}: {}", s.case.op, s.case.p, p.site(), p.msg)),
    }
}
