//! C01 - honest proofs verify for every circuit shape and proving configuration.
//! The fault-free configuration of the proof pipeline simulation.
use serde::{Deserialize, Serialize};
use serde_json::{json, Value};

use crate::{
    core::{
        prng::{self, Prng},
        runner::{catch, Check, Meta, Tier, Verdict, Viol},
        stats::Stats,
    },
    gen_circuit::{gen_spec, gen_witness, CopySpec, GenOpts, Kind, Spec, Witness},
    pipeline::{self, HashKind, Sched},
    tracing_t,
};

pub struct C01;

#[derive(Clone, Debug, Serialize, Deserialize, PartialEq)]
pub struct Scn {
    pub spec: Spec,
    pub witnesses: Vec<Witness>,
    pub nb_committed: usize,
    pub hash: HashKind,
    pub sched_keygen: Sched,
    pub sched_prove: Sched,
    pub sched_verify: Sched,
    pub blinding_seed: u64,
}

pub fn gen_scn(rng: &mut Prng, tier: Tier) -> Scn {
    gen_scn_k(rng, tier, 9)
}

pub fn gen_scn_k(rng: &mut Prng, tier: Tier, k_cap: u32) -> Scn {
    let thorough = tier == Tier::Thorough;
    let k_max = if thorough { 9 } else { *rng.pick(&[6u32, 6, 7, 7, 8, 9]) };
    let k_max = k_max.min(k_cap);
    let spec = gen_spec(rng, GenOpts { k_min: 4, k_max, allow_phases: true, max_rot: 2 });
    let n_proofs = *rng.pick(&[1usize, 1, 1, 2, 2, 3, 4]);
    let witnesses = (0..n_proofs).map(|_| gen_witness(rng, &spec)).collect();
    let nb_committed = rng.usize(spec.n_instance.min(2) + 1);
    Scn {
        nb_committed,
        hash: if rng.chance(1, 3) { HashKind::Poseidon } else { HashKind::Blake2b },
        sched_keygen: Sched::draw(rng, thorough),
        sched_prove: Sched::draw(rng, thorough),
        sched_verify: Sched::draw(rng, thorough),
        blinding_seed: rng.u64(),
        spec,
        witnesses,
    }
}

pub fn shape_probes(spec: &Spec, st: &mut Stats) {
    if spec.advice.iter().any(|c| c.phase > 0) {
        st.probe("multi_phase");
    }
    if spec.advice.iter().any(|c| c.phase > 1) {
        st.probe("three_phases");
    }
    if spec.advice.iter().any(|c| c.unblinded) {
        st.probe("unblinded_advice");
    }
    if spec.gate_uses.iter().any(|g| spec.gates[g.gate].additive) {
        st.probe("additive_selector_gate_used");
    }
    if spec.gate_uses.iter().any(|g| spec.gates[g.gate].cells.iter().any(|c| c.kind == Kind::I)) {
        st.probe("instance_query_in_gate");
    }
    if spec.gate_uses.iter().any(|g| {
        spec.gates[g.gate].constraints.iter().any(|c| c.terms.iter().any(|t| !t.chals.is_empty()))
    }) {
        st.probe("challenge_in_gate");
    }
    if spec.lookup_uses.iter().any(|l| spec.lookups[*l].any) {
        st.probe("lookup_any_used");
    }
    if spec.lookup_uses.iter().any(|l| !spec.lookups[*l].any) {
        st.probe("lookup_table_used");
    }
    for c in &spec.copies {
        st.probe(match c {
            CopySpec::AdvAdv { .. } => "copy_advice_advice",
            CopySpec::GateCell { .. } => "copy_gate_cell",
            CopySpec::AdvInst { .. } => "copy_instance",
            CopySpec::AdvConst { .. } => "copy_constant",
            CopySpec::AdvFixed { .. } => "copy_fixed",
            CopySpec::Class { .. } => "copy_class",
        });
    }
    if spec.v1 {
        st.probe("floor_planner_v1");
    }
    st.inc(&format!("k.{}", spec.k));
}

impl Check for C01 {
    fn id(&self) -> &'static str {
        "C01"
    }
    fn meta(&self) -> Meta {
        Meta {
            level: "exploration",
            rule: "seven runs in eight: one pipeline (keygen -> prove n circuits together -> verify) over a PRNG-generated circuit spec, satisfying witnesses, committed/plain split, transcript hash, per-party pool size and task order, blinding stream; no faults. distinct_nontrivial counts distinct scenario digests among runs in which the prover produced a proof and the verifier was executed; every 8th run: a standard-library relation of the operation registry (k <= 12) through setup_vk / setup_pk / prove / verify under drawn schedules and both transcript hashes, with the public inputs its circuit binds",
            assumptions: vec![
                "SRS from a fixed toxic secret via ParamsKZG::unsafe_setup (stub of the ceremony)",
                "rayon replaced by the deterministic scheduler shim; blst internal pool disabled (no-threads)",
                "the generated family (GenCircuit) is a sample of 'every circuit the proving system can express'",
            ],
            components: vec![
                ("keygen / prover / verifier / KZG / transcript (midnight-proofs)", "real"),
                ("blst", "real, internal thread pool disabled"),
                ("rayon", "simulated: deterministic PRNG scheduler"),
                ("SRS ceremony", "stub: fixed secret"),
                ("MockProver", "real (used to validate the generated honest witness)"),
            ],
            expected_probes: vec![
                "multi_phase",
                "additive_selector_gate_used",
                "lookup_any_used",
                "lookup_table_used",
                "copy_instance",
                "copy_constant",
                "committed_instances",
                "multi_proof",
                "multi_proof_with_committed",
                "poseidon_transcript",
                "floor_planner_v1",
                "unblinded_advice",
                "instance_query_in_gate",
                "challenge_in_gate",
            ],
        }
    }
    fn runs(&self, tier: Tier) -> u64 {
        match tier {
            Tier::Quick => 6000,
            Tier::Thorough => 60000,
        }
    }
    fn generate(&self, rng: &mut Prng, tier: Tier, idx: u64) -> Value {
        // every 8th run: a standard-library relation of the operation registry through setup / prove / verify
        if idx % 8 == 7 {
            return serde_json::json!({"std": super::stdpipe::gen(rng, tier == Tier::Thorough)});
        }
        serde_json::to_value(gen_scn(rng, tier)).unwrap()
    }
    fn execute(&self, scn: &Value, st: &mut Stats) -> Verdict {
        if let Some(std) = scn.get("std") {
            return match serde_json::from_value::<super::stdpipe::StdScn>(std.clone()) {
                Ok(s) => super::stdpipe::run_c01(&s, st),
                Err(e) => Verdict::Harness(format!("bad scenario: {e}")),
            };
        }
        let s: Scn = match serde_json::from_value(scn.clone()) {
            Ok(s) => s,
            Err(e) => return Verdict::Harness(format!("bad scenario: {e}")),
        };
        run_honest(&s, st)
    }
    fn shrink(&self, scn: &Value, _viol: &Viol) -> Vec<Value> {
        if scn.get("std").is_some() {
            return vec![];
        }
        let s: Scn = serde_json::from_value(scn.clone()).unwrap();
        shrink_scn(&s).into_iter().map(|s| serde_json::to_value(s).unwrap()).collect()
    }
}

pub fn run_honest(s: &Scn, st: &mut Stats) -> Verdict {
    shape_probes(&s.spec, st);
    if s.nb_committed > 0 {
        st.probe("committed_instances");
    }
    if s.witnesses.len() > 1 {
        st.probe("multi_proof");
        if s.nb_committed > 0 {
            st.probe("multi_proof_with_committed");
        }
    }
    if s.hash == HashKind::Poseidon {
        st.probe("poseidon_transcript");
    }
    // key generator
    s.sched_keygen.enter();
    let (vk, pk) = match catch(|| pipeline::keygen(&s.spec)) {
        Ok(Ok(k)) => k,
        Ok(Err(e)) => {
            return Verdict::Harness(format!("keygen failed on a generated circuit: {e:?}"))
        }
        Err(p) => {
            return Verdict::Violation(Viol::new(
                "HonestRejected",
                "HonestRejected@keygen-panic",
                format!("keygen panicked at {}: {}", p.site(), p.msg),
            ))
        }
    };
    // reference: the constraint checker on every honest witness
    let mock_ok = rayon::sim::isolated(1, || {
        s.witnesses.iter().all(|w| match pipeline::mock(&s.spec, w) {
            Ok(()) => true,
            Err(e) => {
                if std::env::var("ZKSIM_DEBUG").is_ok() {
                    eprintln!("mock failures: {:#?}", &e[..e.len().min(3)]);
                }
                false
            }
        })
    });
    // prover
    s.sched_prove.enter();
    let rng = Prng::new(s.blinding_seed, "blinding").chacha("prove");
    let (proof, plog) = match catch(|| {
        pipeline::prove(&pk, &s.spec, &s.witnesses, s.nb_committed, s.hash, rng)
    }) {
        Ok(x) => x,
        Err(p) => {
            if !mock_ok {
                return Verdict::Harness(format!(
                    "generator produced an unsatisfying witness (prover panicked at {})",
                    p.site()
                ));
            }
            return Verdict::Violation(Viol::new(
                "HonestRejected",
                "HonestRejected@prove-panic",
                format!("prover panicked at {}: {}", p.site(), p.msg),
            ));
        }
    };
    st.events += plog.len() as u64;
    let proof = match proof {
        Ok(p) => p,
        Err(e) => {
            if !mock_ok {
                return Verdict::Harness(format!(
                    "generator produced an unsatisfying witness (prover: {e:?})"
                ));
            }
            return Verdict::Violation(Viol::new(
                "HonestRejected",
                "HonestRejected@prove",
                format!("create_proof returned {e:?} on a satisfying witness"),
            ));
        }
    };
    st.add("proof_bytes", proof.len() as u64);
    // verifier
    let stmts: Vec<_> = s
        .witnesses
        .iter()
        .map(|w| pipeline::statement(&vk, s.spec.k, w, s.nb_committed))
        .collect();
    s.sched_verify.enter();
    let (res, vlog) = match catch(|| pipeline::verify(s.spec.k, &vk, &stmts, &proof, s.hash)) {
        Ok(x) => x,
        Err(p) => {
            return Verdict::Violation(Viol::new(
                "HonestRejected",
                "HonestRejected@verify-panic",
                format!("verifier panicked at {}: {}", p.site(), p.msg),
            ))
        }
    };
    st.events += vlog.len() as u64;
    st.nontrivial(prng::digest(serde_json::to_string(s).unwrap().as_bytes()));
    match res {
        Ok(()) => {
            if !mock_ok {
                // the real verifier accepts what the checker rejects: C02's subject; count it
                st.probe("mock_rejects_but_verifier_accepts");
            }
            Verdict::Pass
        }
        Err(e) => {
            if !mock_ok {
                return Verdict::Harness(
                    "generator produced an unsatisfying witness (mock and verifier reject)".into(),
                );
            }
            let div = tracing_t::first_divergence(&plog, &vlog)
                .map(|(i, d)| format!("first transcript divergence at op {i}: {d}"))
                .unwrap_or_else(|| "transcripts agree".into());
            Verdict::Violation(Viol::new(
                "HonestRejected",
                "HonestRejected@verify",
                format!(
                    "honest proof rejected ({e:?}); n_proofs={} committed={} hash={:?}; {div}",
                    s.witnesses.len(),
                    s.nb_committed,
                    s.hash
                ),
            ))
        }
    }
}

/// Simplifications of a pipeline scenario (shared with C02/C03).
pub fn shrink_scn(s: &Scn) -> Vec<Scn> {
    let mut out = vec![];
    let mut push = |f: &dyn Fn(&mut Scn) -> bool| {
        let mut c = s.clone();
        if f(&mut c) {
            out.push(c);
        }
    };
    push(&|c| {
        if c.witnesses.len() > 1 {
            c.witnesses.pop();
            true
        } else {
            false
        }
    });
    push(&|c| {
        if c.nb_committed > 0 {
            c.nb_committed -= 1;
            true
        } else {
            false
        }
    });
    push(&|c| {
        let seq = Sched::seq();
        if c.sched_keygen != seq || c.sched_prove != seq || c.sched_verify != seq {
            c.sched_keygen = seq;
            c.sched_prove = seq;
            c.sched_verify = seq;
            true
        } else {
            false
        }
    });
    push(&|c| {
        if c.hash != HashKind::Blake2b {
            c.hash = HashKind::Blake2b;
            true
        } else {
            false
        }
    });
    push(&|c| std::mem::replace(&mut c.spec.v1, false));
    // structure: drop unused cells, copies, lookup uses, gate uses (from the end)
    push(&|c| {
        if c.spec.unused.pop().is_some() {
            for w in &mut c.witnesses {
                w.unused_vals.pop();
            }
            true
        } else {
            false
        }
    });
    for i in (0..s.spec.copies.len()).rev() {
        push(&|c| {
            c.spec.copies.remove(i);
            for w in &mut c.witnesses {
                w.copy_vals.remove(i);
                w.faults.retain(|f| !f.site.starts_with(&format!("c{i}.")));
                // copies after i are renumbered: drop faults on them too (conservative)
                w.faults.retain(|f| !f.site.starts_with('c'));
            }
            true
        });
    }
    for i in (0..s.spec.lookup_uses.len()).rev() {
        push(&|c| {
            c.spec.lookup_uses.remove(i);
            for w in &mut c.witnesses {
                w.lookup_rows.remove(i);
                w.faults.retain(|f| !f.site.starts_with('l'));
            }
            true
        });
    }
    for i in (0..s.spec.gate_uses.len()).rev() {
        push(&|c| {
            // only if no copy refers to a gate use at or after i
            if c.spec.copies.iter().any(|cp| matches!(cp, CopySpec::GateCell { gu, .. } if *gu >= i))
            {
                return false;
            }
            if c.witnesses.iter().any(|w| w.faults.iter().any(|f| f.site.starts_with('g'))) {
                return false;
            }
            c.spec.gate_uses.remove(i);
            for w in &mut c.witnesses {
                w.gate_inputs.remove(i);
            }
            true
        });
    }
    // instance columns shorter
    push(&|c| {
        let mut changed = false;
        for w in &mut c.witnesses {
            for col in &mut w.instance {
                if col.len() > 8 {
                    col.truncate(8);
                    changed = true;
                }
            }
        }
        changed
    });
    out
}

#[allow(dead_code)]
pub fn sample(s: &Scn) -> Value {
    json!({"k": s.spec.k, "advice": s.spec.advice.len(), "gates": s.spec.gates.len(),
        "lookups": s.spec.lookups.len(), "n_proofs": s.witnesses.len(), "committed": s.nb_committed,
        "hash": format!("{:?}", s.hash), "threads": [s.sched_keygen.threads, s.sched_prove.threads, s.sched_verify.threads]})
}
