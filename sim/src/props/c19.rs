//! C19 - regex compilation, automaton parsing and base64 decoding are exact.
use std::{
    collections::{HashMap, VecDeque},
    rc::Rc,
};

use serde::{Deserialize, Serialize};
use serde_json::{json, Value};

use super::opcheck;
use crate::{
    core::{
        prng::{self, Prng},
        runner::{catch, Check, Meta, Tier, Verdict, Viol},
        stats::Stats,
    },
    ops_parse,
    rx::{self, Ambiguity, Deriv, Rx, T},
};

pub struct C19;

#[derive(Clone, Debug, Serialize, Deserialize, PartialEq)]
pub enum Scn {
    /// language equivalence of the compiled automaton with the reference
    /// semantics, then the in-circuit parser on accepted and rejected words
    Regex { rx: Rx, word_seed: u64, n_words: usize, fault_seed: u64, n_plans: usize, only_word: Option<Vec<u8>> },
    /// an operation scenario (base64 decoding)
    Op(opcheck::Scn),
}

enum Equiv {
    Equal { product_states: usize },
    /// (word, markers along the word, what differs)
    Differ(Vec<u8>, Vec<usize>, String),
    TooLarge,
}

/// Explores the product of the compiled automaton (deterministic over bytes,
/// emitting a marker per transition) with the derivative automaton of the
/// reference term over marked letters.
fn equivalence(nb_states: usize, initial: usize, finals: &dyn Fn(usize) -> bool, step: &dyn Fn(usize, u8) -> Option<(usize, usize)>, t: &Rc<T>, cap: usize) -> Equiv {
    let _ = nb_states;
    let (markers, _reps, class_of) = rx::alphabet(t);
    let mut d = Deriv::new();
    // (automaton state or dead, reference term)
    let mut seen: HashMap<(Option<usize>, Rc<T>), usize> = HashMap::new();
    let mut parent: Vec<(usize, u8, usize)> = vec![(usize::MAX, 0, 0)];
    let mut q: VecDeque<(Option<usize>, Rc<T>, usize)> = VecDeque::new();
    seen.insert((Some(initial), t.clone()), 0);
    q.push_back((Some(initial), t.clone(), 0));
    let word_of = |parent: &Vec<(usize, u8, usize)>, mut id: usize| {
        let (mut w, mut m) = (vec![], vec![]);
        while parent[id].0 != usize::MAX {
            w.push(parent[id].1);
            m.push(parent[id].2);
            id = parent[id].0;
        }
        w.reverse();
        m.reverse();
        (w, m)
    };
    while let Some((a, r, id)) = q.pop_front() {
        let a_acc = a.is_some_and(|s| finals(s));
        let r_acc = r.nullable();
        if a_acc != r_acc {
            let (w, m) = word_of(&parent, id);
            let what = if a_acc { "the automaton accepts it with these markers, the expression does not contain it" } else { "the expression contains it with these markers, the automaton does not accept it so" };
            return Equiv::Differ(w, m, what.into());
        }
        // derivatives per byte class and marker
        let mut per_class: HashMap<(usize, usize), Rc<T>> = HashMap::new();
        for b in 0..=255u8 {
            let at = a.and_then(|s| step(s, b));
            for &m in &markers {
                let cls = class_of[b as usize];
                let dr = per_class.entry((cls, m)).or_insert_with(|| d.d(&r, b, m)).clone();
                let na = match at {
                    Some((tgt, mk)) if mk == m => Some(tgt),
                    _ => None,
                };
                if na.is_none() && *dr == T::Empty {
                    continue;
                }
                let key = (na, dr.clone());
                if !seen.contains_key(&key) {
                    let nid = parent.len();
                    if nid > cap {
                        return Equiv::TooLarge;
                    }
                    seen.insert(key, nid);
                    parent.push((id, b, m));
                    q.push_back((na, dr, nid));
                }
            }
            // a marker the expression never uses
            if let Some((_, mk)) = at {
                if !markers.contains(&mk) {
                    let (mut w, mut m) = word_of(&parent, id);
                    w.push(b);
                    m.push(mk);
                    return Equiv::Differ(w, m, "the automaton emits a marker the expression never uses".into());
                }
            }
        }
    }
    Equiv::Equal { product_states: parent.len() }
}

impl Check for C19 {
    fn id(&self) -> &'static str {
        "C19"
    }
    fn meta(&self) -> Meta {
        Meta {
            level: "exploration",
            rule: "Regex runs: one generated expression over all combinators (byte classes, complement classes, words, concatenation, union, intersection with marker unification, complement, difference, star / plus / optional, exact and bounded repetition, separated lists, mark_bytes, replace_markers; depth <= 5) is compiled by the library and compared with an independent reference semantics (Brzozowski derivatives over marked letters) on ALL words: the product of the compiled automaton with the derivative automaton is explored exhaustively over all 256 bytes and all markers; any reachable product state where exactly one side accepts is a violation with its word as counterexample (expressions whose language marks some word in two ways are skipped, as the library requires output-determinism; so are products above the state cap). Then accepted and rejected words (walks of the automaton, mutated words, lengths 0..40) go through the in-circuit parser in a circuit built on AutomatonChip: satisfiable exactly for accepted words, with the markers read off the copy constraints equal to the reference marking; under the Byzantine prover (H1 faults, late edits on copy cycles with local repair) an accepted execution must publish a word of the language with its reference markers. Base64 runs: fixed-length base64 / base64url decoding in the standard-library circuit for every decoded length 0..48, padded and unpadded, with single-character corruptions, misplaced padding and non-canonical trailing bits: well-formed inputs must decode to the standard bytes, malformed ones must be unsatisfiable, also under the Byzantine prover.",
            assumptions: vec![
                "variable-length base64 (Base64VarInstructions) and the credential parser gadget are not exercised",
                "the shipped serialized automaton (Jwt) is covered only through its use by the standard library's configuration in C09 / C16; its specification and the serialization module are private",
                "input lengths the API documents as caller errors (padded input not a multiple of 4) are not generated",
            ],
            components: vec![
                ("Regex combinators, RawAutomaton constructions, determinisation, minimisation, normalisation", "real"),
                ("AutomatonChip (table load, parse, final-state check), Base64Chip", "real"),
                ("constraint satisfaction", "MockProver"),
                ("reference semantics", "harness: derivatives over marked letters; bit-level base64 decoder"),
            ],
            expected_probes: vec!["language_equivalence_decided", "accepted_word_in_circuit", "rejected_word_in_circuit", "byzantine_cell", "inadmissible_input_rejected"],
        }
    }
    fn runs(&self, tier: Tier) -> u64 {
        match tier {
            Tier::Quick => 500,
            Tier::Thorough => 12000,
        }
    }
    fn generate(&self, rng: &mut Prng, tier: Tier, idx: u64) -> Value {
        let scn = if idx % 4 == 3 && (idx / 4) % 3 == 2 {
            // variable-length decoding: honest executions only (nothing is published to judge a Byzantine one by)
            let op = ops_parse::B64V_OPS[(idx as usize / 12) % 2];
            let case = ops_parse::b64v_gen_case(rng, op);
            Scn::Op(opcheck::Scn { case, fault_seed: rng.u64(), n_plans: 1, only: Some(vec![]), only_late: Some(vec![]) })
        } else if idx % 4 == 3 {
            let op = ops_parse::B64_OPS[(idx as usize / 4) % 2];
            let case = ops_parse::b64_gen_case(rng, op);
            Scn::Op(opcheck::Scn { case, fault_seed: rng.u64(), n_plans: if tier == Tier::Quick { 3 } else { 8 }, only: None, only_late: None })
        } else {
            let depth = 2 + rng.usize(4);
            let mut r = rx::gen_rx(rng, depth);
            let mut tries = 0;
            while r.size() > 60 && tries < 20 {
                r = rx::gen_rx(rng, depth.min(4));
                tries += 1;
            }
            Scn::Regex { rx: r, word_seed: rng.u64(), n_words: if tier == Tier::Quick { 3 } else { 6 }, fault_seed: rng.u64(), n_plans: if tier == Tier::Quick { 2 } else { 6 }, only_word: None }
        };
        serde_json::to_value(scn).unwrap()
    }
    fn execute(&self, scn: &Value, st: &mut Stats) -> Verdict {
        let s: Scn = match serde_json::from_value(scn.clone()) {
            Ok(s) => s,
            Err(e) => return Verdict::Harness(format!("bad scenario: {e}")),
        };
        match s {
            Scn::Op(o) => opcheck::run(&o, st, true),
            Scn::Regex { rx, word_seed, n_words, fault_seed, n_plans, only_word } => run_regex(&rx, word_seed, n_words, fault_seed, n_plans, only_word, st),
        }
    }
    fn shrink(&self, scn: &Value, viol: &Viol) -> Vec<Value> {
        let s: Scn = serde_json::from_value(scn.clone()).unwrap();
        match s {
            Scn::Op(o) => opcheck::shrink(&o, viol).into_iter().map(|x| serde_json::to_value(Scn::Op(x)).unwrap()).collect(),
            Scn::Regex { rx, word_seed, n_words, fault_seed, n_plans, only_word } => {
                let mut out = vec![];
                // smaller expressions: replace the expression by one of its direct sub-expressions
                for sub in children(&rx) {
                    out.push(Scn::Regex { rx: sub, word_seed, n_words, fault_seed, n_plans, only_word: only_word.clone() });
                }
                if let (None, Some(h)) = (&only_word, &viol.hint) {
                    if let Some(w) = h.get("word").and_then(|w| serde_json::from_value::<Vec<u8>>(w.clone()).ok()) {
                        out.push(Scn::Regex { rx: rx.clone(), word_seed, n_words, fault_seed, n_plans, only_word: Some(w) });
                    }
                }
                out.into_iter().map(|x| serde_json::to_value(x).unwrap()).collect()
            }
        }
    }
}

fn children(r: &Rx) -> Vec<Rx> {
    use Rx::*;
    match r {
        Cat(v) | Union(v) | Inter(v) => {
            let mut out: Vec<Rx> = v.clone();
            for i in 0..v.len() {
                if v.len() > 1 {
                    let mut w = v.clone();
                    w.remove(i);
                    out.push(match r {
                        Cat(_) => Cat(w),
                        Union(_) => Union(w),
                        _ => Inter(w),
                    });
                }
            }
            out
        }
        Plus(a) | Star(a) | Opt(a) | Neg(a) | MarkBytes(a, _, _) | Replace(a, _, _) | Repeat(a, _) | AtMost(a, _) => vec![(**a).clone()],
        Minus(a, b) | SepList(a, b) | SepNonEmpty(a, b) => vec![(**a).clone(), (**b).clone()],
        _ => vec![],
    }
}

fn run_regex(r: &Rx, word_seed: u64, n_words: usize, fault_seed: u64, n_plans: usize, only_word: Option<Vec<u8>>, st: &mut Stats) -> Verdict {
    let t = r.to_ref();
    let desc = serde_json::to_string(r).unwrap();
    st.nontrivial(prng::digest(desc.as_bytes()));
    match rx::ambiguity(&t, 20000) {
        Ambiguity::Unambiguous => {}
        Ambiguity::Ambiguous(_) => {
            st.inc("regex.skipped_ambiguous_marking");
            return Verdict::Pass;
        }
        Ambiguity::TooLarge => {
            st.inc("regex.skipped_ambiguity_check_too_large");
            return Verdict::Pass;
        }
    }
    // ---- compile
    let a = match catch(|| r.to_lib().to_automaton()) {
        Ok(a) => a,
        Err(p) => {
            // the library's output-determinism check is made on the raw automaton, where
            // branches that cannot be completed to a word still count
            let sig = if p.msg.contains("witness_reachability has been called on an unreachable state") {
                "CompilePanic:output-determinism-check-fails-on-an-unreachable-state".to_string()
            } else if p.msg.contains("non output-deterministic") { "CompilePanic:output-determinism-check-rejects-a-sequentially-deterministic-expression".to_string() } else { format!("CompilePanic:{}", p.site_file()) };
            return Verdict::Violation(Viol::new("CompilePanic", sig, format!("compiling {desc} panicked at {}: {}", p.site(), p.msg.replace('\n', " "))));
        }
    };
    st.events += a.transitions.len() as u64;
    st.add("automaton.states", a.nb_states as u64);
    // ---- all words
    let finals = |s: usize| a.final_states.contains(&s);
    let step = |s: usize, b: u8| a.transitions.get(&(s, b)).copied();
    match equivalence(a.nb_states, a.initial_state, &finals, &step, &t, 60000) {
        Equiv::TooLarge => {
            st.inc("regex.skipped_product_too_large");
            return Verdict::Pass;
        }
        Equiv::Differ(w, m, what) => {
            return Verdict::Violation(
                Viol::new("LanguageDiffers", "LanguageDiffers", format!("expression {desc}: word {:?} ({:?}) with markers {m:?}: {what}", String::from_utf8_lossy(&w), w)).with_hint(json!({"word": w})),
            );
        }
        Equiv::Equal { product_states } => {
            st.probe("language_equivalence_decided");
            st.add("product_states", product_states as u64);
            st.events += product_states as u64;
        }
    }
    // structural claims of to_automaton: states within nb_states, every state reaches a final state
    for ((s, _), (tgt, _)) in a.transitions.iter() {
        if *s >= a.nb_states || *tgt >= a.nb_states {
            return Verdict::Violation(Viol::new("AutomatonShape", "AutomatonShape:state-out-of-range", format!("expression {desc}: transition {s} -> {tgt} outside nb_states = {}", a.nb_states)));
        }
    }
    // ---- words through the circuit
    let mut wrng = Prng::new(word_seed, "words");
    let mut words: Vec<Vec<u8>> = vec![];
    let only = only_word.is_some();
    if let Some(w) = only_word {
        words.push(w);
    } else {
        for i in 0..n_words {
            // a walk of the automaton, stopped at a final state when possible
            let mut w = vec![];
            let mut s = a.initial_state;
            let target_len = wrng.usize(41);
            let mut best: Option<Vec<u8>> = if a.final_states.contains(&s) { Some(vec![]) } else { None };
            for _ in 0..target_len.max(1) {
                let mut outs: Vec<(u8, usize)> = a.transitions.iter().filter(|((src, _), _)| *src == s).map(|((_, b), (t, _))| (*b, *t)).collect();
                if outs.is_empty() {
                    break;
                }
                outs.sort();
                let (b, nt) = outs[wrng.usize(outs.len())];
                w.push(b);
                s = nt;
                if a.final_states.contains(&s) {
                    best = Some(w.clone());
                }
            }
            let mut word = best.unwrap_or(w);
            if i % 2 == 1 {
                // mutate: usually leaves the language
                match wrng.below(3) {
                    0 if !word.is_empty() => {
                        let j = wrng.usize(word.len());
                        word[j] = *wrng.pick(&[b'a', b'b', b'z', b'0', 0x00, 0xff, b' ']);
                    }
                    1 => word.push(*wrng.pick(&[b'a', b'b', b',', 0x80])),
                    _ => {
                        word.pop();
                    }
                }
            }
            word.truncate(40);
            if !words.contains(&word) {
                words.push(word);
            }
        }
    }
    // every other word is parsed with the expression inside a library of several parsers
    let mut lrng = Prng::new(word_seed, "library");
    let mut jobs: Vec<(Vec<u8>, u64)> = vec![];
    if only {
        // a minimised scenario keeps one word: alone and in every library the full scenario drew
        jobs.push((words[0].clone(), 0));
        for _ in 0..n_words / 2 {
            jobs.push((words[0].clone(), 1 + lrng.below(1 << 12)));
        }
    } else {
        for (wi, w) in words.into_iter().enumerate() {
            let library = if wi % 2 == 1 { 1 + lrng.below(1 << 12) } else { 0 };
            jobs.push((w, library));
        }
    }
    for (w, library) in jobs {
        let case = ops_parse::rx_case_in(r, &w, library);
        let accepted = ops_parse::rx_expected_admissible(&case);
        let o = opcheck::Scn { case, fault_seed, n_plans, only: None, only_late: None };
        match opcheck::run(&o, st, true) {
            Verdict::Pass => st.probe(if accepted { "accepted_word_in_circuit" } else { "rejected_word_in_circuit" }),
            Verdict::Violation(mut v) => {
                v.detail = format!("expression {desc}: {}", v.detail);
                v.hint = Some(json!({"word": w}));
                return Verdict::Violation(v);
            }
            h => return h,
        }
    }
    Verdict::Pass
}
