//! Registry family: emulated (foreign) fields and big unsigned integers (C05).
//! Public values are published in groups separated by a fixed marker, so the
//! harness decoder does not depend on the library's limb-count bookkeeping.
use ff::Field;
use midnight_circuits::{
    biguint::AssignedBigUint,
    field::{
        decomposition::chip::P2RDecompositionChip,
        foreign::{params::{FieldEmulationParams, MultiEmulationParams}, FieldChip},
        NativeChip, NativeGadget,
    },
    instructions::*,
    types::{AssignedBit, AssignedByte, AssignedField, AssignedNative},
    CircuitField,
};
use midnight_curves::{k256, Fp as BlsFp, Fq};
use midnight_proofs::{
    circuit::{Layouter, Value},
    plonk::Error,
};
use midnight_zk_stdlib::{ZkStdLib, ZkStdLibArch};
use num_bigint::BigUint;
use num_traits::{One, Zero};

use crate::{
    core::prng::Prng,
    ops::OpCase,
    util::{big_to_fq, fq_to_big},
};

type F = Fq;
type AN = AssignedNative<F>;
type NG = NativeGadget<F, P2RDecompositionChip<F>, NativeChip<F>>;
type MEP = MultiEmulationParams;
type C25519P = midnight_curves::curve25519::Fp;
type C25519S = midnight_curves::curve25519::Scalar;

/// What the field-operation bodies need from the native side: implemented by
/// `ZkStdLib` and by a bare `NativeGadget`.
pub trait NatOps:
    AssignmentInstructions<F, AssignedBit<F>>
    + AssignmentInstructions<F, AssignedByte<F>>
    + AssignmentInstructions<F, AN>
    + ConversionInstructions<F, AN, AssignedBit<F>>
    + ConversionInstructions<F, AN, AssignedByte<F>>
    + PublicInputInstructions<F, AN>
{
}
impl<T> NatOps for T where
    T: AssignmentInstructions<F, AssignedBit<F>>
        + AssignmentInstructions<F, AssignedByte<F>>
        + AssignmentInstructions<F, AN>
        + ConversionInstructions<F, AN, AssignedBit<F>>
        + ConversionInstructions<F, AN, AssignedByte<F>>
        + PublicInputInstructions<F, AN>
{
}

pub const MARKER: u64 = 0x5EBA_5EBA_5EBA;

pub const FF_OPS: &[&str] = &[
    "add", "sub", "mul", "div", "neg", "inv", "square", "add_constant", "mul_by_constant", "is_equal", "is_zero",
    "assert_equal", "assert_not_equal", "assert_non_zero", "select", "chain", "sum_then_mul", "pow", "to_le_bits", "from_bit",
    "from_byte", "is_equal_to_fixed", "from_le_bytes", "from_le_bits", "to_le_bytes",
];
/// k256p / k256q / blsp through ZkStdLib; c25519p / c25519s (Curve25519 base and
/// scalar fields, 51-bit limbs for the latter) in a circuit built on FieldChip.
pub const FF_FIELDS: &[&str] = &["k256p", "k256q", "blsp", "c25519p", "c25519s"];
pub const BIG_OPS: &[&str] = &[
    "add", "sub", "mul", "div_rem", "mod_exp", "lower_than", "is_equal", "assert_equal", "select", "to_le_bits",
    "to_le_bytes", "from_le_bits", "from_le_bytes", "is_zero",
];

pub fn ff_ops() -> Vec<String> {
    let mut v = vec![];
    for f in FF_FIELDS {
        for o in FF_OPS {
            v.push(format!("ff.{f}.{o}"));
        }
    }
    v
}
/// Declared width of operand `i` of a big-integer operation: `p[0]`, except
/// for the second operand when `p[2]` gives it its own width.
pub fn big_nb(c: &OpCase, i: usize) -> u64 {
    if i == 1 && c.p.len() > 2 {
        c.p[2]
    } else {
        c.p[0]
    }
}

pub fn big_ops() -> Vec<String> {
    BIG_OPS.iter().map(|o| format!("big.{o}")).collect()
}

pub fn modulus_of(field: &str) -> BigUint {
    match field {
        "c25519p" => <C25519P as CircuitField>::modulus(),
        "c25519s" => <C25519S as CircuitField>::modulus(),
        "k256p" => <k256::Fp as CircuitField>::modulus(),
        "k256q" => <k256::Fq as CircuitField>::modulus(),
        _ => <BlsFp as CircuitField>::modulus(),
    }
}
pub fn limb_params(field: &str) -> (u32, u32) {
    match field {
        "c25519p" => (<MEP as FieldEmulationParams<F, C25519P>>::LOG2_BASE, <MEP as FieldEmulationParams<F, C25519P>>::NB_LIMBS),
        "c25519s" => (<MEP as FieldEmulationParams<F, C25519S>>::LOG2_BASE, <MEP as FieldEmulationParams<F, C25519S>>::NB_LIMBS),
        "k256p" => (<MEP as FieldEmulationParams<F, k256::Fp>>::LOG2_BASE, <MEP as FieldEmulationParams<F, k256::Fp>>::NB_LIMBS),
        "k256q" => (<MEP as FieldEmulationParams<F, k256::Fq>>::LOG2_BASE, <MEP as FieldEmulationParams<F, k256::Fq>>::NB_LIMBS),
        _ => (<MEP as FieldEmulationParams<F, BlsFp>>::LOG2_BASE, <MEP as FieldEmulationParams<F, BlsFp>>::NB_LIMBS),
    }
}

/// base of the BigUint gadget's limbs, read off the off-circuit encoder
pub fn big_log2_base() -> u32 {
    use std::sync::OnceLock;
    static B: OnceLock<u32> = OnceLock::new();
    *B.get_or_init(|| {
        let limbs = AssignedBigUint::<F>::as_public_input(&(BigUint::one() << 1000u32), 1200);
        let (i, v) = limbs.iter().enumerate().find(|(_, l)| **l != Fq::ZERO).unwrap();
        let j = fq_to_big(v).bits() - 1;
        ((1000 - j) / i as u64) as u32
    })
}

pub fn arch(c: &OpCase) -> ZkStdLibArch {
    let mut a = ZkStdLibArch { nr_pow2range_cols: c.cols, ..ZkStdLibArch::default() };
    if c.op.starts_with("ff.k256") {
        a.secp256k1 = true;
    }
    if c.op.starts_with("ff.blsp") {
        a.bls12_381 = true;
    }
    a
}

// ------------------------------------------------------------------ generator

fn ff_class(rng: &mut Prng, m: &BigUint, log2_base: u32, nb_limbs: u32) -> BigUint {
    let base = BigUint::one() << log2_base;
    match rng.below(10) {
        0 => BigUint::zero(),
        1 => BigUint::one(),
        2 => m - 1u32,
        3 => m - 2u32,
        // all-ones limbs
        4 => ((BigUint::one() << (log2_base * nb_limbs)) - 1u32) % m,
        // values near 2^(limb bits)
        5 => (&base - 1u32) % m,
        6 => (&base + rng.below(3)) % m,
        7 => ((&base << log2_base) - 1u32) % m,
        _ => BigUint::from_bytes_le(&rng.bytes(64)) % m,
    }
}

fn big_class(rng: &mut Prng, nb_bits: u32) -> BigUint {
    let top = BigUint::one() << nb_bits;
    let b = big_log2_base();
    match rng.below(8) {
        0 => BigUint::zero(),
        1 => BigUint::one(),
        2 => &top - 1u32,
        3 => (BigUint::one() << b.min(nb_bits.saturating_sub(1))) % &top,
        4 => ((BigUint::one() << b.min(nb_bits)) - 1u32) % &top,
        _ => BigUint::from_bytes_le(&rng.bytes(nb_bits as usize / 8 + 9)) % &top,
    }
}

pub fn gen_case(rng: &mut Prng, op: &str) -> OpCase {
    let cols = rng.range(1, 4) as u8;
    let mbl = rng.range(8, 11) as u8;
    let mut p = vec![];
    let mut big = vec![];
    let mut bins: Vec<BigUint> = vec![];
    let mut ins: Vec<Fq> = vec![];
    let parts: Vec<&str> = op.split('.').collect();
    if parts[0] == "ff" {
        let m = modulus_of(parts[1]);
        let (lb, nl) = limb_params(parts[1]);
        let v = |rng: &mut Prng| ff_class(rng, &m, lb, nl);
        match parts[2] {
            "add" | "sub" | "mul" | "div" | "is_equal" | "assert_equal" | "assert_not_equal" => {
                let x = v(rng);
                let y = match rng.below(4) {
                    0 => x.clone(),
                    1 => (&m - &x) % &m,
                    _ => v(rng),
                };
                bins = vec![x, y];
            }
            "neg" | "inv" | "square" | "is_zero" | "assert_non_zero" | "to_le_bits" => bins = vec![v(rng)],
            "add_constant" | "mul_by_constant" | "is_equal_to_fixed" => {
                let x = v(rng);
                let c = if rng.chance(1, 3) { x.clone() } else { v(rng) };
                bins = vec![x];
                big.push(c.to_str_radix(16));
            }
            "pow" => {
                bins = vec![v(rng)];
                p.push(*rng.pick(&[0u64, 1, 2, 3, 7, 16, 65537]));
            }
            "select" => {
                ins = vec![Fq::from(rng.below(2))];
                bins = vec![v(rng), v(rng)];
            }
            // chains that leave elements un-normalised before the next operation
            "chain" => bins = vec![v(rng), v(rng), v(rng)],
            "sum_then_mul" => {
                let n = rng.range(2, 6);
                p.push(n);
                bins = (0..n + 1).map(|_| v(rng)).collect();
            }
            "from_bit" => ins = vec![Fq::from(rng.below(2))],
            "from_byte" => ins = vec![Fq::from(*rng.pick(&[0u64, 1, 255, 128]))],
            "from_le_bytes" => {
                // lengths around the limb boundaries, up to the bytes of the modulus
                let max = (m.bits() as usize).div_ceil(8);
                let n = *rng.pick(&[1usize, 6, 7, 8, 9, 13, 16, 31, max]);
                let n = n.min(max);
                p.push(n as u64);
                let mode = rng.below(3);
                ins = (0..n).map(|_| Fq::from(match mode { 0 => 0xff, 1 => rng.below(256), _ => *rng.pick(&[0u64, 1, 0x80, 0xff]) })).collect();
            }
            "from_le_bits" => {
                let n = *rng.pick(&[1usize, 50, 51, 52, 63, 64, 65, 128, 200]);
                let n = n.min(m.bits() as usize - 1);
                p.push(n as u64);
                ins = (0..n).map(|_| Fq::from(rng.below(2))).collect();
            }
            "to_le_bytes" => bins = vec![v(rng)],
            o => panic!("unknown ff op {o}"),
        }
    } else {
        // limb-aligned widths (the gadget's base is 2^96) are boundary classes of their own
        let nb = if rng.chance(1, 3) { *rng.pick(&[96u32, 192, 288, 384]) } else { *rng.pick(&[1u32, 2, 8, 64, 95, 96, 97, 128, 192, 193, 256, 512, 1024, 2048]) };
        let nb = if matches!(parts[1], "mod_exp" | "mul" | "div_rem") && nb > 512 { 512 } else { nb };
        p.push(nb as u64);
        match parts[1] {
            "add" | "mul" | "lower_than" | "is_equal" | "assert_equal" => {
                let x = big_class(rng, nb);
                let y = match rng.below(4) {
                    0 => x.clone(),
                    1 => (&x + 1u32) % (BigUint::one() << nb),
                    _ => big_class(rng, nb),
                };
                bins = vec![x, y];
            }
            "sub" => {
                let (x, y) = (big_class(rng, nb), big_class(rng, nb));
                // mostly x >= y; sometimes the underflowing order
                bins = if rng.chance(1, 5) { vec![x.clone().min(y.clone()), x.max(y)] } else { vec![x.clone().max(y.clone()), x.min(y)] };
            }
            "div_rem" => {
                let x = big_class(rng, nb);
                let y = match rng.below(5) {
                    0 => BigUint::zero(),
                    1 => BigUint::one(),
                    2 => x.clone(),
                    _ => big_class(rng, nb),
                };
                bins = vec![x, y];
            }
            "mod_exp" => {
                p.push(*rng.pick(&[0u64, 1, 2, 3, 5, 17, 65537]));
                // modulus 0 (inadmissible) and 1 are boundary classes
                let m = match rng.below(8) {
                    0 => BigUint::zero(),
                    1 => BigUint::one(),
                    _ => big_class(rng, nb).max(BigUint::one()),
                };
                bins = vec![big_class(rng, nb), m];
            }
            "select" => {
                ins = vec![Fq::from(rng.below(2))];
                bins = vec![big_class(rng, nb), big_class(rng, nb)];
            }
            "to_le_bits" | "to_le_bytes" | "is_zero" => bins = vec![big_class(rng, nb)],
            "from_le_bits" => {
                let n = if rng.chance(1, 10) { 0 } else { nb.min(300) };
                p[0] = n as u64;
                ins = (0..n).map(|_| Fq::from(rng.below(2))).collect();
            }
            "from_le_bytes" => {
                let n = if rng.chance(1, 10) { 0 } else { (nb / 8).clamp(1, 64) };
                p[0] = n as u64;
                ins = (0..n).map(|_| Fq::from(rng.below(256))).collect();
            }
            o => panic!("unknown big op {o}"),
        }
        // operands of different declared widths (different limb counts)
        if matches!(parts[1], "add" | "sub" | "mul" | "lower_than" | "is_equal" | "assert_equal" | "div_rem" | "select" | "mod_exp") && bins.len() == 2 && rng.chance(1, 2) {
            let nb1 = *rng.pick(&[1u32, 8, 64, 96, 97, 192, 193, 256, 512]);
            let mut p_skip_regen = false;
            if p.len() < 2 {
                p.push(0);
            }
            p.push(nb1 as u64);
            // carries out of the most significant limb of the wider operand
            if matches!(parts[1], "add" | "sub" | "lower_than" | "is_equal") && rng.chance(1, 3) {
                bins[0] = (BigUint::one() << nb) - 1u32;
            }
            // operands that agree on the limbs they share and differ only in the limbs one of them
            // has in excess (the gadget's base is 2^96)
            if matches!(parts[1], "assert_equal" | "is_equal" | "lower_than" | "sub") && rng.chance(1, 3) {
                let (lo, hi) = (nb.min(nb1), nb.max(nb1));
                let shared = 96 * lo.div_ceil(96);
                if hi > shared {
                    let low = big_class(rng, lo);
                    let extra = (BigUint::from_bytes_le(&rng.bytes(40)) % (BigUint::one() << (hi - shared))).max(BigUint::one());
                    let wide = &low + (extra << shared);
                    if nb1 > nb {
                        bins = vec![low, wide];
                    } else {
                        bins = vec![wide, low];
                    }
                    let op0 = bins[0].clone();
                    let _ = op0;
                    p_skip_regen = true;
                }
            }
            let keep = p_skip_regen || (bins[1].bits() <= nb1 as u64 && rng.chance(1, 2));
            if !keep {
                bins[1] = match rng.below(4) {
                    0 => (BigUint::one() << nb1) - 1u32,
                    1 if parts[1] == "mod_exp" || parts[1] == "div_rem" => BigUint::one(),
                    _ => big_class(rng, nb1),
                };
            }
        }
    }
    OpCase {
        op: op.to_string(),
        p,
        big,
        ins: ins.into_iter().map(crate::util::Fe).collect(),
        bins: bins.iter().map(|b| b.to_str_radix(16)).collect(),
        cols,
        mbl,
    }
}

// ------------------------------------------------------------------ bodies

fn publish<L: Layouter<F>, S: NatOps>(s: &S, l: &mut L, xs: &[AN]) -> Result<(), Error> {
    for x in xs {
        s.constrain_as_public_input(l, x)?;
    }
    let m: AN = s.assign_fixed(l, Fq::from(MARKER))?;
    s.constrain_as_public_input(l, &m)
}

pub fn ff_body_k<K, L, S>(c: &OpCase, op: &str, chip: &FieldChip<F, K, MEP, NG>, s: &S, l: &mut L, w: &[Value<F>], wb: &[Value<BigUint>]) -> Result<(), Error>
where
    S: NatOps,
    K: CircuitField,
    MEP: FieldEmulationParams<F, K>,
    L: Layouter<F>,
{
    type AF<K> = AssignedField<F, K, MEP>;
    let k = |b: &BigUint| K::from_biguint(&(b % K::modulus())).unwrap();
    let xs: Vec<AF<K>> = wb.iter().map(|v| chip.assign(l, v.clone().map(|b| k(&b)))).collect::<Result<_, _>>()?;
    // inputs: natives first, then the field elements
    let nat: Vec<AN> = match op {
        "select" | "from_bit" => {
            let b: AssignedBit<F> = s.assign(l, w[0].map(|x| x != Fq::ZERO))?;
            vec![b.into()]
        }
        "from_byte" => {
            let b: AssignedByte<F> = s.assign(l, w[0].map(|x| x.to_bytes_le()[0]))?;
            vec![b.into()]
        }
        "from_le_bytes" => {
            let vals: Vec<Value<u8>> = w.iter().map(|v| v.map(|x| x.to_bytes_le()[0])).collect();
            let b: Vec<AssignedByte<F>> = s.assign_many(l, &vals)?;
            b.into_iter().map(|x| x.into()).collect()
        }
        "from_le_bits" => {
            let vals: Vec<Value<bool>> = w.iter().map(|v| v.map(|x| x != Fq::ZERO)).collect();
            let b: Vec<AssignedBit<F>> = s.assign_many(l, &vals)?;
            b.into_iter().map(|x| x.into()).collect()
        }
        _ => vec![],
    };
    if !nat.is_empty() {
        publish(s, l, &nat)?;
    }
    for x in &xs {
        let limbs = chip.as_public_input(l, x)?;
        publish(s, l, &limbs)?;
    }
    let fc = || k(&c.bigp(0));
    enum Out<K: CircuitField>
    where
        MEP: FieldEmulationParams<F, K>,
    {
        Fld(AssignedField<F, K, MEP>),
        Bit(AssignedBit<F>),
        Nat(Vec<AN>),
    }
    use Out::*;
    let outs: Vec<Out<K>> = match op {
        "add" => vec![Fld(chip.add(l, &xs[0], &xs[1])?)],
        "sub" => vec![Fld(chip.sub(l, &xs[0], &xs[1])?)],
        "mul" => vec![Fld(chip.mul(l, &xs[0], &xs[1], None)?)],
        "div" => vec![Fld(chip.div(l, &xs[0], &xs[1])?)],
        "neg" => vec![Fld(chip.neg(l, &xs[0])?)],
        "inv" => vec![Fld(chip.inv(l, &xs[0])?)],
        "square" => vec![Fld(chip.square(l, &xs[0])?)],
        "add_constant" => vec![Fld(chip.add_constant(l, &xs[0], fc())?)],
        "mul_by_constant" => vec![Fld(chip.mul_by_constant(l, &xs[0], fc())?)],
        "pow" => vec![Fld(chip.pow(l, &xs[0], c.p[0])?)],
        "is_equal" => vec![Bit(chip.is_equal(l, &xs[0], &xs[1])?)],
        "is_equal_to_fixed" => vec![Bit(chip.is_equal_to_fixed(l, &xs[0], fc())?)],
        "is_zero" => vec![Bit(chip.is_zero(l, &xs[0])?)],
        "assert_equal" => {
            chip.assert_equal(l, &xs[0], &xs[1])?;
            vec![]
        }
        "assert_not_equal" => {
            chip.assert_not_equal(l, &xs[0], &xs[1])?;
            vec![]
        }
        "assert_non_zero" => {
            chip.assert_non_zero(l, &xs[0])?;
            vec![]
        }
        "select" => {
            let b: AssignedBit<F> = s.convert(l, &nat[0])?;
            vec![Fld(chip.select(l, &b, &xs[0], &xs[1])?)]
        }
        "chain" => {
            // (a + b) * c - a, then equality against the same value computed the other way
            let t = chip.add(l, &xs[0], &xs[1])?;
            let u = chip.mul(l, &t, &xs[2], None)?;
            let r = chip.sub(l, &u, &xs[0])?;
            let ac = chip.mul(l, &xs[0], &xs[2], None)?;
            let bc = chip.mul(l, &xs[1], &xs[2], None)?;
            let sum = chip.add(l, &ac, &bc)?;
            let r2 = chip.sub(l, &sum, &xs[0])?;
            let e = chip.is_equal(l, &r, &r2)?;
            vec![Fld(r), Bit(e)]
        }
        "sum_then_mul" => {
            let n = c.p[0] as usize;
            let mut acc = xs[0].clone();
            for x in &xs[1..n] {
                acc = chip.add(l, &acc, x)?;
            }
            vec![Fld(chip.mul(l, &acc, &xs[n], None)?)]
        }
        "to_le_bits" => {
            let bits = chip.assigned_to_le_bits(l, &xs[0], None, true)?;
            vec![Nat(bits.into_iter().map(|b| b.into()).collect())]
        }
        "from_bit" => {
            let b: AssignedBit<F> = s.convert(l, &nat[0])?;
            let x: AssignedField<F, K, MEP> = chip.convert(l, &b)?;
            vec![Fld(x)]
        }
        "from_byte" => {
            let b: AssignedByte<F> = s.convert(l, &nat[0])?;
            let x: AssignedField<F, K, MEP> = chip.convert(l, &b)?;
            vec![Fld(x)]
        }
        "from_le_bytes" => {
            let b: Vec<AssignedByte<F>> = nat.iter().map(|n| s.convert(l, n)).collect::<Result<_, _>>()?;
            vec![Fld(chip.assigned_from_le_bytes(l, &b)?)]
        }
        "from_le_bits" => {
            let b: Vec<AssignedBit<F>> = nat.iter().map(|n| s.convert(l, n)).collect::<Result<_, _>>()?;
            vec![Fld(chip.assigned_from_le_bits(l, &b)?)]
        }
        "to_le_bytes" => {
            let bytes = chip.assigned_to_le_bytes(l, &xs[0], None)?;
            vec![Nat(bytes.iter().map(|b| b.into()).collect())]
        }
        o => panic!("unknown ff op {o}"),
    };
    for o in outs {
        match o {
            Fld(x) => {
                let limbs = chip.as_public_input(l, &x)?;
                publish(s, l, &limbs)?
            }
            Bit(b) => publish(s, l, &[b.into()])?,
            Nat(v) => publish(s, l, &v)?,
        }
    }
    Ok(())
}

pub fn body<L: Layouter<F>>(c: &OpCase, s: &ZkStdLib, l: &mut L, w: &[Value<F>], wb: &[Value<BigUint>]) -> Result<(), Error> {
    let parts: Vec<&str> = c.op.split('.').collect();
    if parts[0] == "ff" {
        return match parts[1] {
            "c25519p" | "c25519s" => unreachable!("Curve25519 fields run in FfScratch"),
            "k256q" => ff_body_k::<k256::Fq, L, ZkStdLib>(c, parts[2], s.secp256k1_scalar(), s, l, w, wb),
            "k256p" => ff_body_k::<k256::Fp, L, ZkStdLib>(c, parts[2], s.secp256k1_curve().base_field_chip(), s, l, w, wb),
            _ => ff_body_k::<BlsFp, L, ZkStdLib>(c, parts[2], s.bls12_381_curve().base_field_chip(), s, l, w, wb),
        };
    }
    // big unsigned integers
    let g = s.biguint();
    let nb = c.p[0] as u32;
    let _ = nb;
    let xs: Vec<AssignedBigUint<F>> = wb.iter().enumerate().map(|(i, v)| g.assign_biguint(l, v.clone(), big_nb(c, i) as u32)).collect::<Result<_, _>>()?;
    let op = parts[1];
    let nat: Vec<AN> = match op {
        "select" => {
            let b: AssignedBit<F> = s.assign(l, w[0].map(|x| x != Fq::ZERO))?;
            vec![b.into()]
        }
        "from_le_bits" => {
            let b: Vec<AssignedBit<F>> = w.iter().map(|v| s.assign(l, v.map(|x| x != Fq::ZERO))).collect::<Result<_, _>>()?;
            b.into_iter().map(|x| x.into()).collect()
        }
        "from_le_bytes" => {
            let b: Vec<AssignedByte<F>> = w.iter().map(|v| s.assign(l, v.map(|x| x.to_bytes_le()[0]))).collect::<Result<_, _>>()?;
            b.into_iter().map(|x| x.into()).collect()
        }
        _ => vec![],
    };
    if !nat.is_empty() {
        publish(s, l, &nat)?;
    }
    for x in &xs {
        g.constrain_as_public_input(l, x, x.nb_bits())?;
        publish(s, l, &[])?;
    }
    enum Out {
        Big(AssignedBigUint<F>),
        Bit(AssignedBit<F>),
        Nat(Vec<AN>),
    }
    use Out::*;
    let outs: Vec<Out> = match op {
        "add" => vec![Big(g.add(l, &xs[0], &xs[1])?)],
        "sub" => vec![Big(g.sub(l, &xs[0], &xs[1])?)],
        "mul" => vec![Big(g.mul(l, &xs[0], &xs[1])?)],
        "div_rem" => {
            let (q, r) = g.div_rem(l, &xs[0], &xs[1])?;
            vec![Big(q), Big(r)]
        }
        "mod_exp" => vec![Big(g.mod_exp(l, &xs[0], c.p[1], &xs[1])?)],
        "lower_than" => vec![Bit(g.lower_than(l, &xs[0], &xs[1])?)],
        "is_equal" => vec![Bit(g.is_equal(l, &xs[0], &xs[1])?)],
        "is_zero" => vec![Bit(g.is_zero(l, &xs[0])?)],
        "assert_equal" => {
            g.assert_equal(l, &xs[0], &xs[1])?;
            vec![]
        }
        "select" => {
            let b: AssignedBit<F> = s.convert(l, &nat[0])?;
            vec![Big(g.select(l, &b, &xs[0], &xs[1])?)]
        }
        "to_le_bits" => vec![Nat(g.to_le_bits(l, &xs[0])?.into_iter().map(|x| x.into()).collect())],
        "to_le_bytes" => vec![Nat(g.to_le_bytes(l, &xs[0])?.into_iter().map(|x| x.into()).collect())],
        "from_le_bits" => {
            let b: Vec<AssignedBit<F>> = nat.iter().map(|n| s.convert(l, n)).collect::<Result<_, _>>()?;
            vec![Big(g.from_le_bits(l, &b)?)]
        }
        "from_le_bytes" => {
            let b: Vec<AssignedByte<F>> = nat.iter().map(|n| s.convert(l, n)).collect::<Result<_, _>>()?;
            vec![Big(g.from_le_bytes(l, &b)?)]
        }
        o => panic!("unknown big op {o}"),
    };
    for o in outs {
        match o {
            Big(x) => {
                g.constrain_as_public_input(l, &x, x.nb_bits())?;
                publish(s, l, &[])?
            }
            Bit(b) => publish(s, l, &[b.into()])?,
            Nat(v) => publish(s, l, &v)?,
        }
    }
    Ok(())
}

// ------------------------------------------------------------------ decoding and reference

/// Splits the bound public values at the markers.
pub fn groups(publics: &[Fq]) -> Vec<Vec<Fq>> {
    let mut out = vec![];
    let mut cur = vec![];
    for v in publics {
        if *v == Fq::from(MARKER) {
            out.push(std::mem::take(&mut cur));
        } else {
            cur.push(*v);
        }
    }
    out
}

thread_local! { static NONCANON: std::cell::RefCell<Option<String>> = const { std::cell::RefCell::new(None) }; }
fn note_noncanonical(m: String) {
    NONCANON.with(|n| {
        if n.borrow().is_none() {
            *n.borrow_mut() = Some(m)
        }
    });
}
/// Takes the note left by the last `check` about a published representation
/// that is limb-bounded but not reduced.
pub fn take_noncanonical() -> Option<String> {
    NONCANON.with(|n| n.borrow_mut().take())
}

/// An emulated field element from its published limbs: limbs in [0, base), value + 1 canonical.
pub fn decode_field(g: &[Fq], field: &str) -> Result<BigUint, String> {
    decode_ff(g, field)
}

fn decode_ff(g: &[Fq], field: &str) -> Result<BigUint, String> {
    let m = modulus_of(field);
    let (lb, nl) = limb_params(field);
    if g.len() != nl as usize {
        return Err(format!("{} limbs published, {nl} expected", g.len()));
    }
    let mut v = BigUint::zero();
    for (i, l) in g.iter().enumerate() {
        let li = fq_to_big(l);
        if li.bits() > lb as u64 {
            return Err(format!("published limb {i} has {} bits (base 2^{lb}): non-canonical exposure", li.bits()));
        }
        v += li << (lb * i as u32);
    }
    if v >= m {
        // the residue is still well defined: judge the operation on it, and
        // report the non-canonical exposure separately
        note_noncanonical(format!("a published emulated-field representation is limb-bounded but not reduced (value {:x} >= modulus): the same residue has several public-input encodings", v));
    }
    Ok((v + 1u32) % m)
}

fn decode_big(g: &[Fq]) -> Result<BigUint, String> {
    let lb = big_log2_base();
    let mut v = BigUint::zero();
    for (i, l) in g.iter().enumerate() {
        let li = fq_to_big(l);
        if li.bits() > lb as u64 {
            return Err(format!("published limb {i} has {} bits (base 2^{lb}): non-normalised exposure", li.bits()));
        }
        v += li << (lb * i as u32);
    }
    Ok(v)
}
fn bit_of(g: &[Fq]) -> Result<bool, String> {
    match g {
        [x] if *x == Fq::ZERO => Ok(false),
        [x] if *x == Fq::ONE => Ok(true),
        _ => Err(format!("a bit was expected, got {g:?}")),
    }
}
fn le_bits_value(g: &[Fq]) -> Result<BigUint, String> {
    let mut v = BigUint::zero();
    for (i, b) in g.iter().enumerate() {
        if *b == Fq::ONE {
            v |= BigUint::one() << i;
        } else if *b != Fq::ZERO {
            return Err("non-bit value among published bits".into());
        }
    }
    Ok(v)
}

/// number of marker-delimited groups that are inputs
pub fn n_input_groups(c: &OpCase) -> usize {
    (if c.ins.is_empty() { 0 } else { 1 }) + c.bins.len()
}

fn inv_mod(a: &BigUint, m: &BigUint) -> Option<BigUint> {
    if a.is_zero() {
        None
    } else {
        Some(a.modpow(&(m - 2u32), m))
    }
}

/// `Ok(true)`: admissible and outputs correct; `Ok(false)`: the inputs are
/// inadmissible (the circuit should be unsatisfiable); `Err`: wrong outputs.
pub fn check(c: &OpCase, publics: &[Fq]) -> Result<bool, String> {
    let _ = take_noncanonical();
    let gs = groups(publics);
    let parts: Vec<&str> = c.op.split('.').collect();
    let ni = n_input_groups(c);
    if gs.len() < ni {
        return Err(format!("{} public groups, at least {ni} expected", gs.len()));
    }
    let (gi, go) = gs.split_at(ni);
    let nat: Vec<Fq> = if c.ins.is_empty() { vec![] } else { gi[0].clone() };
    let bgi = &gi[(if c.ins.is_empty() { 0 } else { 1 })..];
    let expect_groups = |n: usize| -> Result<(), String> {
        if go.len() == n {
            Ok(())
        } else {
            Err(format!("{} output groups, {n} expected", go.len()))
        }
    };
    if parts[0] == "ff" {
        let field = parts[1];
        let m = modulus_of(field);
        let x: Vec<BigUint> = bgi.iter().map(|g| decode_ff(g, field)).collect::<Result<_, _>>()?;
        let fc = || c.bigp(0) % &m;
        let outf = |i: usize| decode_ff(&go[i], field);
        let eqf = |i: usize, e: BigUint| -> Result<bool, String> {
            let o = outf(i)?;
            let e = e % &m;
            if o == e {
                Ok(true)
            } else {
                Err(format!("output {:x} differs from the definition {:x}", o, e))
            }
        };
        let eqb = |i: usize, e: bool| -> Result<bool, String> {
            if bit_of(&go[i])? == e {
                Ok(true)
            } else {
                Err(format!("output bit {} differs from the definition {e}", !e))
            }
        };
        let sub = |a: &BigUint, b: &BigUint| (a + &m - (b % &m)) % &m;
        return match parts[2] {
            "add" => { expect_groups(1)?; eqf(0, &x[0] + &x[1]) }
            "sub" => { expect_groups(1)?; eqf(0, sub(&x[0], &x[1])) }
            "mul" => { expect_groups(1)?; eqf(0, &x[0] * &x[1]) }
            "div" => match inv_mod(&x[1], &m) { None => Ok(false), Some(i) => { expect_groups(1)?; eqf(0, &x[0] * i) } },
            "neg" => { expect_groups(1)?; eqf(0, sub(&BigUint::zero(), &x[0])) }
            "inv" => match inv_mod(&x[0], &m) { None => Ok(false), Some(i) => { expect_groups(1)?; eqf(0, i) } },
            "square" => { expect_groups(1)?; eqf(0, &x[0] * &x[0]) }
            "add_constant" => { expect_groups(1)?; eqf(0, &x[0] + fc()) }
            "mul_by_constant" => { expect_groups(1)?; eqf(0, &x[0] * fc()) }
            "pow" => { expect_groups(1)?; eqf(0, x[0].modpow(&BigUint::from(c.p[0]), &m)) }
            "is_equal" => { expect_groups(1)?; eqb(0, x[0] == x[1]) }
            "is_equal_to_fixed" => { expect_groups(1)?; eqb(0, x[0] == fc()) }
            "is_zero" => { expect_groups(1)?; eqb(0, x[0].is_zero()) }
            "assert_equal" => Ok(x[0] == x[1]),
            "assert_not_equal" => Ok(x[0] != x[1]),
            "assert_non_zero" => Ok(!x[0].is_zero()),
            "select" => {
                if !(nat[0] == Fq::ZERO || nat[0] == Fq::ONE) { return Ok(false); }
                expect_groups(1)?;
                eqf(0, if nat[0] == Fq::ONE { x[0].clone() } else { x[1].clone() })
            }
            "chain" => {
                expect_groups(2)?;
                eqf(0, sub(&((&x[0] + &x[1]) * &x[2]), &x[0]))?;
                eqb(1, true)
            }
            "sum_then_mul" => {
                expect_groups(1)?;
                let n = c.p[0] as usize;
                let s: BigUint = x[..n].iter().sum();
                eqf(0, s * &x[n])
            }
            "from_le_bytes" | "from_le_bits" => {
                let width = if parts[2] == "from_le_bytes" { 8 } else { 1 };
                let mut v = BigUint::zero();
                for (i, d) in nat.iter().enumerate() {
                    let dv = fq_to_big(d);
                    if dv.bits() > width {
                        return Ok(false);
                    }
                    v += dv << (width as usize * i);
                }
                expect_groups(1)?;
                eqf(0, v)
            }
            "to_le_bytes" => {
                expect_groups(1)?;
                let mut v = BigUint::zero();
                for (i, d) in go[0].iter().enumerate() {
                    let dv = fq_to_big(d);
                    if dv.bits() > 8 {
                        return Err("a published byte exceeds 255".into());
                    }
                    v += dv << (8 * i);
                }
                if v == x[0] { Ok(true) } else { Err(format!("bytes encode {:x}, input is {:x}", v, x[0])) }
            }
            "to_le_bits" => {
                expect_groups(1)?;
                let v = le_bits_value(&go[0])?;
                if v == x[0] { Ok(true) } else { Err(format!("canonical bits encode {:x}, input is {:x}", v, x[0])) }
            }
            "from_bit" => {
                if !(nat[0] == Fq::ZERO || nat[0] == Fq::ONE) { return Ok(false); }
                expect_groups(1)?;
                eqf(0, fq_to_big(&nat[0]))
            }
            "from_byte" => {
                if fq_to_big(&nat[0]).bits() > 8 { return Ok(false); }
                expect_groups(1)?;
                eqf(0, fq_to_big(&nat[0]))
            }
            o => Err(format!("unknown ff op {o}")),
        };
    }
    // big unsigned integers
    let nb = c.p[0];
    let x: Vec<BigUint> = bgi.iter().map(|g| decode_big(g)).collect::<Result<_, _>>()?;
    if matches!(parts[1], "add" | "sub" | "mul" | "div_rem" | "mod_exp" | "lower_than" | "is_equal" | "assert_equal" | "select" | "to_le_bits" | "to_le_bytes" | "is_zero")
        && x.iter().enumerate().any(|(i, v)| v.bits() > big_nb(c, i))
    {
        let _ = nb;
        return Ok(false); // an input exceeding its declared width must be unsatisfiable
    }
    let outg = |i: usize| decode_big(&go[i]);
    let eqg = |i: usize, e: BigUint| -> Result<bool, String> {
        let o = outg(i)?;
        if o == e {
            Ok(true)
        } else {
            Err(format!("output {:x} differs from the definition {:x}", o, e))
        }
    };
    let eqb = |i: usize, e: bool| -> Result<bool, String> {
        if bit_of(&go[i])? == e {
            Ok(true)
        } else {
            Err(format!("output bit {} differs from the definition {e}", !e))
        }
    };
    match parts[1] {
        "add" => { expect_groups(1)?; eqg(0, &x[0] + &x[1]) }
        "sub" => { if x[0] < x[1] { return Ok(false); } expect_groups(1)?; eqg(0, &x[0] - &x[1]) }
        "mul" => { expect_groups(1)?; eqg(0, &x[0] * &x[1]) }
        "div_rem" => {
            if x[1].is_zero() { return Ok(false); }
            expect_groups(2)?;
            eqg(0, &x[0] / &x[1])?;
            eqg(1, &x[0] % &x[1])
        }
        "mod_exp" => {
            if x[1].is_zero() { return Ok(false); }
            expect_groups(1)?;
            let e = c.p[1];
            eqg(0, x[0].modpow(&BigUint::from(e), &x[1]))
        }
        "lower_than" => { expect_groups(1)?; eqb(0, x[0] < x[1]) }
        "is_equal" => { expect_groups(1)?; eqb(0, x[0] == x[1]) }
        "is_zero" => { expect_groups(1)?; eqb(0, x[0].is_zero()) }
        "assert_equal" => Ok(x[0] == x[1]),
        "select" => {
            if !(nat[0] == Fq::ZERO || nat[0] == Fq::ONE) { return Ok(false); }
            expect_groups(1)?;
            eqg(0, if nat[0] == Fq::ONE { x[0].clone() } else { x[1].clone() })
        }
        "to_le_bits" => {
            expect_groups(1)?;
            let v = le_bits_value(&go[0])?;
            if v == x[0] { Ok(true) } else { Err(format!("bits encode {:x}, input is {:x}", v, x[0])) }
        }
        "to_le_bytes" => {
            expect_groups(1)?;
            let mut v = BigUint::zero();
            for (i, b) in go[0].iter().enumerate() {
                let bv = fq_to_big(b);
                if bv.bits() > 8 { return Err("non-byte value among published bytes".into()); }
                v += bv << (8 * i);
            }
            if v == x[0] { Ok(true) } else { Err(format!("bytes encode {:x}, input is {:x}", v, x[0])) }
        }
        "from_le_bits" => {
            if nat.iter().any(|b| !(*b == Fq::ZERO || *b == Fq::ONE)) { return Ok(false); }
            expect_groups(1)?;
            eqg(0, le_bits_value(&nat)?)
        }
        "from_le_bytes" => {
            if nat.iter().any(|b| fq_to_big(b).bits() > 8) { return Ok(false); }
            expect_groups(1)?;
            let bytes: Vec<u8> = nat.iter().map(|b| b.to_bytes_le()[0]).collect();
            eqg(0, BigUint::from_bytes_le(&bytes))
        }
        o => Err(format!("unknown big op {o}")),
    }
}

#[allow(dead_code)]
fn _keep(_: F) -> Fq {
    big_to_fq(&BigUint::zero())
}

/// Whether the declared inputs are inside the operation's domain.
pub fn expected_admissible(c: &OpCase) -> bool {
    let parts: Vec<&str> = c.op.split('.').collect();
    let nat: Vec<Fq> = c.ins.iter().map(|x| x.0).collect();
    let x: Vec<BigUint> = (0..c.bins.len()).map(|i| c.bin(i)).collect();
    let bit = |v: &Fq| *v == Fq::ZERO || *v == Fq::ONE;
    if parts[0] == "ff" {
        let m = modulus_of(parts[1]);
        return match parts[2] {
            "div" => !(&x[1] % &m).is_zero(),
            "inv" | "assert_non_zero" => !(&x[0] % &m).is_zero(),
            "assert_equal" => &x[0] % &m == &x[1] % &m,
            "assert_not_equal" => &x[0] % &m != &x[1] % &m,
            "select" | "from_bit" => bit(&nat[0]),
            "from_byte" => fq_to_big(&nat[0]).bits() <= 8,
            "from_le_bytes" => nat.iter().all(|b| fq_to_big(b).bits() <= 8),
            "from_le_bits" => nat.iter().all(bit),
            _ => true,
        };
    }
    if x.iter().enumerate().any(|(i, v)| v.bits() > big_nb(c, i)) {
        return false;
    }
    match parts[1] {
        "sub" => x[0] >= x[1],
        "div_rem" | "mod_exp" => !x[1].is_zero(),
        "assert_equal" => x[0] == x[1],
        "select" => bit(&nat[0]),
        "from_le_bits" => nat.iter().all(bit),
        "from_le_bytes" => nat.iter().all(|b| fq_to_big(b).bits() <= 8),
        _ => true,
    }
}

// ------------------------------------------------------------------ fields not exposed by ZkStdLib

/// A circuit built on `NativeGadget` + `FieldChip<F, K, MEP, NG>` alone, for the
/// emulation parameter sets the standard library does not instantiate.
#[derive(Clone)]
pub struct FfScratch {
    pub case: OpCase,
    pub known: bool,
}

type NgCfg = <NG as midnight_circuits::testing_utils::FromScratch<F>>::Config;

impl FfScratch {
    fn synth<K: CircuitField>(&self, config: &(NgCfg, midnight_circuits::field::foreign::FieldChipConfig), mut l: impl Layouter<F>) -> Result<(), Error>
    where
        MEP: FieldEmulationParams<F, K>,
    {
        use midnight_circuits::testing_utils::FromScratch;
        let ng = NG::new_from_scratch(&config.0);
        let chip = FieldChip::<F, K, MEP, NG>::new(&config.1, &ng);
        let op = self.case.op.split('.').nth(2).unwrap().to_string();
        let w: Vec<Value<F>> = self.case.ins.iter().map(|x| if self.known { Value::known(x.0) } else { Value::unknown() }).collect();
        let wb: Vec<Value<BigUint>> = (0..self.case.bins.len()).map(|i| if self.known { Value::known(self.case.bin(i)) } else { Value::unknown() }).collect();
        ff_body_k::<K, _, NG>(&self.case, &op, &chip, &ng, &mut l, &w, &wb)?;
        ng.load_from_scratch(&mut l)
    }
}

impl midnight_proofs::plonk::Circuit<F> for FfScratch {
    type Config = (NgCfg, midnight_circuits::field::foreign::FieldChipConfig);
    type FloorPlanner = midnight_proofs::circuit::SimpleFloorPlanner;
    /// true: the Curve25519 scalar field, false: its base field
    type Params = bool;

    fn without_witnesses(&self) -> Self {
        FfScratch { case: self.case.clone(), known: false }
    }
    fn params(&self) -> bool {
        self.case.op.starts_with("ff.c25519s")
    }
    fn configure_with_params(meta: &mut midnight_proofs::plonk::ConstraintSystem<F>, scalar: bool) -> Self::Config {
        use midnight_circuits::{field::foreign::nb_field_chip_columns, testing_utils::FromScratch};
        let committed = meta.instance_column();
        let plain = meta.instance_column();
        let constants = meta.fixed_column();
        meta.enable_constant(constants);
        let ng = NG::configure_from_scratch(meta, &[committed, plain]);
        let n = if scalar { nb_field_chip_columns::<F, C25519S, MEP>() } else { nb_field_chip_columns::<F, C25519P, MEP>() };
        let advice: Vec<_> = (0..n).map(|_| meta.advice_column()).collect();
        let fc = if scalar { FieldChip::<F, C25519S, MEP, NG>::configure(meta, &advice) } else { FieldChip::<F, C25519P, MEP, NG>::configure(meta, &advice) };
        (ng, fc)
    }
    fn configure(_meta: &mut midnight_proofs::plonk::ConstraintSystem<F>) -> Self::Config {
        unreachable!("configured with parameters")
    }
    fn synthesize(&self, config: Self::Config, l: impl Layouter<F>) -> Result<(), Error> {
        if self.case.op.starts_with("ff.c25519s") {
            self.synth::<C25519S>(&config, l)
        } else {
            self.synth::<C25519P>(&config, l)
        }
    }
}
