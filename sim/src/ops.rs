//! Operation registry: in-circuit bodies written against the public
//! instruction traits (through `ZkStdLib`), witness generators with boundary
//! classes, and big-integer reference semantics. Every body assigns its inputs
//! as witnesses, runs the operation and returns the list of values to expose
//! publicly (inputs first, then outputs).
use ff::Field;
use midnight_circuits::{
    instructions::*,
    types::{AssignedBit, AssignedByte, AssignedNative},
};
use midnight_curves::Fq;
use midnight_proofs::{
    circuit::{Layouter, Value},
    plonk::Error,
};
use midnight_zk_stdlib::{Relation, ZkStdLib, ZkStdLibArch};
use num_bigint::BigUint;
use num_traits::{One, Zero};
use serde::{Deserialize, Serialize};

use crate::{
    core::prng::Prng,
    util::{big_to_fq, draw_fq, fq_modulus, fq_to_big, uniform_fq, Fe},
};

type F = Fq;
type AN = AssignedNative<F>;
type AB = AssignedBit<F>;
type AY = AssignedByte<F>;

#[derive(Clone, Debug, Serialize, Deserialize, PartialEq)]
pub struct OpCase {
    pub op: String,
    /// static parameters (part of the circuit's identity)
    pub p: Vec<u64>,
    /// static big parameters (bounds, divisors, constants) as hex
    pub big: Vec<String>,
    /// witness inputs (native field elements)
    pub ins: Vec<Fe>,
    /// witness inputs that do not fit the native field (hex big integers)
    #[serde(default)]
    pub bins: Vec<String>,
    /// standard-library configuration
    pub cols: u8,
    pub mbl: u8,
}

impl OpCase {
    pub fn bin(&self, i: usize) -> BigUint {
        BigUint::parse_bytes(self.bins[i].as_bytes(), 16).unwrap_or_default()
    }
    pub fn bigp(&self, i: usize) -> BigUint {
        BigUint::parse_bytes(self.big[i].as_bytes(), 16).unwrap_or_default()
    }
    pub fn static_key(&self) -> String {
        // (the computed exposure of a point lays out another circuit for the identity, which has
        //  no affine coordinates: part of the static description)
        let identity = self.op.starts_with("pi.") && self.op.ends_with("point.computed") && self.bins.first().map(|b| b.trim_start_matches('0').is_empty()).unwrap_or(false);
        format!("{}|{:?}|{:?}|{}|{}|{}|{}{}", self.op, self.p, self.big, self.ins.len(), self.bins.len(), self.cols, self.mbl, if identity { "|identity" } else { "" })
    }
}

fn hexbig(b: &BigUint) -> String {
    b.to_str_radix(16)
}
fn pow2(n: u64) -> BigUint {
    BigUint::one() << n
}
fn f(b: &BigUint) -> Fq {
    big_to_fq(b)
}
fn bi(x: &Fq) -> BigUint {
    fq_to_big(x)
}
fn is_bit(x: &Fq) -> bool {
    *x == Fq::ZERO || *x == Fq::ONE
}
fn bitf(b: bool) -> Fq {
    if b {
        Fq::ONE
    } else {
        Fq::ZERO
    }
}

pub const NATIVE_OPS: &[&str] = &[
    "add", "sub", "mul", "mul_const", "div", "neg", "inv", "inv0", "add_constant", "mul_by_constant", "square",
    "pow", "linear_combination", "add_and_mul", "assert_equal", "assert_not_equal", "assert_equal_to_fixed",
    "assert_not_equal_to_fixed", "assert_zero", "assert_non_zero", "is_zero", "is_equal", "is_not_equal",
    "is_equal_to_fixed", "is_not_equal_to_fixed", "bit_is_equal", "and", "or", "xor", "not", "band", "bor", "bxor",
    "bnot", "to_le_bits", "to_be_bits", "to_le_bits_full", "to_le_bytes", "to_be_bytes", "from_le_bits",
    "from_be_bits", "from_le_bytes", "from_be_bytes", "to_le_chunks", "sgn0",
    "is_canonical", "le_bits_lower_than", "le_bits_geq_than", "div_rem", "rem", "assign_lower_than_fixed",
    "assert_lower_than_fixed", "select", "cond_assert_equal", "cond_swap", "lower_than", "native_to_bit",
    "bit_to_native", "byte_to_native", "select_bit", "assert_true", "assert_false",
];

// ------------------------------------------------------------------ generator

/// An n-bit-bounded value class: 0, 1, 2^n-1, 2^n (just outside), random inside, random outside.
fn bounded_class(rng: &mut Prng, n: u64) -> Fq {
    let top = pow2(n);
    match rng.below(8) {
        0 => Fq::ZERO,
        1 => Fq::ONE,
        2 => f(&(&top - 1u32)),
        3 => f(&top),
        4 => f(&(&top + 1u32)),
        5 => uniform_fq(rng),
        _ => {
            let r = BigUint::from_bytes_le(&rng.bytes(40)) % &top;
            f(&r)
        }
    }
}

fn native_class(rng: &mut Prng) -> Fq {
    match rng.below(12) {
        0 => Fq::ZERO,
        1 => Fq::ONE,
        2 => -Fq::ONE,
        3 => f(&((fq_modulus() - 1u32) / 2u32)),
        4 => f(&((fq_modulus() + 1u32) / 2u32)),
        5 => f(&pow2(rng.range(1, 254))),
        6 => f(&(pow2(rng.range(1, 254)) - 1u32)),
        7 => Fq::from(rng.below(300)),
        _ => draw_fq(rng),
    }
}

pub fn gen_native_case(rng: &mut Prng, op: &str) -> OpCase {
    let cols = rng.range(1, 4) as u8;
    let mbl = rng.range(8, 12) as u8;
    let mut p: Vec<u64> = vec![];
    let mut big: Vec<String> = vec![];
    let mut ins: Vec<Fq> = vec![];
    let pair = |rng: &mut Prng| -> (Fq, Fq) {
        let x = native_class(rng);
        match rng.below(5) {
            0 => (x, x),             // equal operands
            1 => (x, x + Fq::ONE),   // adjacent
            2 => (x, -x),
            _ => (x, native_class(rng)),
        }
    };
    match op {
        "add" | "sub" | "mul" | "div" | "assert_equal" | "assert_not_equal" | "is_equal" | "is_not_equal" => {
            let (x, y) = pair(rng);
            ins = vec![x, y];
        }
        "mul_const" => {
            let (x, y) = pair(rng);
            ins = vec![x, y];
            big.push(hexbig(&bi(&native_class(rng))));
        }
        "neg" | "inv" | "inv0" | "square" | "assert_zero" | "assert_non_zero" | "is_zero" | "sgn0" => {
            ins = vec![native_class(rng)];
        }
        "add_constant" | "mul_by_constant" | "assert_equal_to_fixed" | "assert_not_equal_to_fixed"
        | "is_equal_to_fixed" | "is_not_equal_to_fixed" => {
            let (x, c) = pair(rng);
            ins = vec![x];
            big.push(hexbig(&bi(&c)));
        }
        "pow" => {
            ins = vec![native_class(rng)];
            p.push(*rng.pick(&[0u64, 1, 2, 3, 5, 8, 31, 255, 65537]));
        }
        "linear_combination" => {
            let n = rng.range(0, 5) as usize;
            p.push(n as u64);
            for _ in 0..n {
                ins.push(native_class(rng));
                big.push(hexbig(&bi(&native_class(rng))));
            }
            big.push(hexbig(&bi(&native_class(rng))));
        }
        "add_and_mul" => {
            ins = vec![native_class(rng), native_class(rng), native_class(rng)];
            for _ in 0..5 {
                big.push(hexbig(&bi(&native_class(rng))));
            }
        }
        "bit_is_equal" => ins = vec![bitf(rng.chance(1, 2)), bitf(rng.chance(1, 2))],
        "and" | "or" | "xor" => {
            let n = rng.range(1, 5) as usize;
            p.push(n as u64);
            ins = (0..n).map(|_| bitf(rng.chance(1, 2))).collect();
        }
        "not" | "bit_to_native" | "assert_true" | "assert_false" => ins = vec![bitf(rng.chance(1, 2))],
        "native_to_bit" => ins = vec![*rng.pick(&[Fq::ZERO, Fq::ONE, Fq::ONE, Fq::from(2), -Fq::ONE])],
        "byte_to_native" => {
            let r = rng.below(256);
            ins = vec![Fq::from(*rng.pick(&[0u64, 1, 127, 128, 255, r]))]
        }
        "band" | "bor" | "bxor" => {
            let n = *rng.pick(&[1u64, 4, 7, 8, 9, 16, 31, 32, 64, 100]);
            p.push(n);
            ins = vec![bounded_class(rng, n), bounded_class(rng, n)];
        }
        "bnot" => {
            let n = *rng.pick(&[1u64, 4, 8, 13, 32, 64]);
            p.push(n);
            ins = vec![bounded_class(rng, n)];
        }
        "to_le_bits" | "to_be_bits" => {
            let n = *rng.pick(&[1u64, 2, 7, 8, 9, 16, 33, 64, 128, 254]);
            p.push(n);
            p.push(rng.below(2));
            ins = vec![bounded_class(rng, n)];
        }
        "to_le_bits_full" => {
            p.push(rng.below(2)); // enforce_canonical
            ins = vec![native_class(rng)];
        }
        "to_le_bytes" | "to_be_bytes" => {
            let n = *rng.pick(&[1u64, 2, 3, 4, 8, 16, 31]);
            p.push(n);
            ins = vec![bounded_class(rng, 8 * n)];
        }
        "from_le_bits" | "from_be_bits" => {
            let n = *rng.pick(&[0u64, 1, 2, 8, 9, 64, 200, 254]);
            p.push(n);
            ins = (0..n).map(|_| bitf(rng.chance(1, 2))).collect();
        }
        "from_le_bytes" | "from_be_bytes" => {
            let n = *rng.pick(&[0u64, 1, 2, 4, 16, 31]);
            p.push(n);
            ins = (0..n)
                .map(|_| {
                    let r = rng.below(256);
                    Fq::from(*rng.pick(&[0u64, 255, r, r]))
                })
                .collect();
        }
        "to_le_chunks" => {
            let bits = *rng.pick(&[1u64, 3, 8, 10, 16, 64]);
            let chunks = rng.range(1, 5);
            p.push(bits);
            p.push(chunks);
            ins = vec![bounded_class(rng, bits * chunks)];
        }
        "is_canonical" | "le_bits_lower_than" | "le_bits_geq_than" => {
            // bits of a value around the modulus / the bound
            let nbits = if op == "is_canonical" { 255 } else { *rng.pick(&[4u64, 8, 64, 255]) };
            p.push(nbits);
            let bound = if op == "is_canonical" {
                fq_modulus()
            } else {
                let b = BigUint::from_bytes_le(&rng.bytes(32)) % pow2(nbits);
                big.push(hexbig(&b));
                b
            };
            let v = match rng.below(6) {
                0 => bound.clone(),
                1 => &bound + 1u32,
                2 => bound.clone() - bound.clone().min(BigUint::one()),
                3 => BigUint::zero(),
                4 => pow2(nbits) - 1u32,
                _ => BigUint::from_bytes_le(&rng.bytes(32)) % pow2(nbits),
            } % pow2(nbits);
            ins = (0..nbits).map(|i| bitf(v.bit(i))).collect();
        }
        "div_rem" | "rem" => {
            let d = match rng.below(5) {
                0 => BigUint::one(),
                1 => BigUint::from(2u32),
                2 => BigUint::from(rng.range(3, 1000)),
                3 => pow2(rng.range(1, 200)),
                _ => {
                    let n = rng.range(1, 30) as usize;
                    BigUint::from_bytes_le(&rng.bytes(n)) + 1u32
                }
            };
            big.push(hexbig(&d));
            // optional inclusive bound on the dividend
            if rng.chance(1, 2) {
                let nb = rng.range(d.bits().max(1), 250);
                let bound = pow2(nb) - 1u32;
                p.push(1);
                big.push(hexbig(&bound));
                ins = vec![f(&(BigUint::from_bytes_le(&rng.bytes(40)) % (&bound + 1u32)))];
            } else {
                p.push(0);
                ins = vec![native_class(rng)];
            }
        }
        "assign_lower_than_fixed" | "assert_lower_than_fixed" => {
            let bound = match rng.below(4) {
                0 => BigUint::one(),
                1 => pow2(rng.range(1, 250)),
                2 => pow2(rng.range(1, 250)) - 1u32,
                _ => {
                    let n = rng.range(1, 31) as usize;
                    BigUint::from_bytes_le(&rng.bytes(n)) + 1u32
                }
            };
            big.push(hexbig(&bound));
            ins = vec![match rng.below(6) {
                0 => Fq::ZERO,
                1 => f(&(&bound - 1u32)),
                2 => f(&bound),
                3 => f(&(&bound + 1u32)),
                4 => uniform_fq(rng),
                _ => f(&(BigUint::from_bytes_le(&rng.bytes(40)) % &bound)),
            }];
        }
        "select" | "cond_assert_equal" | "cond_swap" => {
            let (x, y) = pair(rng);
            ins = vec![bitf(rng.chance(1, 2)), x, y];
        }
        "select_bit" => ins = vec![bitf(rng.chance(1, 2)), bitf(rng.chance(1, 2)), bitf(rng.chance(1, 2))],
        "lower_than" => {
            let n = *rng.pick(&[1u64, 4, 8, 9, 16, 32, 64, 128, 253]);
            p.push(n);
            let x = bounded_class(rng, n);
            let y = match rng.below(4) {
                0 => x,
                1 => x + Fq::ONE,
                2 => x - Fq::ONE,
                _ => bounded_class(rng, n),
            };
            ins = vec![x, y];
        }
        _ => panic!("unknown op {op}"),
    }
    OpCase { op: op.to_string(), p, big, ins: ins.into_iter().map(Fe).collect(), bins: vec![], cols, mbl }
}

// ------------------------------------------------------------------ body

fn natives<L: Layouter<F>>(s: &ZkStdLib, l: &mut L, w: &[Value<F>]) -> Result<Vec<AN>, Error> {
    w.iter().map(|v| s.assign(l, *v)).collect()
}
fn bits<L: Layouter<F>>(s: &ZkStdLib, l: &mut L, w: &[Value<F>]) -> Result<Vec<AB>, Error> {
    w.iter().map(|v| s.assign(l, v.map(|x| x != Fq::ZERO))).collect()
}
fn bytes<L: Layouter<F>>(s: &ZkStdLib, l: &mut L, w: &[Value<F>]) -> Result<Vec<AY>, Error> {
    w.iter().map(|v| s.assign(l, v.map(|x| x.to_bytes_le()[0]))).collect()
}
fn nb(b: &AB) -> AN {
    b.clone().into()
}
fn ny(b: &AY) -> AN {
    b.clone().into()
}

/// Returns the public values: the assigned inputs, then the outputs.
pub fn native_body<L: Layouter<F>>(c: &OpCase, s: &ZkStdLib, l: &mut L, w: &[Value<F>]) -> Result<Vec<AN>, Error> {
    let fc = |i: usize| f(&c.bigp(i));
    let mut out: Vec<AN>;
    match c.op.as_str() {
        "add" | "sub" | "mul" | "mul_const" | "div" | "assert_equal" | "assert_not_equal" | "is_equal" | "is_not_equal" => {
            let x = natives(s, l, w)?;
            out = x.clone();
            match c.op.as_str() {
                "add" => out.push(s.add(l, &x[0], &x[1])?),
                "sub" => out.push(s.sub(l, &x[0], &x[1])?),
                "mul" => out.push(s.mul(l, &x[0], &x[1], None)?),
                "mul_const" => out.push(s.mul(l, &x[0], &x[1], Some(fc(0)))?),
                "div" => out.push(s.div(l, &x[0], &x[1])?),
                "assert_equal" => s.assert_equal(l, &x[0], &x[1])?,
                "assert_not_equal" => s.assert_not_equal(l, &x[0], &x[1])?,
                "is_equal" => out.push(nb(&s.is_equal(l, &x[0], &x[1])?)),
                _ => out.push(nb(&s.is_not_equal(l, &x[0], &x[1])?)),
            }
        }
        "neg" | "inv" | "inv0" | "square" | "assert_zero" | "assert_non_zero" | "is_zero" | "sgn0" | "pow"
        | "add_constant" | "mul_by_constant" | "assert_equal_to_fixed" | "assert_not_equal_to_fixed"
        | "is_equal_to_fixed" | "is_not_equal_to_fixed" => {
            let x = natives(s, l, w)?;
            out = x.clone();
            let x = &x[0];
            match c.op.as_str() {
                "neg" => out.push(s.neg(l, x)?),
                "inv" => out.push(s.inv(l, x)?),
                "inv0" => out.push(s.inv0(l, x)?),
                "square" => out.push(s.square(l, x)?),
                "assert_zero" => s.assert_zero(l, x)?,
                "assert_non_zero" => s.assert_non_zero(l, x)?,
                "is_zero" => out.push(nb(&s.is_zero(l, x)?)),
                "sgn0" => out.push(nb(&s.sgn0(l, x)?)),
                "pow" => out.push(s.pow(l, x, c.p[0])?),
                "add_constant" => out.push(s.add_constant(l, x, fc(0))?),
                "mul_by_constant" => out.push(s.mul_by_constant(l, x, fc(0))?),
                "assert_equal_to_fixed" => s.assert_equal_to_fixed(l, x, fc(0))?,
                "assert_not_equal_to_fixed" => s.assert_not_equal_to_fixed(l, x, fc(0))?,
                "is_equal_to_fixed" => out.push(nb(&s.is_equal_to_fixed(l, x, fc(0))?)),
                _ => out.push(nb(&s.is_not_equal_to_fixed(l, x, fc(0))?)),
            }
        }
        "linear_combination" => {
            let x = natives(s, l, w)?;
            out = x.clone();
            let n = c.p[0] as usize;
            let terms: Vec<(F, AN)> = (0..n).map(|i| (fc(i), x[i].clone())).collect();
            out.push(s.linear_combination(l, &terms, fc(n))?);
        }
        "add_and_mul" => {
            let x = natives(s, l, w)?;
            out = x.clone();
            out.push(s.add_and_mul(l, (fc(0), &x[0]), (fc(1), &x[1]), (fc(2), &x[2]), fc(3), fc(4))?);
        }
        "bit_is_equal" | "and" | "or" | "xor" | "not" | "bit_to_native" | "assert_true" | "assert_false" | "select_bit" => {
            let b = bits(s, l, w)?;
            out = b.iter().map(nb).collect();
            match c.op.as_str() {
                "bit_is_equal" => out.push(nb(&s.is_equal(l, &b[0], &b[1])?)),
                "and" => out.push(nb(&s.and(l, &b)?)),
                "or" => out.push(nb(&s.or(l, &b)?)),
                "xor" => out.push(nb(&s.xor(l, &b)?)),
                "not" => out.push(nb(&s.not(l, &b[0])?)),
                "bit_to_native" => {
                    let n: AN = s.convert(l, &b[0])?;
                    out.push(n)
                }
                "assert_true" => s.assert_true(l, &b[0])?,
                "assert_false" => s.assert_false(l, &b[0])?,
                _ => out.push(nb(&s.select(l, &b[0], &b[1], &b[2])?)),
            }
        }
        "native_to_bit" => {
            let x = natives(s, l, w)?;
            out = x.clone();
            let b: AB = s.convert(l, &x[0])?;
            out.push(nb(&b));
        }
        "byte_to_native" => {
            let y = bytes(s, l, w)?;
            out = y.iter().map(ny).collect();
            let n: AN = s.convert(l, &y[0])?;
            out.push(n);
        }
        "band" | "bor" | "bxor" | "bnot" => {
            let x = natives(s, l, w)?;
            out = x.clone();
            let n = c.p[0] as usize;
            out.push(match c.op.as_str() {
                "band" => s.band(l, &x[0], &x[1], n)?,
                "bor" => s.bor(l, &x[0], &x[1], n)?,
                "bxor" => s.bxor(l, &x[0], &x[1], n)?,
                _ => s.bnot(l, &x[0], n)?,
            });
        }
        "to_le_bits" | "to_be_bits" | "to_le_bits_full" => {
            let x = natives(s, l, w)?;
            out = x.clone();
            let b = match c.op.as_str() {
                "to_le_bits" => s.assigned_to_le_bits(l, &x[0], Some(c.p[0] as usize), c.p[1] == 1)?,
                "to_be_bits" => s.assigned_to_be_bits(l, &x[0], Some(c.p[0] as usize), c.p[1] == 1)?,
                _ => s.assigned_to_le_bits(l, &x[0], None, c.p[0] == 1)?,
            };
            out.extend(b.iter().map(nb));
        }
        "to_le_bytes" | "to_be_bytes" => {
            let x = natives(s, l, w)?;
            out = x.clone();
            let b = if c.op == "to_le_bytes" {
                s.assigned_to_le_bytes(l, &x[0], Some(c.p[0] as usize))?
            } else {
                s.assigned_to_be_bytes(l, &x[0], Some(c.p[0] as usize))?
            };
            out.extend(b.iter().map(ny));
        }
        "from_le_bits" | "from_be_bits" => {
            let b = bits(s, l, w)?;
            out = b.iter().map(nb).collect();
            out.push(if c.op == "from_le_bits" { s.assigned_from_le_bits(l, &b)? } else { s.assigned_from_be_bits(l, &b)? });
        }
        "from_le_bytes" | "from_be_bytes" => {
            let b = bytes(s, l, w)?;
            out = b.iter().map(ny).collect();
            out.push(if c.op == "from_le_bytes" { s.assigned_from_le_bytes(l, &b)? } else { s.assigned_from_be_bytes(l, &b)? });
        }
        "to_le_chunks" => {
            let x = natives(s, l, w)?;
            out = x.clone();
            out.extend(s.assigned_to_le_chunks(l, &x[0], c.p[0] as usize, Some(c.p[1] as usize))?);
        }
        "is_canonical" | "le_bits_lower_than" | "le_bits_geq_than" => {
            let b = bits(s, l, w)?;
            out = b.iter().map(nb).collect();
            out.push(nb(&match c.op.as_str() {
                "is_canonical" => s.is_canonical(l, &b)?,
                "le_bits_lower_than" => s.le_bits_lower_than(l, &b, c.bigp(0))?,
                _ => s.le_bits_geq_than(l, &b, c.bigp(0))?,
            }));
        }
        "div_rem" | "rem" => {
            let x = natives(s, l, w)?;
            out = x.clone();
            let bound = if c.p[0] == 1 { Some(c.bigp(1)) } else { None };
            if c.op == "div_rem" {
                let (q, r) = s.div_rem(l, &x[0], c.bigp(0), bound)?;
                out.push(q);
                out.push(r);
            } else {
                out.push(s.rem(l, &x[0], c.bigp(0), bound)?);
            }
        }
        "assign_lower_than_fixed" => {
            let x: AN = s.assign_lower_than_fixed(l, w[0], &c.bigp(0))?;
            out = vec![x];
        }
        "assert_lower_than_fixed" => {
            let x = natives(s, l, w)?;
            out = x.clone();
            s.assert_lower_than_fixed(l, &x[0], &c.bigp(0))?;
        }
        "select" | "cond_assert_equal" | "cond_swap" => {
            let b = bits(s, l, &w[..1])?;
            let x = natives(s, l, &w[1..])?;
            out = vec![nb(&b[0]), x[0].clone(), x[1].clone()];
            match c.op.as_str() {
                "select" => out.push(s.select(l, &b[0], &x[0], &x[1])?),
                "cond_assert_equal" => s.cond_assert_equal(l, &b[0], &x[0], &x[1])?,
                _ => {
                    let (a, bb) = s.cond_swap(l, &b[0], &x[0], &x[1])?;
                    out.push(a);
                    out.push(bb);
                }
            }
        }
        "lower_than" => {
            let x = natives(s, l, w)?;
            out = x.clone();
            out.push(nb(&s.lower_than(l, &x[0], &x[1], c.p[0] as u32)?));
        }
        other => panic!("unknown op {other}"),
    }
    Ok(out)
}

// ------------------------------------------------------------------ reference semantics

/// Number of leading public values that are inputs.
pub fn n_inputs(c: &OpCase) -> usize {
    c.ins.len()
}

/// `None`: the inputs are outside the operation's domain (or the assertion
/// fails): the circuit must be unsatisfiable. `Some(outs)`: the unique outputs.
/// Operations whose outputs are not unique are handled by `holds`.
pub fn native_eval(c: &OpCase, x: &[Fq]) -> Option<Vec<Fq>> {
    let fc = |i: usize| f(&c.bigp(i));
    let m = fq_modulus();
    let all_bits = |x: &[Fq]| x.iter().all(is_bit);
    let le_value = |bits: &[Fq]| -> BigUint {
        let mut v = BigUint::zero();
        for (i, b) in bits.iter().enumerate() {
            if *b == Fq::ONE {
                v |= BigUint::one() << i;
            }
        }
        v
    };
    Some(match c.op.as_str() {
        "add" => vec![x[0] + x[1]],
        "sub" => vec![x[0] - x[1]],
        "mul" => vec![x[0] * x[1]],
        "mul_const" => vec![x[0] * x[1] * fc(0)],
        "div" => vec![x[0] * Option::<Fq>::from(x[1].invert())?],
        "neg" => vec![-x[0]],
        "inv" => vec![Option::<Fq>::from(x[0].invert())?],
        "inv0" => vec![Option::<Fq>::from(x[0].invert()).unwrap_or(Fq::ZERO)],
        "square" => vec![x[0] * x[0]],
        "pow" => vec![x[0].pow_vartime([c.p[0]])],
        "add_constant" => vec![x[0] + fc(0)],
        "mul_by_constant" => vec![x[0] * fc(0)],
        "linear_combination" => {
            let n = c.p[0] as usize;
            vec![(0..n).fold(fc(n), |acc, i| acc + fc(i) * x[i])]
        }
        "add_and_mul" => vec![fc(0) * x[0] + fc(1) * x[1] + fc(2) * x[2] + fc(3) + fc(4) * x[0] * x[1]],
        "assert_equal" => (x[0] == x[1]).then(Vec::new)?,
        "assert_not_equal" => (x[0] != x[1]).then(Vec::new)?,
        "assert_equal_to_fixed" => (x[0] == fc(0)).then(Vec::new)?,
        "assert_not_equal_to_fixed" => (x[0] != fc(0)).then(Vec::new)?,
        "assert_zero" => (x[0] == Fq::ZERO).then(Vec::new)?,
        "assert_non_zero" => (x[0] != Fq::ZERO).then(Vec::new)?,
        "is_zero" => vec![bitf(x[0] == Fq::ZERO)],
        "is_equal" => vec![bitf(x[0] == x[1])],
        "is_not_equal" => vec![bitf(x[0] != x[1])],
        "is_equal_to_fixed" => vec![bitf(x[0] == fc(0))],
        "is_not_equal_to_fixed" => vec![bitf(x[0] != fc(0))],
        "sgn0" => vec![bitf(bi(&x[0]).bit(0))],
        "bit_is_equal" => {
            all_bits(x).then_some(())?;
            vec![bitf(x[0] == x[1])]
        }
        "and" => {
            all_bits(x).then_some(())?;
            vec![bitf(x.iter().all(|b| *b == Fq::ONE))]
        }
        "or" => {
            all_bits(x).then_some(())?;
            vec![bitf(x.iter().any(|b| *b == Fq::ONE))]
        }
        "xor" => {
            all_bits(x).then_some(())?;
            vec![bitf(x.iter().filter(|b| **b == Fq::ONE).count() % 2 == 1)]
        }
        "not" => {
            all_bits(x).then_some(())?;
            vec![Fq::ONE - x[0]]
        }
        "bit_to_native" | "native_to_bit" => {
            all_bits(x).then_some(())?;
            vec![x[0]]
        }
        "assert_true" => (x[0] == Fq::ONE).then(Vec::new)?,
        "assert_false" => (x[0] == Fq::ZERO).then(Vec::new)?,
        "select_bit" => {
            all_bits(x).then_some(())?;
            vec![if x[0] == Fq::ONE { x[1] } else { x[2] }]
        }
        "byte_to_native" => {
            (bi(&x[0]) < pow2(8)).then_some(())?;
            vec![x[0]]
        }
        "band" | "bor" | "bxor" => {
            let n = c.p[0];
            let (a, b) = (bi(&x[0]), bi(&x[1]));
            (a < pow2(n) && b < pow2(n)).then_some(())?;
            vec![f(&match c.op.as_str() {
                "band" => a & b,
                "bor" => a | b,
                _ => a ^ b,
            })]
        }
        "bnot" => {
            let n = c.p[0];
            let a = bi(&x[0]);
            (a < pow2(n)).then_some(())?;
            vec![f(&((pow2(n) - 1u32) ^ a))]
        }
        "to_le_bits" | "to_be_bits" => {
            let n = c.p[0];
            let a = bi(&x[0]);
            (a < pow2(n)).then_some(())?;
            let mut b: Vec<Fq> = (0..n).map(|i| bitf(a.bit(i))).collect();
            if c.op == "to_be_bits" {
                b.reverse();
            }
            b
        }
        "to_le_bits_full" => {
            let a = bi(&x[0]);
            (0..255).map(|i| bitf(a.bit(i))).collect()
        }
        "to_le_bytes" | "to_be_bytes" => {
            let n = c.p[0];
            let a = bi(&x[0]);
            (a < pow2(8 * n)).then_some(())?;
            let mut bytes = a.to_bytes_le();
            bytes.resize(n as usize, 0);
            if c.op == "to_be_bytes" {
                bytes.reverse();
            }
            bytes.into_iter().map(|b| Fq::from(b as u64)).collect()
        }
        "from_le_bits" | "from_be_bits" => {
            all_bits(x).then_some(())?;
            let mut b = x.to_vec();
            if c.op == "from_be_bits" {
                b.reverse();
            }
            vec![f(&le_value(&b))]
        }
        "from_le_bytes" | "from_be_bytes" => {
            x.iter().all(|b| bi(b) < pow2(8)).then_some(())?;
            let mut b: Vec<u8> = x.iter().map(|v| v.to_bytes_le()[0]).collect();
            if c.op == "from_be_bytes" {
                b.reverse();
            }
            vec![f(&BigUint::from_bytes_le(&b))]
        }
        "to_le_chunks" => {
            let (bits, chunks) = (c.p[0], c.p[1]);
            let a = bi(&x[0]);
            (a < pow2(bits * chunks)).then_some(())?;
            (0..chunks).map(|i| f(&((&a >> (i * bits)) % pow2(bits)))).collect()
        }
        "is_canonical" => {
            all_bits(x).then_some(())?;
            vec![bitf(le_value(x) < m)]
        }
        "le_bits_lower_than" => {
            all_bits(x).then_some(())?;
            vec![bitf(le_value(x) < c.bigp(0))]
        }
        "le_bits_geq_than" => {
            all_bits(x).then_some(())?;
            vec![bitf(le_value(x) >= c.bigp(0))]
        }
        "div_rem" | "rem" => {
            let d = c.bigp(0);
            let a = bi(&x[0]);
            if c.p[0] == 1 {
                // the caller promises dividend <= bound; outside that promise nothing is specified
                (a <= c.bigp(1)).then_some(())?;
            }
            if c.op == "div_rem" {
                vec![f(&(&a / &d)), f(&(&a % &d))]
            } else {
                vec![f(&(&a % &d))]
            }
        }
        "assign_lower_than_fixed" | "assert_lower_than_fixed" => (bi(&x[0]) < c.bigp(0)).then(Vec::new)?,
        "select" => {
            is_bit(&x[0]).then_some(())?;
            vec![if x[0] == Fq::ONE { x[1] } else { x[2] }]
        }
        "cond_assert_equal" => {
            is_bit(&x[0]).then_some(())?;
            (x[0] == Fq::ZERO || x[1] == x[2]).then(Vec::new)?
        }
        "cond_swap" => {
            is_bit(&x[0]).then_some(())?;
            if x[0] == Fq::ONE {
                vec![x[2], x[1]]
            } else {
                vec![x[1], x[2]]
            }
        }
        "lower_than" => {
            let n = c.p[0];
            let (a, b) = (bi(&x[0]), bi(&x[1]));
            (a < pow2(n) && b < pow2(n)).then_some(())?;
            vec![bitf(a < b)]
        }
        other => panic!("unknown op {other}"),
    })
}

/// Whether an accepted (inputs, outputs) pair satisfies the operation's
/// definition; covers the operations with non-unique outputs.
pub fn native_holds(c: &OpCase, ins: &[Fq], outs: &[Fq]) -> Result<(), String> {
    match c.op.as_str() {
        // non-canonical decompositions: any bit vector with sum 2^i b_i = x (mod p)
        "to_le_bits_full" if c.p[0] == 0 => {
            if outs.len() != 255 || !outs.iter().all(is_bit) {
                return Err("outputs are not 255 bits".into());
            }
            let mut v = BigUint::zero();
            for (i, b) in outs.iter().enumerate() {
                if *b == Fq::ONE {
                    v |= BigUint::one() << i;
                }
            }
            if f(&v) == ins[0] {
                Ok(())
            } else {
                Err("bits do not recompose to the input".into())
            }
        }
        // the dividend bound is a promise of the caller ("it is the
        // responsibility of the caller that the bound be valid"): outside the
        // promise nothing is specified
        "div_rem" | "rem" if c.p[0] == 1 && bi(&ins[0]) > c.bigp(1) => Ok(()),
        // the dividend bound is a promise of the caller: with a bound, only q*d + r = x, r < d is required
        _ => match native_eval(c, ins) {
            None => Err("the inputs are outside the operation's domain (or its assertion is false), yet the circuit is satisfied".into()),
            Some(e) if e == outs => Ok(()),
            Some(e) => Err(format!(
                "outputs {:?} differ from the definition {:?}",
                outs.iter().map(|x| Fe(*x)).collect::<Vec<_>>(),
                e.iter().map(|x| Fe(*x)).collect::<Vec<_>>()
            )),
        },
    }
}

// ------------------------------------------------------------------ relation wrapper and family dispatch

/// A standard-library relation running one operation case.
#[derive(Clone, Debug)]
pub struct OpRel {
    pub case: OpCase,
}

impl Relation for OpRel {
    /// the raw public inputs (only used by the real prover / verifier)
    type Instance = Vec<F>;
    type Witness = (Vec<F>, Vec<BigUint>);
    fn format_instance(i: &Vec<F>) -> Result<Vec<F>, Error> {
        Ok(i.clone())
    }
    /// Cases that expose through the committed instance column carry, after their own
    /// big-integer witnesses, a tag and the number of leading native witnesses that make
    /// up the committed column (this function has no access to the case).
    fn format_committed_instances(w: &(Vec<F>, Vec<BigUint>)) -> Vec<F> {
        match w.1.as_slice() {
            [.., tag, n] if *tag == BigUint::from(COMMIT_TAG) => {
                let n: usize = n.try_into().unwrap_or(0);
                w.0[..n.min(w.0.len())].to_vec()
            }
            _ => vec![],
        }
    }
    fn circuit(&self, s: &ZkStdLib, l: &mut impl Layouter<F>, _i: Value<Vec<F>>, w: Value<(Vec<F>, Vec<BigUint>)>) -> Result<(), Error> {
        let n = self.case.ins.len();
        let nb = self.case.bins.len();
        let wn: Vec<Value<F>> = (0..n).map(|i| w.as_ref().map(|v| v.0[i])).collect();
        let wb: Vec<Value<BigUint>> = (0..nb).map(|i| w.as_ref().map(|v| v.1[i].clone())).collect();
        body(&self.case, s, l, &wn, &wb)
    }
    fn used_chips(&self) -> ZkStdLibArch {
        arch(&self.case)
    }
    fn write_relation<W: std::io::Write>(&self, w: &mut W) -> std::io::Result<()> {
        // the case as JSON, length-prefixed
        let body = serde_json::to_vec(&self.case).map_err(std::io::Error::other)?;
        w.write_all(&(body.len() as u32).to_le_bytes())?;
        w.write_all(&body)
    }
    fn read_relation<R: std::io::Read>(r: &mut R) -> std::io::Result<Self> {
        let mut len = [0u8; 4];
        r.read_exact(&mut len)?;
        let n = u32::from_le_bytes(len) as usize;
        if n > 1 << 20 {
            return Err(std::io::Error::other("relation too long"));
        }
        let mut body = vec![0u8; n];
        r.read_exact(&mut body)?;
        Ok(OpRel { case: serde_json::from_slice(&body).map_err(std::io::Error::other)? })
    }
}

fn family(c: &OpCase) -> &str {
    c.op.split('.').next().filter(|_| c.op.contains('.')).unwrap_or("native")
}

pub const COMMIT_TAG: u64 = 0xC0_117E_D000;

pub fn witness(c: &OpCase) -> (Vec<F>, Vec<BigUint>) {
    let mut bins: Vec<BigUint> = (0..c.bins.len()).map(|i| c.bin(i)).collect();
    if c.op.starts_with("pi.") && c.op.ends_with(".committed") {
        // one native-like value goes to the committed column (see OpRel::format_committed_instances)
        bins.push(BigUint::from(COMMIT_TAG));
        bins.push(BigUint::from(1u8));
    }
    (c.ins.iter().map(|x| x.0).collect(), bins)
}

pub fn arch(c: &OpCase) -> ZkStdLibArch {
    match family(c) {
        "ff" | "big" => crate::ops_ff::arch(c),
        "ec" => crate::ops_ecc::arch(c),
        "h" => crate::ops_hash::arch(c),
        "b64" | "b64v" => crate::ops_parse::b64_arch(c),
        "map" => crate::ops_map::arch(c),
        "pi" => crate::ops_pi::arch(c),
        _ => ZkStdLibArch { nr_pow2range_cols: c.cols, ..ZkStdLibArch::default() },
    }
}

/// Synthesises the operation and publishes inputs and outputs.
pub fn body<L: Layouter<F>>(c: &OpCase, s: &ZkStdLib, l: &mut L, w: &[Value<F>], wb: &[Value<BigUint>]) -> Result<(), Error> {
    match family(c) {
        "ff" | "big" => crate::ops_ff::body(c, s, l, w, wb),
        "ec" => crate::ops_ecc::body(c, s, l, w, wb),
        "h" => crate::ops_hash::body(c, s, l, w),
        "b64" => crate::ops_parse::b64_body(c, s, l, w),
        "b64v" => crate::ops_parse::b64v_body(c, s, l, w),
        "map" => crate::ops_map::body(c, s, l, w),
        "pi" => crate::ops_pi::body(c, s, l, w, wb),
        _ => {
            for p in &native_body(c, s, l, w)? {
                s.constrain_as_public_input(l, p)?;
            }
            Ok(())
        }
    }
}

pub enum Judgement {
    /// inputs admissible and the published outputs satisfy the definition
    Holds,
    /// the published inputs are outside the operation's domain (or its
    /// assertion is false): the circuit should have been unsatisfiable
    Inadmissible,
    Wrong(String),
    /// the operation's definition holds on the residues, but a published
    /// emulated-field representation is not the canonical one
    NonCanonicalExposure(String),
}

/// Judges the public values bound by an accepted execution.
pub fn judge(c: &OpCase, publics: &[Fq]) -> Judgement {
    match family(c) {
        "ff" | "big" => match crate::ops_ff::check(c, publics) {
            Ok(true) => match crate::ops_ff::take_noncanonical() {
                Some(m) => Judgement::NonCanonicalExposure(m),
                None => Judgement::Holds,
            },
            Ok(false) => Judgement::Inadmissible,
            Err(e) => Judgement::Wrong(e),
        },
        "map" => match crate::ops_map::check(c, publics) {
            Ok(true) => Judgement::Holds,
            Ok(false) => Judgement::Inadmissible,
            Err(e) => Judgement::Wrong(e),
        },
        "vec" | "vec4" | "vec3" => match crate::ops_vec::check(c, publics) {
            Ok(true) => Judgement::Holds,
            Ok(false) => Judgement::Inadmissible,
            Err(e) => Judgement::Wrong(e),
        },
        "vp" => match crate::ops_hash::varpos::check(c, publics) {
            Ok(true) => Judgement::Holds,
            Ok(false) => Judgement::Inadmissible,
            Err(e) => Judgement::Wrong(e),
        },
        "hr" => match crate::ops_hash::rip::check(c, publics) {
            Ok(true) => Judgement::Holds,
            Ok(false) => Judgement::Inadmissible,
            Err(e) => Judgement::Wrong(e),
        },
        "vh" => match crate::ops_hash::varsha::check(c, publics) {
            Ok(true) => Judgement::Holds,
            Ok(false) => Judgement::Inadmissible,
            Err(e) => Judgement::Wrong(e),
        },
        "sp" => match crate::ops_hash::sponge::check(c, publics) {
            Ok(true) => Judgement::Holds,
            Ok(false) => Judgement::Inadmissible,
            Err(e) => Judgement::Wrong(e),
        },
        "rx" => match crate::ops_parse::rx_check(c, publics) {
            Ok(true) => Judgement::Holds,
            Ok(false) => Judgement::Inadmissible,
            Err(e) => Judgement::Wrong(e),
        },
        "b64v" => match crate::ops_parse::b64v_check(c, publics) {
            Ok(true) => Judgement::Holds,
            Ok(false) => Judgement::Inadmissible,
            Err(e) => Judgement::Wrong(e),
        },
        "b64" => match crate::ops_parse::b64_check(c, publics) {
            Ok(true) => Judgement::Holds,
            Ok(false) => Judgement::Inadmissible,
            Err(e) => Judgement::Wrong(e),
        },
        "ng" => match crate::ops_ng::check(c, publics) {
            Ok(true) => Judgement::Holds,
            Ok(false) => Judgement::Inadmissible,
            Err(e) => Judgement::Wrong(e),
        },
        "h" => match crate::ops_hash::check(c, publics) {
            Ok(true) => Judgement::Holds,
            Ok(false) => Judgement::Inadmissible,
            Err(e) => Judgement::Wrong(e),
        },
        "ec" => match crate::ops_ecc::check(c, publics) {
            Ok(true) => Judgement::Holds,
            Ok(false) => Judgement::Inadmissible,
            Err(e) => Judgement::Wrong(e),
        },
        _ => {
            let n = c.ins.len().min(publics.len());
            let (bi, bo) = publics.split_at(n);
            if native_unspecified(c, bi) {
                return Judgement::Holds;
            }
            match native_eval(c, bi) {
                None => Judgement::Inadmissible,
                Some(_) => match native_holds(c, bi, bo) {
                    Ok(()) => Judgement::Holds,
                    Err(e) => Judgement::Wrong(e),
                },
            }
        }
    }
}

/// Whether the declared (honest) inputs are inside the operation's domain.
pub fn expected_admissible(c: &OpCase) -> bool {
    match family(c) {
        "ff" | "big" => crate::ops_ff::expected_admissible(c),
        "ec" => crate::ops_ecc::expected_admissible(c),
        "h" => crate::ops_hash::expected_admissible(c),
        "ng" => crate::ops_ng::expected_admissible(c),
        "vec" | "vec4" | "vec3" => crate::ops_vec::expected_admissible(c),
        "rx" => crate::ops_parse::rx_expected_admissible(c),
        "sp" | "vh" | "vp" | "hr" | "map" => true,
        "b64" => crate::ops_parse::b64_expected_admissible(c),
        "b64v" => crate::ops_parse::b64v_expected_admissible(c),
        _ => {
            let ins: Vec<Fq> = c.ins.iter().map(|x| x.0).collect();
            native_eval(c, &ins).is_some()
        }
    }
}

fn native_unspecified(c: &OpCase, ins: &[Fq]) -> bool {
    matches!(c.op.as_str(), "div_rem" | "rem") && c.p[0] == 1 && !ins.is_empty() && bi(&ins[0]) > c.bigp(1)
}

/// Every operation of the registry (all families).
pub fn all_ops() -> Vec<String> {
    let mut v: Vec<String> = NATIVE_OPS.iter().map(|s| s.to_string()).collect();
    v.extend(crate::ops_ff::ff_ops());
    v.extend(crate::ops_ff::big_ops());
    v.extend(crate::ops_ecc::jj_ops());
    v.extend(crate::ops_ecc::fc_ops());
    v.extend(crate::ops_hash::hash_ops());
    v
}

pub fn gen_case(rng: &mut Prng, op: &str) -> OpCase {
    if op.starts_with("b64v.") {
        crate::ops_parse::b64v_gen_case(rng, op)
    } else if op.starts_with("map.") {
        crate::ops_map::gen_case(rng)
    } else if op.starts_with("vec") {
        crate::ops_vec::gen_case(rng, op)
    } else if op.starts_with("vp.") {
        crate::ops_hash::varpos::gen_case(rng)
    } else if op.starts_with("hr.") {
        crate::ops_hash::rip::gen_case(rng)
    } else if op.starts_with("vh.") {
        crate::ops_hash::varsha::gen_case(rng)
    } else if op.starts_with("sp.") {
        crate::ops_hash::sponge::gen_case(rng)
    } else if op.starts_with("b64.") {
        crate::ops_parse::b64_gen_case(rng, op)
    } else if op.starts_with("ng.") {
        crate::ops_ng::gen_case(rng, op)
    } else if op.starts_with("h.") {
        crate::ops_hash::gen_case(rng, op)
    } else if op.starts_with("ec.") {
        crate::ops_ecc::gen_case(rng, op)
    } else if op.starts_with("ff.") || op.starts_with("big.") {
        crate::ops_ff::gen_case(rng, op)
    } else {
        gen_native_case(rng, op)
    }
}

/// A qualifier of the input class, appended to violation signatures where one
/// operation has a recorded finding on a narrow class of inputs (so that the
/// known-findings entry names that class and nothing else of the operation).
pub fn input_class(c: &OpCase) -> String {
    if c.op.starts_with("vec") {
        return crate::ops_vec::input_class(c);
    }
    if (c.op == "ec.k256.mul_by_constant" || c.op == "ec.bls.mul_by_constant") && c.bins.first().map(|s| s.as_str()) == Some("0") && c.bigp(0).bits() > 128 {
        return "[identity base, constant above 128 bits]".into();
    }
    String::new()
}

/// A qualifier derived from the public values of an accepted execution, for
/// the same purpose as `input_class`.
pub fn published_class(c: &OpCase, publics: &[Fq]) -> String {
    if c.op.starts_with("vec") {
        // nothing of a vector's cells is published: the class is read off the honest input
        return crate::ops_vec::input_class(c);
    }
    if (c.op == "div_rem" || c.op == "rem") && c.p[0] == 0 && !publics.is_empty() {
        // the decomposition of dividend + (field order) instead of the dividend
        let d = c.bigp(0);
        let wrapped = bi(&publics[0]) + crate::util::fq_modulus();
        let (q, r) = (&wrapped / &d, &wrapped % &d);
        let outs: Vec<BigUint> = publics[1..].iter().map(bi).collect();
        let hit = if c.op == "div_rem" { outs == vec![q, r] } else { outs == vec![r] };
        if hit {
            return "[no dividend bound: quotient and remainder of dividend + field order]".into();
        }
    }
    if c.op == "b64v.url" {
        // nothing is published (crate-private vector): the class is read off the honest input -
        // '+' or '/' present, and well-formed once they are written '-' and '_'
        let plus = Fq::from(b'+' as u64);
        let slash = Fq::from(b'/' as u64);
        if c.ins.iter().any(|b| b.0 == plus || b.0 == slash) {
            let mut fixed = c.clone();
            for b in fixed.ins.iter_mut() {
                if b.0 == plus {
                    *b = Fe(Fq::from(b'-' as u64));
                } else if b.0 == slash {
                    *b = Fe(Fq::from(b'_' as u64));
                }
            }
            if crate::ops_parse::b64v_expected_admissible(&fixed) {
                return "[base64url input containing '+' or '/']".into();
            }
        }
    }
    if c.op == "b64.url" {
        let n = (c.p[1] as usize).min(publics.len());
        if publics[..n].iter().any(|b| *b == Fq::from(b'+' as u64) || *b == Fq::from(b'/' as u64)) {
            return "[base64url input containing '+' or '/']".into();
        }
    }
    String::new()
}

/// Development aid (sensitivity experiments only, never set by a registered
/// command): ZKSIM_OP_FILTER=<substring> restricts an operation list.
pub fn dev_filter(v: Vec<String>) -> Vec<String> {
    match std::env::var("ZKSIM_OP_FILTER") {
        Ok(f) if !f.is_empty() => {
            let w: Vec<String> = v.iter().filter(|o| o.contains(&f)).cloned().collect();
            if w.is_empty() {
                v
            } else {
                w
            }
        }
        _ => v,
    }
}
