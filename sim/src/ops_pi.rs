//! Registry family "pi": one value of an `Instantiable` type is exposed as a
//! public input - through `constrain_as_public_input`, `assign_as_public_input`
//! or the committed instance column - and nothing else is published (C08).
use ff::{Field, PrimeField};
use group::Group;
use midnight_circuits::{
    biguint::AssignedBigUint,
    field::{decomposition::chip::P2RDecompositionChip, foreign::params::MultiEmulationParams, NativeChip, NativeGadget},
    instructions::{public_input::CommittedInstanceInstructions, *},
    types::{
        AssignedBit, AssignedByte, AssignedField, AssignedForeignPoint, AssignedNative, AssignedNativePoint,
        AssignedScalarOfNativeCurve, Instantiable,
    },
    CircuitField,
};
use midnight_curves::{k256::{self, K256}, Fp as BlsFp, Fq, Fr as JubjubFr, G1Projective, JubjubExtended, JubjubSubgroup};
use midnight_proofs::{
    circuit::{Layouter, Value},
    plonk::Error,
};
use midnight_zk_stdlib::{ZkStdLib, ZkStdLibArch};
use num_bigint::BigUint;
use num_traits::{One, Zero};

use crate::{
    core::prng::Prng,
    ops::OpCase,
    util::{big_to_fq, draw_fq, Fe},
};

type F = Fq;
type MEP = MultiEmulationParams;
type JJ = JubjubExtended;
#[allow(dead_code)]
type NG = NativeGadget<F, P2RDecompositionChip<F>, NativeChip<F>>;

pub const PI_TYPES: &[&str] = &["bit", "byte", "native", "k256p", "k256q", "blsp", "jjpoint", "jjscalar", "k256point", "blspoint", "biguint"];
/// exposure paths: constrain_as_public_input, assign_as_public_input, committed instance column
pub const PI_PATHS: &[&str] = &["constrain", "assign", "committed"];

pub fn pi_ops() -> Vec<String> {
    let mut v = vec![];
    for t in PI_TYPES {
        for p in PI_PATHS {
            // assign_as_public_input is not offered for big integers; the committed column takes natives-like types
            if (*t == "biguint" && *p != "constrain") || (*p == "committed" && !matches!(*t, "bit" | "byte" | "native")) {
                continue;
            }
            v.push(format!("pi.{t}.{p}"));
        }
        // exposure of a value that went through in-circuit computation (representations that
        // are not freshly assigned), and of a big integer under a looser declared width
        if matches!(*t, "k256p" | "k256q" | "blsp" | "jjpoint" | "k256point" | "blspoint" | "biguint") {
            v.push(format!("pi.{t}.computed"));
        }
        if *t == "biguint" {
            v.push(format!("pi.{t}.looser"));
        }
    }
    v
}

thread_local! {
    /// width the circuit derived for a computed big integer (set during synthesis)
    static DERIVED_NB: std::cell::Cell<u32> = const { std::cell::Cell::new(0) };
}

pub fn arch(c: &OpCase) -> ZkStdLibArch {
    let t = c.op.split('.').nth(1).unwrap_or("");
    let mut a = ZkStdLibArch { nr_pow2range_cols: c.cols, ..ZkStdLibArch::default() };
    match t {
        "k256p" | "k256q" | "k256point" => a.secp256k1 = true,
        "blsp" | "blspoint" => a.bls12_381 = true,
        "jjpoint" | "jjscalar" => a.jubjub = true,
        _ => {}
    }
    a
}

fn modulus(t: &str) -> BigUint {
    match t {
        "k256p" => <k256::Fp as CircuitField>::modulus(),
        "k256q" | "k256point" => <k256::Fq as CircuitField>::modulus(),
        "blsp" => <BlsFp as CircuitField>::modulus(),
        "jjpoint" | "jjscalar" => crate::ops_ecc::jubjub_order(),
        "blspoint" => crate::bigcurve::bls12_381_r(),
        _ => crate::util::fq_modulus(),
    }
}

pub fn gen_case(rng: &mut Prng, op: &str) -> OpCase {
    let t = op.split('.').nth(1).unwrap();
    let mut p = vec![];
    let mut ins: Vec<Fq> = vec![];
    let mut bins: Vec<BigUint> = vec![];
    let m = modulus(t);
    let class = |rng: &mut Prng, m: &BigUint| match rng.below(8) {
        0 => BigUint::zero(),
        1 => BigUint::one(),
        2 => m - 1u32,
        3 => m - 2u32,
        4 => (BigUint::one() << 64u32) % m,
        5 => ((BigUint::one() << 128u32) - 1u32) % m,
        _ => BigUint::from_bytes_le(&rng.bytes(64)) % m,
    };
    match t {
        "bit" => ins = vec![Fq::from(rng.below(2))],
        "byte" => {
            let r = rng.below(256);
            ins = vec![Fq::from(*rng.pick(&[0u64, 1, 255, r]))]
        }
        "native" => ins = vec![draw_fq(rng)],
        "biguint" => {
            let nb = *rng.pick(&[1u32, 8, 95, 96, 97, 192, 193, 256, 1024, 2048]);
            p.push(nb as u64);
            let top = BigUint::one() << nb;
            bins = vec![class(rng, &top)];
            if op.ends_with(".looser") {
                p.push(nb as u64 + *rng.pick(&[1u64, 8, 32, 64, 96, 100]));
            }
        }
        // field elements, and points / scalars given by a discrete logarithm (0 = identity)
        _ => bins = vec![class(rng, &m)],
    }
    OpCase {
        op: op.to_string(),
        p,
        big: vec![],
        ins: ins.into_iter().map(Fe).collect(),
        bins: bins.iter().map(|b| b.to_str_radix(16)).collect(),
        cols: rng.range(1, 4) as u8,
        mbl: rng.range(8, 11) as u8,
    }
}

fn jj_scalar(k: &BigUint) -> JubjubFr {
    let mut bytes = (k % crate::ops_ecc::jubjub_order()).to_bytes_le();
    bytes.resize(32, 0);
    JubjubFr::from_repr(bytes.try_into().unwrap()).unwrap()
}

/// The off-circuit encoding `T::as_public_input(v)` of the case's value.
pub fn off_circuit(c: &OpCase) -> Vec<Fq> {
    let t = c.op.split('.').nth(1).unwrap();
    // the computed path exposes the negation (the big integer: the value itself)
    let negated = c.op.ends_with(".computed") && t != "biguint";
    let k = |i: usize| {
        if negated {
            let m = modulus(t);
            (&m - c.bin(i) % &m) % &m
        } else {
            c.bin(i)
        }
    };
    match t {
        "bit" => <AssignedBit<F> as Instantiable<F>>::as_public_input(&(c.ins[0].0 != Fq::ZERO)),
        "byte" => <AssignedByte<F> as Instantiable<F>>::as_public_input(&c.ins[0].0.to_bytes_le()[0]),
        "native" => <AssignedNative<F> as Instantiable<F>>::as_public_input(&c.ins[0].0),
        "k256p" => <AssignedField<F, k256::Fp, MEP> as Instantiable<F>>::as_public_input(&k256::Fp::from_biguint(&k(0)).unwrap()),
        "k256q" => <AssignedField<F, k256::Fq, MEP> as Instantiable<F>>::as_public_input(&k256::Fq::from_biguint(&k(0)).unwrap()),
        "blsp" => <AssignedField<F, BlsFp, MEP> as Instantiable<F>>::as_public_input(&BlsFp::from_biguint(&k(0)).unwrap()),
        "jjpoint" => <AssignedNativePoint<JJ> as Instantiable<F>>::as_public_input(&(JubjubSubgroup::generator() * jj_scalar(&k(0)))),
        "jjscalar" => <AssignedScalarOfNativeCurve<JJ> as Instantiable<F>>::as_public_input(&jj_scalar(&k(0))),
        "k256point" => <AssignedForeignPoint<F, K256, MEP> as Instantiable<F>>::as_public_input(&(K256::generator() * k256::Fq::from_biguint(&k(0)).unwrap())),
        "blspoint" => <AssignedForeignPoint<F, G1Projective, MEP> as Instantiable<F>>::as_public_input(&(G1Projective::generator() * big_to_fq(&k(0)))),
        "biguint" if c.op.ends_with(".looser") => AssignedBigUint::<F>::as_public_input(&k(0), c.p[1] as u32),
        // (computed: the value is a + a - a, the width is the one the circuit derived)
        "biguint" if c.op.ends_with(".computed") => AssignedBigUint::<F>::as_public_input(&k(0), DERIVED_NB.with(|d| d.get())),
        "biguint" => AssignedBigUint::<F>::as_public_input(&k(0), c.p[0] as u32),
        o => panic!("unknown pi type {o}"),
    }
}

macro_rules! expose {
    ($chip:expr, $s:expr, $l:expr, $path:expr, $ty:ty, $val:expr) => {{
        match $path {
            "assign" => {
                let _x: $ty = $chip.assign_as_public_input($l, $val)?;
            }
            _ => {
                let x: $ty = $chip.assign($l, $val)?;
                $chip.constrain_as_public_input($l, &x)?;
            }
        }
    }};
}

pub fn body<L: Layouter<F>>(c: &OpCase, s: &ZkStdLib, l: &mut L, w: &[Value<F>], wb: &[Value<BigUint>]) -> Result<(), Error> {
    let parts: Vec<&str> = c.op.split('.').collect();
    let (t, path) = (parts[1], parts[2]);
    if path == "committed" {
        match t {
            "bit" => {
                let x: AssignedBit<F> = s.assign(l, w[0].map(|v| v != Fq::ZERO))?;
                s.constrain_as_committed_public_input(l, &x)?
            }
            "byte" => {
                let x: AssignedByte<F> = s.assign(l, w[0].map(|v| v.to_bytes_le()[0]))?;
                s.constrain_as_committed_public_input(l, &x)?
            }
            _ => {
                let x: AssignedNative<F> = s.assign(l, w[0])?;
                s.constrain_as_committed_public_input(l, &x)?
            }
        }
        return Ok(());
    }
    if path == "computed" || path == "looser" {
        macro_rules! ff_computed {
            ($chip:expr, $K:ty) => {{
                let chip = $chip;
                let x: AssignedField<F, $K, MEP> = chip.assign(l, wb[0].clone().map(|b| <$K>::from_biguint(&b).unwrap()))?;
                // -x: limbs produced by a linear combination, not by a fresh assignment
                let y = chip.neg(l, &x)?;
                chip.constrain_as_public_input(l, &y)?
            }};
        }
        macro_rules! point_computed {
            ($chip:expr, $val:expr, $ty:ty) => {{
                let chip = $chip;
                let p: $ty = chip.assign(l, $val)?;
                if c.bin(0).is_zero() {
                    // the identity has no affine coordinates: exposed as assigned
                    chip.constrain_as_public_input(l, &p)?
                } else {
                    let bf = chip.base_field_chip();
                    let x = chip.x_coordinate(&p);
                    let y = chip.y_coordinate(&p);
                    // -P built from its coordinates
                    let y1 = bf.neg(l, &y)?;
                    let q = chip.point_from_coordinates(l, &x, &y1)?;
                    chip.constrain_as_public_input(l, &q)?
                }
            }};
        }
        match t {
            "k256q" => ff_computed!(s.secp256k1_scalar(), k256::Fq),
            "k256p" => ff_computed!(s.secp256k1_curve().base_field_chip(), k256::Fp),
            "blsp" => ff_computed!(s.bls12_381_curve().base_field_chip(), BlsFp),
            "jjpoint" => {
                let chip = s.jubjub();
                let p: AssignedNativePoint<JJ> = chip.assign(l, wb[0].clone().map(|b| JubjubSubgroup::generator() * jj_scalar(&b)))?;
                let q = chip.negate(l, &p)?;
                chip.constrain_as_public_input(l, &q)?
            }
            "k256point" => point_computed!(s.secp256k1_curve(), wb[0].clone().map(|b| K256::generator() * k256::Fq::from_biguint(&b).unwrap()), AssignedForeignPoint<F, K256, MEP>),
            "blspoint" => point_computed!(s.bls12_381_curve(), wb[0].clone().map(|b| G1Projective::generator() * big_to_fq(&b)), AssignedForeignPoint<F, G1Projective, MEP>),
            "biguint" => {
                let g = s.biguint();
                let x = g.assign_biguint(l, wb[0].clone(), c.p[0] as u32)?;
                if path == "looser" {
                    g.constrain_as_public_input(l, &x, c.p[1] as u32)?
                } else {
                    let d = g.add(l, &x, &x)?;
                    let y = g.sub(l, &d, &x)?;
                    DERIVED_NB.with(|n| n.set(y.nb_bits()));
                    g.constrain_as_public_input(l, &y, y.nb_bits())?
                }
            }
            o => panic!("unknown computed pi type {o}"),
        }
        return Ok(());
    }
    match t {
        "bit" => expose!(s, s, l, path, AssignedBit<F>, w[0].map(|v| v != Fq::ZERO)),
        "byte" => expose!(s, s, l, path, AssignedByte<F>, w[0].map(|v| v.to_bytes_le()[0])),
        "native" => expose!(s, s, l, path, AssignedNative<F>, w[0]),
        "k256q" => {
            let chip = s.secp256k1_scalar();
            expose!(chip, s, l, path, AssignedField<F, k256::Fq, MEP>, wb[0].clone().map(|b| k256::Fq::from_biguint(&b).unwrap()))
        }
        "k256p" => {
            let chip = s.secp256k1_curve().base_field_chip();
            expose!(chip, s, l, path, AssignedField<F, k256::Fp, MEP>, wb[0].clone().map(|b| k256::Fp::from_biguint(&b).unwrap()))
        }
        "blsp" => {
            let chip = s.bls12_381_curve().base_field_chip();
            expose!(chip, s, l, path, AssignedField<F, BlsFp, MEP>, wb[0].clone().map(|b| BlsFp::from_biguint(&b).unwrap()))
        }
        "jjpoint" => {
            let chip = s.jubjub();
            expose!(chip, s, l, path, AssignedNativePoint<JJ>, wb[0].clone().map(|b| JubjubSubgroup::generator() * jj_scalar(&b)))
        }
        "jjscalar" => {
            let chip = s.jubjub();
            expose!(chip, s, l, path, AssignedScalarOfNativeCurve<JJ>, wb[0].clone().map(|b| jj_scalar(&b)))
        }
        "k256point" => {
            let chip = s.secp256k1_curve();
            expose!(chip, s, l, path, AssignedForeignPoint<F, K256, MEP>, wb[0].clone().map(|b| K256::generator() * k256::Fq::from_biguint(&b).unwrap()))
        }
        "blspoint" => {
            let chip = s.bls12_381_curve();
            expose!(chip, s, l, path, AssignedForeignPoint<F, G1Projective, MEP>, wb[0].clone().map(|b| G1Projective::generator() * big_to_fq(&b)))
        }
        "biguint" => {
            let g = s.biguint();
            let x = g.assign_biguint(l, wb[0].clone(), c.p[0] as u32)?;
            g.constrain_as_public_input(l, &x, c.p[0] as u32)?
        }
        o => panic!("unknown pi type {o}"),
    }
    Ok(())
}
