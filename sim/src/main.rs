//! zksim - deterministic simulation with fault injection for midnight-zk.
#![allow(dead_code)]
mod alloc_track;
mod bigcurve;
mod core;
mod enc;
mod fixtures;
mod gen_circuit;
mod opcirc;
mod ops;
mod ops_ecc;
mod ops_ff;
mod ops_hash;
mod ops_map;
mod ops_ng;
mod ops_parse;
mod ops_pi;
mod ops_vec;
mod pipeline;
mod props;
mod repair;
mod rx;
mod stdfix;
mod tracing_t;
mod util;

use std::path::PathBuf;

use crate::core::{
    prng::DEFAULT_SEED,
    runner::{self, Opts, Tier},
};

#[global_allocator]
static GLOBAL: alloc_track::Counting = alloc_track::Counting;

fn usage() -> ! {
    eprintln!(
        "usage: zksim check <ID> [--tier quick|thorough] [--seed N] [--workers N] [--runs N] [--max-wall S] [--digest-out FILE] [--no-evidence]\n       zksim replay <file>\n       zksim list"
    );
    std::process::exit(2)
}

fn main() {
    runner::install_panic_hook();
    let args: Vec<String> = std::env::args().skip(1).collect();
    if args.is_empty() {
        usage();
    }
    match args[0].as_str() {
        "c16-worker" => std::process::exit(props::c16::worker_main()),
        "list" => {
            for c in props::all() {
                println!("{}", c.id());
            }
        }
        "check" => {
            let id = args.get(1).cloned().unwrap_or_else(|| usage());
            let check = props::by_id(&id).unwrap_or_else(|| {
                eprintln!("HARNESS-ERROR: unknown property {id}");
                std::process::exit(2)
            });
            let env_seed = std::env::var("VERIF_SEED").ok().and_then(|s| s.parse::<u64>().ok());
            let env_tier = std::env::var("VERIF_TIER").ok();
            let mut o = Opts {
                tier: match env_tier.as_deref() {
                    Some("thorough") => Tier::Thorough,
                    _ => Tier::Quick,
                },
                seed: env_seed.unwrap_or(DEFAULT_SEED),
                workers: std::thread::available_parallelism().map(|n| n.get()).unwrap_or(4).min(16),
                runs_override: None,
                max_wall_s: 0,
                digest_out: None,
                write_evidence: true,
            };
            let mut tier_set = false;
            let mut i = 2;
            while i < args.len() {
                let val = |i: usize| args.get(i + 1).cloned().unwrap_or_else(|| usage());
                match args[i].as_str() {
                    "--tier" => {
                        o.tier = match val(i).as_str() {
                            "quick" => Tier::Quick,
                            "thorough" => Tier::Thorough,
                            _ => usage(),
                        };
                        tier_set = true;
                        i += 1;
                    }
                    "--seed" => {
                        o.seed = val(i).parse().unwrap_or_else(|_| usage());
                        i += 1;
                    }
                    "--workers" => {
                        o.workers = val(i).parse().unwrap_or_else(|_| usage());
                        i += 1;
                    }
                    "--runs" => {
                        o.runs_override = Some(val(i).parse().unwrap_or_else(|_| usage()));
                        i += 1;
                    }
                    "--max-wall" => {
                        o.max_wall_s = val(i).parse().unwrap_or_else(|_| usage());
                        i += 1;
                    }
                    "--digest-out" => {
                        o.digest_out = Some(PathBuf::from(val(i)));
                        i += 1;
                    }
                    "--no-evidence" => o.write_evidence = false,
                    _ => usage(),
                }
                i += 1;
            }
            let _ = tier_set;
            if o.max_wall_s == 0 {
                o.max_wall_s = match o.tier {
                    Tier::Quick => 1500,
                    Tier::Thorough => 3000,
                };
            }
            println!("VERIF_SEED={}", o.seed);
            std::process::exit(runner::run_check(check.as_ref(), &o));
        }
        "gen" => {
            // print the scenario of run <idx> of a check (debugging aid)
            let id = args.get(1).cloned().unwrap_or_else(|| usage());
            let idx: u64 = args.get(2).and_then(|s| s.parse().ok()).unwrap_or(0);
            let check = props::by_id(&id).unwrap_or_else(|| usage());
            let seed = std::env::var("VERIF_SEED").ok().and_then(|s| s.parse().ok()).unwrap_or(DEFAULT_SEED);
            let tier = if std::env::var("VERIF_TIER").as_deref() == Ok("thorough") { Tier::Thorough } else { Tier::Quick };
            let scn = runner::gen_scn(check.as_ref(), seed, tier, idx);
            let rf = runner::ReplayFile { property: id.clone(), violation: runner::Viol::new("none", "none", ""), seed, run_index: idx, minimised: false, shrink_steps: 0, scenario: scn };
            println!("{}", serde_json::to_string_pretty(&rf).unwrap());
        }
        "replay" => {
            let file = PathBuf::from(args.get(1).cloned().unwrap_or_else(|| usage()));
            let s = std::fs::read_to_string(&file).unwrap_or_else(|e| {
                eprintln!("HARNESS-ERROR: {e}");
                std::process::exit(2)
            });
            let v: serde_json::Value = serde_json::from_str(&s).unwrap_or_else(|e| {
                eprintln!("HARNESS-ERROR: {e}");
                std::process::exit(2)
            });
            let id = v["property"].as_str().unwrap_or("").to_string();
            let check = props::by_id(&id).unwrap_or_else(|| {
                eprintln!("HARNESS-ERROR: unknown property {id}");
                std::process::exit(2)
            });
            std::process::exit(runner::replay(check.as_ref(), &file));
        }
        _ => usage(),
    }
}
