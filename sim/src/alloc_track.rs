//! Allocator seam: a counting global allocator. Records, per thread, the
//! largest single allocation requested while tracking is on.
use std::{
    alloc::{GlobalAlloc, Layout, System},
    cell::Cell,
};

pub struct Counting;

thread_local! {
    static MAX: Cell<usize> = const { Cell::new(0) };
    static ON: Cell<bool> = const { Cell::new(false) };
}

unsafe impl GlobalAlloc for Counting {
    unsafe fn alloc(&self, l: Layout) -> *mut u8 {
        note(l.size());
        System.alloc(l)
    }
    unsafe fn dealloc(&self, p: *mut u8, l: Layout) {
        System.dealloc(p, l)
    }
    unsafe fn alloc_zeroed(&self, l: Layout) -> *mut u8 {
        note(l.size());
        System.alloc_zeroed(l)
    }
    unsafe fn realloc(&self, p: *mut u8, l: Layout, new: usize) -> *mut u8 {
        note(new);
        System.realloc(p, l, new)
    }
}

#[inline]
fn note(size: usize) {
    // try_with: the allocator may run during thread teardown
    let _ = ON.try_with(|on| {
        if on.get() {
            let _ = MAX.try_with(|m| {
                if size > m.get() {
                    m.set(size)
                }
            });
        }
    });
}

pub fn start() {
    MAX.with(|m| m.set(0));
    ON.with(|o| o.set(true));
}
/// stops tracking, returns the largest single allocation since `start`
pub fn stop() -> usize {
    ON.with(|o| o.set(false));
    MAX.with(|m| m.get())
}
