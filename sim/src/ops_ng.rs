//! "ng." family: operations of `NativeGadget` that `ZkStdLib` does not expose
//! in their full generality - typed assignment of bits and bytes (single and
//! batched, for every number of pow2range columns) and the comparison
//! instructions on bounded values with *different* bounds per operand, in
//! their variable and fixed forms. The circuit is built directly from the
//! public chip constructors, the way `ZkStdLib::configure` does.
use ff::Field;
use midnight_circuits::instructions::ControlFlowInstructions;
use midnight_circuits::{
    field::{
        decomposition::{chip::P2RDecompositionChip, pow2range::Pow2RangeChip},
        native::{NB_ARITH_COLS, NB_ARITH_FIXED_COLS},
        AssignedNative, NativeChip, NativeConfig, NativeGadget,
    },
    instructions::{AssignmentInstructions, ComparisonInstructions, ConversionInstructions, DivisionInstructions, PublicInputInstructions, RangeCheckInstructions},
    types::{AssignedBit, AssignedByte},
    ComposableChip,
};
use midnight_curves::Fq;
use midnight_proofs::{
    circuit::{Layouter, SimpleFloorPlanner, Value},
    plonk::{Circuit, ConstraintSystem, Error},
};
use num_bigint::BigUint;
use num_traits::One;

use crate::{
    core::prng::Prng,
    ops::OpCase,
    util::{big_to_fq, fq_to_big, uniform_fq, Fe},
};

type F = Fq;
type NG = NativeGadget<F, P2RDecompositionChip<F>, NativeChip<F>>;

pub const NG_OPS: &[&str] = &[
    "ng.assign_bit",
    "ng.assign_byte",
    "ng.assign_many_bits",
    "ng.assign_many_bytes",
    "ng.lower_than",
    "ng.leq",
    "ng.geq",
    "ng.greater_than",
    "ng.lower_than_fixed",
    "ng.leq_fixed",
    "ng.geq_fixed",
    "ng.greater_than_fixed",
    // two steps on one cell: a bound is asserted first (the gadget caches it), then the cell is
    // converted / bounded again (which may take a shortcut from the cached bound)
    "ng.bound_then_byte",
    "ng.bound_then_bit",
    "ng.bound_then_bound",
    "ng.select_then_bound",
    "ng.select_then_byte",
    "ng.rem_then_byte",
];

pub fn ng_ops() -> Vec<String> {
    NG_OPS.iter().map(|s| s.to_string()).collect()
}

fn pow2(n: u64) -> BigUint {
    BigUint::one() << n
}

fn bounded_class(rng: &mut Prng, n: u64) -> BigUint {
    let top = pow2(n);
    match rng.below(9) {
        0 => BigUint::from(0u32),
        1 => BigUint::one(),
        2 => &top - 1u32,
        3 => top.clone(),         // just outside
        4 => fq_to_big(&uniform_fq(rng)), // far outside
        5 => &top >> 1,
        _ => BigUint::from_bytes_le(&rng.bytes(40)) % &top,
    }
}

pub fn gen_case(rng: &mut Prng, op: &str) -> OpCase {
    let name = &op[3..];
    let cols = rng.range(1, 4) as u8;
    let mbl = *rng.pick(&[8u8, 8, 9, 10, 12]);
    let mut p: Vec<u64> = vec![];
    let mut big: Vec<String> = vec![];
    let mut ins: Vec<Fq> = vec![];
    match name {
        "assign_bit" => ins = vec![Fq::from(rng.below(2))],
        "assign_byte" => {
            let r = rng.below(256);
            ins = vec![Fq::from(*rng.pick(&[0u64, 1, 127, 128, 255, r]))]
        }
        "assign_many_bits" => {
            let n = rng.range(1, 13);
            p.push(n);
            ins = (0..n).map(|_| Fq::from(rng.below(2))).collect();
        }
        "assign_many_bytes" => {
            let n = rng.range(1, 13);
            p.push(n);
            ins = (0..n)
                .map(|_| {
                    let r = rng.below(256);
                    Fq::from(*rng.pick(&[0u64, 255, r]))
                })
                .collect();
        }
        "lower_than" | "leq" | "geq" | "greater_than" => {
            let bounds = [1u64, 4, 8, 9, 16, 32, 64, 128, 200, 253];
            let n1 = *rng.pick(&bounds);
            let n2 = if rng.chance(1, 3) { n1 } else { *rng.pick(&bounds) };
            p = vec![n1, n2];
            let x = bounded_class(rng, n1);
            let y = match rng.below(5) {
                0 => x.clone(),
                1 => &x + 1u32,
                2 if x.bits() > 0 => &x - 1u32,
                _ => bounded_class(rng, n2),
            };
            ins = vec![big_to_fq(&x), big_to_fq(&y)];
        }
        "lower_than_fixed" | "leq_fixed" | "geq_fixed" | "greater_than_fixed" => {
            let n = *rng.pick(&[1u64, 4, 8, 9, 16, 64, 128, 200, 253]);
            p = vec![n];
            let x = bounded_class(rng, n);
            // the fixed bound: around x, around 2^n, anywhere below 2^252
            let b = match rng.below(7) {
                0 => x.clone(),
                1 => &x + 1u32,
                2 => pow2(n),
                3 => pow2(n) - 1u32,
                4 => BigUint::from(0u32),
                5 => BigUint::from_bytes_le(&rng.bytes(40)) % pow2(252),
                _ => BigUint::from_bytes_le(&rng.bytes(40)) % pow2(n),
            } % pow2(252);
            big.push(b.to_str_radix(16));
            ins = vec![big_to_fq(&x)];
        }
        "bound_then_byte" | "bound_then_bit" | "bound_then_bound" => {
            // strict bounds that are and are not powers of two, around the target's range
            let b = match name {
                "bound_then_byte" => *rng.pick(&[1u64, 2, 100, 255, 256, 257, 300, 400, 511, 512, 513, 1000, 65536]),
                "bound_then_bit" => *rng.pick(&[1u64, 2, 3, 4, 5, 256]),
                _ => *rng.pick(&[3u64, 100, 256, 300, 1 << 20, (1 << 20) + 7]),
            };
            big.push(format!("{b:x}"));
            if name == "bound_then_bound" {
                let b2 = *rng.pick(&[2u64, 99, 100, 255, 256, 299, 300, 1 << 20]);
                big.push(format!("{b2:x}"));
            }
            let x = match rng.below(6) {
                0 => 0,
                1 => b.saturating_sub(1),
                2 => b,
                3 => 255.min(b.saturating_sub(1)),
                4 => 256,
                _ => rng.below(b.max(1) + 2),
            };
            ins = vec![Fq::from(x)];
        }
        "select_then_bound" | "select_then_byte" => {
            // two cells with bounds of their own, a select between them, then a bound (or a
            // byte conversion) of the result: bounds are cached per cell
            let b1 = *rng.pick(&[2u64, 100, 256, 300, 512, 1 << 20]);
            let b2 = *rng.pick(&[2u64, 100, 256, 300, 512, 1 << 20]);
            let b3 = *rng.pick(&[2u64, 100, 255, 256, 300, 512]);
            big.push(format!("{b1:x}"));
            big.push(format!("{b2:x}"));
            big.push(format!("{b3:x}"));
            let val = |rng: &mut Prng, b: u64| match rng.below(4) {
                0 => b - 1,
                1 => 0,
                _ => rng.below(b),
            };
            let (x, y) = (val(rng, b1), val(rng, b2));
            ins = vec![Fq::from(rng.below(2)), Fq::from(x), Fq::from(y)];
        }
        "rem_then_byte" => {
            let d = *rng.pick(&[2u64, 7, 255, 256, 257, 300, 511, 1000]);
            big.push(format!("{d:x}"));
            let q = rng.below(1 << 20);
            let r = match rng.below(4) {
                0 => d - 1,
                1 => 255.min(d - 1),
                2 => 256.min(d - 1),
                _ => rng.below(d),
            };
            ins = vec![Fq::from(q * d + r)];
        }
        o => panic!("unknown ng op {o}"),
    }
    OpCase { op: op.to_string(), p, big, ins: ins.into_iter().map(Fe).collect(), bins: vec![], cols, mbl }
}

// ------------------------------------------------------------------ circuit

#[derive(Clone)]
pub struct NgCircuit {
    pub case: OpCase,
    pub known: bool,
}

#[derive(Clone, Debug)]
pub struct NgConfig {
    native: NativeConfig,
    core: <P2RDecompositionChip<F> as midnight_proofs::circuit::Chip<F>>::Config,
}

#[derive(Clone, Default)]
pub struct NgParams {
    pub cols: u8,
}

impl Circuit<F> for NgCircuit {
    type Config = NgConfig;
    type FloorPlanner = SimpleFloorPlanner;
    type Params = NgParams;

    fn without_witnesses(&self) -> Self {
        NgCircuit { case: self.case.clone(), known: false }
    }
    fn params(&self) -> NgParams {
        NgParams { cols: self.case.cols }
    }
    fn configure_with_params(meta: &mut ConstraintSystem<F>, params: NgParams) -> NgConfig {
        let advice: [_; NB_ARITH_COLS] = core::array::from_fn(|_| meta.advice_column());
        let fixed: [_; NB_ARITH_FIXED_COLS] = core::array::from_fn(|_| meta.fixed_column());
        let committed = meta.instance_column();
        let plain = meta.instance_column();
        let native = NativeChip::configure(meta, &(advice, fixed, [committed, plain]));
        let p2r = Pow2RangeChip::configure(meta, &advice[1..=params.cols.clamp(1, 4) as usize]);
        let core = P2RDecompositionChip::configure(meta, &(native.clone(), p2r));
        NgConfig { native, core }
    }
    fn configure(_meta: &mut ConstraintSystem<F>) -> NgConfig {
        unreachable!("configured with parameters")
    }
    fn synthesize(&self, config: NgConfig, mut layouter: impl Layouter<F>) -> Result<(), Error> {
        let native_chip = NativeChip::new(&config.native, &());
        let core = P2RDecompositionChip::new(&config.core, &(self.case.mbl as usize));
        let ng: NG = NativeGadget::new(core.clone(), native_chip);
        let w: Vec<Value<F>> = self.case.ins.iter().map(|x| if self.known { Value::known(x.0) } else { Value::unknown() }).collect();
        for out in body(&self.case, &ng, &mut layouter, &w)? {
            ng.constrain_as_public_input(&mut layouter, &out)?;
        }
        core.load(&mut layouter)
    }
}

fn to_bool(v: &Value<F>) -> Value<bool> {
    v.map(|x| x == F::ONE)
}
fn to_u8(v: &Value<F>) -> Value<u8> {
    v.map(|x| x.to_bytes_le()[0])
}

/// Synthesises the operation; returns the values to publish (inputs first).
fn body<L: Layouter<F>>(c: &OpCase, ng: &NG, l: &mut L, w: &[Value<F>]) -> Result<Vec<AssignedNative<F>>, Error> {
    let name = &c.op[3..];
    let bit_n = |b: &AssignedBit<F>| -> AssignedNative<F> { b.clone().into() };
    let byte_n = |b: &AssignedByte<F>| -> AssignedNative<F> { b.into() };
    Ok(match name {
        "assign_bit" => {
            let b: AssignedBit<F> = ng.assign(l, to_bool(&w[0]))?;
            vec![bit_n(&b)]
        }
        "assign_byte" => {
            let b: AssignedByte<F> = ng.assign(l, to_u8(&w[0]))?;
            vec![byte_n(&b)]
        }
        "assign_many_bits" => {
            let v: Vec<Value<bool>> = w.iter().map(to_bool).collect();
            let bs: Vec<AssignedBit<F>> = ng.assign_many(l, &v)?;
            bs.iter().map(bit_n).collect()
        }
        "assign_many_bytes" => {
            let v: Vec<Value<u8>> = w.iter().map(to_u8).collect();
            let bs: Vec<AssignedByte<F>> = ng.assign_many(l, &v)?;
            bs.iter().map(byte_n).collect()
        }
        "lower_than" | "leq" | "geq" | "greater_than" => {
            let x: AssignedNative<F> = ng.assign(l, w[0])?;
            let y: AssignedNative<F> = ng.assign(l, w[1])?;
            let bx = ng.bounded_of_element(l, c.p[0] as usize, &x)?;
            let by = ng.bounded_of_element(l, c.p[1] as usize, &y)?;
            let r = match name {
                "lower_than" => ng.lower_than(l, &bx, &by)?,
                "leq" => ng.leq(l, &bx, &by)?,
                "geq" => ng.geq(l, &bx, &by)?,
                _ => ng.greater_than(l, &bx, &by)?,
            };
            vec![x, y, bit_n(&r)]
        }
        "lower_than_fixed" | "leq_fixed" | "geq_fixed" | "greater_than_fixed" => {
            let x: AssignedNative<F> = ng.assign(l, w[0])?;
            let bx = ng.bounded_of_element(l, c.p[0] as usize, &x)?;
            let b = big_to_fq(&c.bigp(0));
            let r = match name {
                "lower_than_fixed" => ng.lower_than_fixed(l, &bx, b)?,
                "leq_fixed" => ng.leq_fixed(l, &bx, b)?,
                "geq_fixed" => ng.geq_fixed(l, &bx, b)?,
                _ => ng.greater_than_fixed(l, &bx, b)?,
            };
            vec![x, bit_n(&r)]
        }
        "bound_then_byte" | "bound_then_bit" | "bound_then_bound" => {
            let x: AssignedNative<F> = ng.assign(l, w[0])?;
            ng.assert_lower_than_fixed(l, &x, &c.bigp(0))?;
            match name {
                "bound_then_byte" => {
                    let b: AssignedByte<F> = ng.convert(l, &x)?;
                    vec![x, byte_n(&b)]
                }
                "bound_then_bit" => {
                    let b: AssignedBit<F> = ng.convert(l, &x)?;
                    vec![x, bit_n(&b)]
                }
                _ => {
                    ng.assert_lower_than_fixed(l, &x, &c.bigp(1))?;
                    vec![x]
                }
            }
        }
        "select_then_bound" | "select_then_byte" => {
            let cnd: AssignedBit<F> = ng.assign(l, w[0].map(|v| v != Fq::ZERO))?;
            let x: AssignedNative<F> = ng.assign(l, w[1])?;
            let y: AssignedNative<F> = ng.assign(l, w[2])?;
            ng.assert_lower_than_fixed(l, &x, &c.bigp(0))?;
            ng.assert_lower_than_fixed(l, &y, &c.bigp(1))?;
            let z = ng.select(l, &cnd, &x, &y)?;
            if name == "select_then_bound" {
                ng.assert_lower_than_fixed(l, &z, &c.bigp(2))?;
                vec![bit_n(&cnd), x, y, z]
            } else {
                let b: AssignedByte<F> = ng.convert(l, &z)?;
                vec![bit_n(&cnd), x, y, z, byte_n(&b)]
            }
        }
        "rem_then_byte" => {
            let y: AssignedNative<F> = ng.assign(l, w[0])?;
            let r = ng.rem(l, &y, c.bigp(0), Some(BigUint::from(u64::MAX)))?;
            let b: AssignedByte<F> = ng.convert(l, &r)?;
            vec![y, r, byte_n(&b)]
        }
        o => panic!("unknown ng op {o}"),
    })
}

// ------------------------------------------------------------------ reference semantics

/// Ok(true): the published values satisfy the operation's definition;
/// Ok(false): a published value is outside the operation's domain (the
/// circuit should have been unsatisfiable); Err: wrong result.
pub fn check(c: &OpCase, publics: &[Fq]) -> Result<bool, String> {
    let name = &c.op[3..];
    let v: Vec<BigUint> = publics.iter().map(fq_to_big).collect();
    let bit = |b: bool| if b { BigUint::one() } else { BigUint::from(0u32) };
    match name {
        "assign_bit" | "assign_many_bits" => {
            let n = if name == "assign_bit" { 1 } else { c.p[0] as usize };
            if v.len() != n {
                return Err(format!("{} values published, {n} expected", v.len()));
            }
            Ok(v.iter().all(|x| x.bits() <= 1))
        }
        "assign_byte" | "assign_many_bytes" => {
            let n = if name == "assign_byte" { 1 } else { c.p[0] as usize };
            if v.len() != n {
                return Err(format!("{} values published, {n} expected", v.len()));
            }
            Ok(v.iter().all(|x| x.bits() <= 8))
        }
        "lower_than" | "leq" | "geq" | "greater_than" => {
            if v.len() != 3 {
                return Err(format!("{} values published, 3 expected", v.len()));
            }
            if v[0] >= pow2(c.p[0]) || v[1] >= pow2(c.p[1]) {
                return Ok(false);
            }
            let e = match name {
                "lower_than" => v[0] < v[1],
                "leq" => v[0] <= v[1],
                "geq" => v[0] >= v[1],
                _ => v[0] > v[1],
            };
            if v[2] == bit(e) {
                Ok(true)
            } else {
                Err(format!("{name}({}, {}) published as {}", v[0], v[1], v[2]))
            }
        }
        "lower_than_fixed" | "leq_fixed" | "geq_fixed" | "greater_than_fixed" => {
            if v.len() != 2 {
                return Err(format!("{} values published, 2 expected", v.len()));
            }
            if v[0] >= pow2(c.p[0]) {
                return Ok(false);
            }
            let b = c.bigp(0);
            let e = match name {
                "lower_than_fixed" => v[0] < b,
                "leq_fixed" => v[0] <= b,
                "geq_fixed" => v[0] >= b,
                _ => v[0] > b,
            };
            if v[1] == bit(e) {
                Ok(true)
            } else {
                Err(format!("{name}({}, {b}) published as {}", v[0], v[1]))
            }
        }
        "bound_then_byte" | "bound_then_bit" => {
            let lim = if name == "bound_then_byte" { 256u32 } else { 2 };
            if v.len() != 2 {
                return Err(format!("{} values published, 2 expected", v.len()));
            }
            if v[0] >= c.bigp(0) || v[0] >= BigUint::from(lim) {
                return Ok(false);
            }
            if v[1] == v[0] {
                Ok(true)
            } else {
                Err(format!("conversion of {} published as {}", v[0], v[1]))
            }
        }
        "select_then_bound" | "select_then_byte" => {
            let want = if name == "select_then_bound" { 4 } else { 5 };
            if v.len() != want {
                return Err(format!("{} values published, {want} expected", v.len()));
            }
            let one = BigUint::from(1u32);
            if v[0] > one || v[1] >= c.bigp(0) || v[2] >= c.bigp(1) {
                return Ok(false);
            }
            let z = if v[0] == one { v[1].clone() } else { v[2].clone() };
            if v[3] != z {
                return Err(format!("select({}, {}, {}) published as {}", v[0], v[1], v[2], v[3]));
            }
            let lim = if name == "select_then_bound" { c.bigp(2) } else { BigUint::from(256u32) };
            if z >= lim {
                return Ok(false);
            }
            if name == "select_then_byte" && v[4] != z {
                return Err(format!("conversion of {z} published as {}", v[4]));
            }
            Ok(true)
        }
        "bound_then_bound" => Ok(v.len() == 1 && v[0] < c.bigp(0) && v[0] < c.bigp(1)),
        "rem_then_byte" => {
            if v.len() != 3 {
                return Err(format!("{} values published, 3 expected", v.len()));
            }
            if v[0] > BigUint::from(u64::MAX) {
                return Ok(true); // outside the promised dividend bound: unspecified
            }
            let r = &v[0] % c.bigp(0);
            if v[1] != r {
                return Err(format!("{} mod {} published as {}", v[0], c.bigp(0), v[1]));
            }
            if r >= BigUint::from(256u32) {
                return Ok(false);
            }
            if v[2] == r {
                Ok(true)
            } else {
                Err(format!("conversion of {r} published as {}", v[2]))
            }
        }
        o => panic!("unknown ng op {o}"),
    }
}

pub fn expected_admissible(c: &OpCase) -> bool {
    let name = &c.op[3..];
    let x: Vec<BigUint> = c.ins.iter().map(|f| fq_to_big(&f.0)).collect();
    match name {
        "lower_than" | "leq" | "geq" | "greater_than" => x[0] < pow2(c.p[0]) && x[1] < pow2(c.p[1]),
        "lower_than_fixed" | "leq_fixed" | "geq_fixed" | "greater_than_fixed" => x[0] < pow2(c.p[0]),
        "bound_then_byte" => x[0] < c.bigp(0) && x[0] < BigUint::from(256u32),
        "bound_then_bit" => x[0] < c.bigp(0) && x[0] < BigUint::from(2u32),
        "bound_then_bound" => x[0] < c.bigp(0) && x[0] < c.bigp(1),
        "rem_then_byte" => &x[0] % c.bigp(0) < BigUint::from(256u32),
        "select_then_bound" | "select_then_byte" => {
            let z = if x[0] == BigUint::from(1u32) { &x[1] } else { &x[2] };
            let lim = if name == "select_then_bound" { c.bigp(2) } else { BigUint::from(256u32) };
            x[1] < c.bigp(0) && x[2] < c.bigp(1) && *z < lim
        }
        _ => true,
    }
}
