//! Regular expressions for C19: a scenario-level AST, its translation to the
//! library's combinators, and an independent reference semantics by
//! Brzozowski derivatives over marked letters (byte, marker), with
//! intersection unifying markers the way the library documents (equal markers,
//! or one of them 0) and complement defined on unmarked expressions.
use std::{
    collections::{BTreeMap, BTreeSet, HashMap, VecDeque},
    rc::Rc,
};

use midnight_circuits::parsing::regex::{Regex, RegexInstructions};
use serde::{Deserialize, Serialize};

use crate::core::prng::Prng;

#[derive(Clone, Debug, Serialize, Deserialize, PartialEq, Default)]
pub enum Rx {
    #[default]
    Eps,
    Bytes(Vec<u8>),
    NotBytes(Vec<u8>),
    AnyByte,
    Any,
    Word(String),
    Cat(Vec<Rx>),
    Union(Vec<Rx>),
    Inter(Vec<Rx>),
    Plus(Box<Rx>),
    Star(Box<Rx>),
    Opt(Box<Rx>),
    Neg(Box<Rx>),
    Minus(Box<Rx>, Box<Rx>),
    Repeat(Box<Rx>, usize),
    AtMost(Box<Rx>, usize),
    SepList(Box<Rx>, Box<Rx>),
    SepNonEmpty(Box<Rx>, Box<Rx>),
    /// mark_bytes(bytes, marker) applied to the sub-expression
    MarkBytes(Box<Rx>, Vec<u8>, usize),
    /// replace_markers: marker `from` becomes `to`
    Replace(Box<Rx>, usize, usize),
}

impl Rx {
    pub fn size(&self) -> usize {
        use Rx::*;
        1 + match self {
            Cat(v) | Union(v) | Inter(v) => v.iter().map(|x| x.size()).sum(),
            Plus(a) | Star(a) | Opt(a) | Neg(a) | MarkBytes(a, _, _) | Replace(a, _, _) => a.size(),
            Repeat(a, n) | AtMost(a, n) => a.size() * (*n).max(1),
            Minus(a, b) | SepList(a, b) | SepNonEmpty(a, b) => a.size() + b.size(),
            _ => 0,
        }
    }
    /// contains complement / universal sub-expressions (markers must not be applied over them)
    fn has_neg(&self) -> bool {
        use Rx::*;
        match self {
            Neg(_) | Minus(_, _) | Any => true,
            Inter(v) if v.is_empty() => true,
            Cat(v) | Union(v) | Inter(v) => v.iter().any(|x| x.has_neg()),
            Plus(a) | Star(a) | Opt(a) | MarkBytes(a, _, _) | Replace(a, _, _) | Repeat(a, _) | AtMost(a, _) => a.has_neg(),
            SepList(a, b) | SepNonEmpty(a, b) => a.has_neg() || b.has_neg(),
            _ => false,
        }
    }
    fn has_marks(&self) -> bool {
        use Rx::*;
        match self {
            MarkBytes(_, _, m) => *m != 0 || true,
            Replace(a, _, _) => a.has_marks(),
            Cat(v) | Union(v) | Inter(v) => v.iter().any(|x| x.has_marks()),
            Plus(a) | Star(a) | Opt(a) | Neg(a) | Repeat(a, _) | AtMost(a, _) => a.has_marks(),
            Minus(a, b) | SepList(a, b) | SepNonEmpty(a, b) => a.has_marks() || b.has_marks(),
            _ => false,
        }
    }

    /// The library expression built with the public combinators.
    pub fn to_lib(&self) -> Regex {
        use Rx::*;
        match self {
            Eps => Regex::epsilon(),
            Bytes(l) => Regex::byte_from(l.iter().copied()),
            NotBytes(l) => Regex::byte_not_from(l.iter().copied()),
            AnyByte => Regex::any_byte(),
            Any => Regex::any(),
            Word(w) => Regex::word(w),
            Cat(v) => Regex::cat(v.iter().map(|x| x.to_lib())),
            Union(v) => Regex::union(v.iter().map(|x| x.to_lib())),
            Inter(v) => Regex::inter(v.iter().map(|x| x.to_lib())),
            Plus(a) => a.to_lib().non_empty_list(),
            Star(a) => a.to_lib().list(),
            Opt(a) => a.to_lib().optional(),
            Neg(a) => a.to_lib().neg(),
            Minus(a, b) => a.to_lib().minus(b.to_lib()),
            Repeat(a, n) => a.to_lib().repeat(*n),
            AtMost(a, n) => a.to_lib().repeat_at_most(*n),
            SepList(a, s) => a.to_lib().separated_list(s.to_lib()),
            SepNonEmpty(a, s) => a.to_lib().separated_non_empty_list(s.to_lib()),
            MarkBytes(a, bytes, m) => a.to_lib().mark_bytes(bytes.iter().copied(), *m),
            Replace(a, from, to) => {
                let (f, t) = (*from, *to);
                a.to_lib().replace_markers(&move |m| if m == f { Some(t) } else { None })
            }
        }
    }

    /// The reference term.
    pub fn to_ref(&self) -> Rc<T> {
        use Rx::*;
        let set = |it: &mut dyn Iterator<Item = u8>| T::set(it.map(|b| (b, 0usize)).collect());
        match self {
            Eps => T::eps(),
            Bytes(l) => set(&mut l.iter().copied()),
            NotBytes(l) => set(&mut (0..=255u8).filter(|b| !l.contains(b))),
            AnyByte => set(&mut (0..=255u8)),
            Any => T::star(set(&mut (0..=255u8))),
            Word(w) => w.bytes().fold(T::eps(), |acc, b| T::cat(acc, T::set(vec![(b, 0)]))),
            Cat(v) => v.iter().fold(T::eps(), |acc, x| T::cat(acc, x.to_ref())),
            Union(v) => T::union(v.iter().map(|x| x.to_ref()).collect()),
            Inter(v) => {
                if v.is_empty() {
                    return Any.to_ref();
                }
                let mut it = v.iter().map(|x| x.to_ref());
                let first = it.next().unwrap();
                it.fold(first, T::inter)
            }
            Plus(a) => {
                let r = a.to_ref();
                T::cat(r.clone(), T::star(r))
            }
            Star(a) => T::star(a.to_ref()),
            Opt(a) => T::union(vec![a.to_ref(), T::eps()]),
            Neg(a) => T::neg(a.to_ref()),
            Minus(a, b) => T::inter(a.to_ref(), T::neg(b.to_ref())),
            Repeat(a, n) => {
                let r = a.to_ref();
                (0..*n).fold(T::eps(), |acc, _| T::cat(acc, r.clone()))
            }
            AtMost(a, n) => {
                let r = a.to_ref();
                let mut alts = vec![];
                let mut cur = T::eps();
                for _ in 0..=*n {
                    alts.push(cur.clone());
                    cur = T::cat(cur, r.clone());
                }
                T::union(alts)
            }
            SepNonEmpty(a, s) => {
                let (r, s) = (a.to_ref(), s.to_ref());
                T::cat(r.clone(), T::star(T::cat(s, r)))
            }
            SepList(a, s) => {
                let (r, s) = (a.to_ref(), s.to_ref());
                T::union(vec![T::eps(), T::cat(r.clone(), T::star(T::cat(s, r)))])
            }
            MarkBytes(a, bytes, m) => a.to_ref().map_letters(&|(b, mk)| if bytes.contains(&b) { (b, *m) } else { (b, mk) }),
            Replace(a, from, to) => a.to_ref().map_letters(&|(b, mk)| if mk == *from { (b, *to) } else { (b, mk) }),
        }
    }
}

// ------------------------------------------------------------------ reference terms

#[derive(Clone, PartialEq, Eq, PartialOrd, Ord, Hash, Debug)]
pub enum T {
    Empty,
    Eps,
    /// a set of marked letters, sorted
    Set(Vec<(u8, usize)>),
    Cat(Rc<T>, Rc<T>),
    Union(Vec<Rc<T>>),
    Inter(Rc<T>, Rc<T>),
    Star(Rc<T>),
    Neg(Rc<T>),
}

impl T {
    pub fn empty() -> Rc<T> {
        Rc::new(T::Empty)
    }
    pub fn eps() -> Rc<T> {
        Rc::new(T::Eps)
    }
    pub fn set(mut v: Vec<(u8, usize)>) -> Rc<T> {
        v.sort();
        v.dedup();
        if v.is_empty() {
            T::empty()
        } else {
            Rc::new(T::Set(v))
        }
    }
    pub fn cat(a: Rc<T>, b: Rc<T>) -> Rc<T> {
        match (&*a, &*b) {
            (T::Empty, _) | (_, T::Empty) => T::empty(),
            (T::Eps, _) => b,
            (_, T::Eps) => a,
            _ => Rc::new(T::Cat(a, b)),
        }
    }
    pub fn union(v: Vec<Rc<T>>) -> Rc<T> {
        let mut flat: Vec<Rc<T>> = vec![];
        for x in v {
            match &*x {
                T::Empty => {}
                T::Union(inner) => flat.extend(inner.iter().cloned()),
                _ => flat.push(x),
            }
        }
        flat.sort();
        flat.dedup();
        match flat.len() {
            0 => T::empty(),
            1 => flat.pop().unwrap(),
            _ => Rc::new(T::Union(flat)),
        }
    }
    pub fn inter(a: Rc<T>, b: Rc<T>) -> Rc<T> {
        match (&*a, &*b) {
            (T::Empty, _) | (_, T::Empty) => T::empty(),
            _ if a == b => a,
            _ => {
                if a <= b {
                    Rc::new(T::Inter(a, b))
                } else {
                    Rc::new(T::Inter(b, a))
                }
            }
        }
    }
    pub fn star(a: Rc<T>) -> Rc<T> {
        match &*a {
            T::Empty | T::Eps => T::eps(),
            T::Star(_) => a,
            _ => Rc::new(T::Star(a)),
        }
    }
    pub fn neg(a: Rc<T>) -> Rc<T> {
        match &*a {
            T::Neg(x) => x.clone(),
            _ => Rc::new(T::Neg(a)),
        }
    }
    fn map_letters(&self, f: &dyn Fn((u8, usize)) -> (u8, usize)) -> Rc<T> {
        match self {
            T::Empty => T::empty(),
            T::Eps => T::eps(),
            T::Set(v) => T::set(v.iter().map(|l| f(*l)).collect()),
            T::Cat(a, b) => T::cat(a.map_letters(f), b.map_letters(f)),
            T::Union(v) => T::union(v.iter().map(|x| x.map_letters(f)).collect()),
            T::Inter(a, b) => T::inter(a.map_letters(f), b.map_letters(f)),
            T::Star(a) => T::star(a.map_letters(f)),
            T::Neg(a) => T::neg(a.map_letters(f)),
        }
    }
    pub fn nullable(&self) -> bool {
        match self {
            T::Empty | T::Set(_) => false,
            T::Eps | T::Star(_) => true,
            T::Cat(a, b) | T::Inter(a, b) => a.nullable() && b.nullable(),
            T::Union(v) => v.iter().any(|x| x.nullable()),
            T::Neg(a) => !a.nullable(),
        }
    }
    fn collect_sets<'a>(&'a self, out: &mut Vec<&'a Vec<(u8, usize)>>) {
        match self {
            T::Set(v) => out.push(v),
            T::Cat(a, b) | T::Inter(a, b) => {
                a.collect_sets(out);
                b.collect_sets(out)
            }
            T::Union(v) => v.iter().for_each(|x| x.collect_sets(out)),
            T::Star(a) | T::Neg(a) => a.collect_sets(out),
            _ => {}
        }
    }
}

/// Derivatives with memoisation.
pub struct Deriv {
    memo: HashMap<(Rc<T>, u8, usize), Rc<T>>,
}

impl Deriv {
    pub fn new() -> Self {
        Deriv { memo: HashMap::new() }
    }
    /// the words w such that (b, m) w is in the language of t
    pub fn d(&mut self, t: &Rc<T>, b: u8, m: usize) -> Rc<T> {
        if let Some(r) = self.memo.get(&(t.clone(), b, m)) {
            return r.clone();
        }
        let r = match &**t {
            T::Empty | T::Eps => T::empty(),
            T::Set(v) => {
                if v.binary_search(&(b, m)).is_ok() {
                    T::eps()
                } else {
                    T::empty()
                }
            }
            T::Cat(x, y) => {
                let left = T::cat(self.d(x, b, m), y.clone());
                if x.nullable() {
                    let right = self.d(y, b, m);
                    T::union(vec![left, right])
                } else {
                    left
                }
            }
            T::Union(v) => {
                let parts = v.iter().map(|x| self.d(x, b, m)).collect();
                T::union(parts)
            }
            T::Inter(x, y) => {
                // marker unification: equal markers, or one of the two is 0
                let pairs: Vec<(usize, usize)> = if m == 0 { vec![(0, 0)] } else { vec![(m, m), (m, 0), (0, m)] };
                let parts = pairs
                    .into_iter()
                    .map(|(m1, m2)| {
                        let dx = self.d(x, b, m1);
                        let dy = self.d(y, b, m2);
                        T::inter(dx, dy)
                    })
                    .collect();
                T::union(parts)
            }
            T::Star(x) => T::cat(self.d(x, b, m), t.clone()),
            T::Neg(x) => {
                if m == 0 {
                    T::neg(self.d(x, b, 0))
                } else {
                    T::empty()
                }
            }
        };
        self.memo.insert((t.clone(), b, m), r.clone());
        r
    }
}

/// Markers used by the term (0 included) and one representative per class of
/// bytes that no letter set of the term distinguishes.
pub fn alphabet(t: &T) -> (Vec<usize>, Vec<u8>, Vec<usize>) {
    let mut sets = vec![];
    t.collect_sets(&mut sets);
    let mut markers: BTreeSet<usize> = BTreeSet::from([0]);
    for s in &sets {
        for (_, m) in s.iter() {
            markers.insert(*m);
        }
    }
    // signature of a byte: for every set, the markers it carries there
    let mut sig: BTreeMap<Vec<Vec<usize>>, usize> = BTreeMap::new();
    let mut class_of = vec![0usize; 256];
    let mut reps: Vec<u8> = vec![];
    let mut distinct: Vec<&Vec<(u8, usize)>> = vec![];
    for s in &sets {
        if !distinct.contains(s) {
            distinct.push(s);
        }
    }
    for b in 0..=255u8 {
        let sg: Vec<Vec<usize>> = distinct.iter().map(|s| s.iter().filter(|l| l.0 == b).map(|l| l.1).collect()).collect();
        let n = sig.len();
        let c = *sig.entry(sg).or_insert_with(|| {
            reps.push(b);
            n
        });
        class_of[b as usize] = c;
    }
    (markers.into_iter().collect(), reps, class_of)
}

pub enum Ambiguity {
    Unambiguous,
    /// a byte prefix after which one byte can carry two markers, both leading to words of the language
    Ambiguous(Vec<u8>),
    TooLarge,
}

/// Sequential output-determinism, the requirement of a transducer that emits
/// the marker with each transition: after every marked prefix of the language,
/// every byte has at most one marker that can still be completed to a word.
/// (A word with two markings violates it at the first position where the
/// markings part.)
pub fn ambiguity(t: &Rc<T>, cap: usize) -> Ambiguity {
    let (markers, reps, _) = alphabet(t);
    if markers.len() <= 1 {
        return Ambiguity::Unambiguous;
    }
    let mut d = Deriv::new();
    // the derivative graph
    let mut index: HashMap<Rc<T>, usize> = HashMap::new();
    let mut nodes: Vec<Rc<T>> = vec![t.clone()];
    let mut parent: Vec<(usize, u8)> = vec![(usize::MAX, 0)];
    // succ[node] = (rep byte, marker, target)
    let mut succ: Vec<Vec<(u8, usize, usize)>> = vec![vec![]];
    index.insert(t.clone(), 0);
    let mut i = 0;
    while i < nodes.len() {
        let cur = nodes[i].clone();
        for &byte in &reps {
            for &m in &markers {
                let dt = d.d(&cur, byte, m);
                if *dt == T::Empty {
                    continue;
                }
                let id = match index.get(&dt) {
                    Some(id) => *id,
                    None => {
                        let id = nodes.len();
                        if id > cap {
                            return Ambiguity::TooLarge;
                        }
                        index.insert(dt.clone(), id);
                        nodes.push(dt);
                        parent.push((i, byte));
                        succ.push(vec![]);
                        id
                    }
                };
                succ[i].push((byte, m, id));
            }
        }
        i += 1;
    }
    // productive nodes: a nullable node is reachable
    let mut productive: Vec<bool> = nodes.iter().map(|n| n.nullable()).collect();
    let mut changed = true;
    while changed {
        changed = false;
        for n in 0..nodes.len() {
            if !productive[n] && succ[n].iter().any(|(_, _, t)| productive[*t]) {
                productive[n] = true;
                changed = true;
            }
        }
    }
    // reachable through productive nodes only
    let mut reach = vec![false; nodes.len()];
    let mut q = VecDeque::from([0usize]);
    reach[0] = productive[0];
    while let Some(n) = q.pop_front() {
        if !reach[n] {
            continue;
        }
        for &byte in &reps {
            let ms: BTreeSet<usize> = succ[n].iter().filter(|(b, _, t)| *b == byte && productive[*t]).map(|(_, m, _)| *m).collect();
            if ms.len() > 1 {
                let mut w = vec![byte];
                let mut cur = n;
                while parent[cur].0 != usize::MAX {
                    w.push(parent[cur].1);
                    cur = parent[cur].0;
                }
                w.reverse();
                return Ambiguity::Ambiguous(w);
            }
        }
        for (_, _, t) in &succ[n] {
            if productive[*t] && !reach[*t] {
                reach[*t] = true;
                q.push_back(*t);
            }
        }
    }
    Ambiguity::Unambiguous
}

/// All markings of a byte word in the language of `t`.
pub fn parse(t: &Rc<T>, word: &[u8]) -> Vec<Vec<usize>> {
    let (markers, _, _) = alphabet(t);
    let mut d = Deriv::new();
    let mut cur: Vec<(Rc<T>, Vec<usize>)> = vec![(t.clone(), vec![])];
    for &b in word {
        let mut next: Vec<(Rc<T>, Vec<usize>)> = vec![];
        for (s, ms) in &cur {
            for &m in &markers {
                let ds = d.d(s, b, m);
                if *ds != T::Empty {
                    let mut v = ms.clone();
                    v.push(m);
                    if !next.iter().any(|(x, y)| *x == ds && *y == v) {
                        next.push((ds, v));
                    }
                }
            }
        }
        cur = next;
        if cur.len() > 4096 {
            cur.truncate(4096);
        }
    }
    cur.into_iter().filter(|(s, _)| s.nullable()).map(|(_, m)| m).collect()
}

// ------------------------------------------------------------------ generator

fn byte_set(rng: &mut Prng) -> Vec<u8> {
    match rng.below(6) {
        0 => vec![b'a'],
        1 => vec![b'a', b'b'],
        2 => (b'a'..=b'c').collect(),
        3 => (b'0'..=b'9').collect(),
        4 => vec![b'b', b'c', 0x00, 0xff],
        _ => {
            let n = rng.range(1, 4) as usize;
            (0..n).map(|_| *rng.pick(&[b'a', b'b', b'c', b'd', b'0', b'1', b' ', 0x00, 0x80, 0xff])).collect()
        }
    }
}

pub fn gen_rx(rng: &mut Prng, depth: usize) -> Rx {
    use Rx::*;
    if depth == 0 || rng.chance(1, 6) {
        return match rng.below(9) {
            0 => Eps,
            1 | 2 | 3 => Bytes(byte_set(rng)),
            4 => NotBytes(byte_set(rng)),
            5 => AnyByte,
            6 => Word((*rng.pick(&["ab", "a", "abc", "ba", "aa", "0", "b "])).to_string()),
            7 => Any,
            _ => Bytes(vec![b'a', b'b']),
        };
    }
    // nested iterations over multi-byte words: bodies that come back to their initial state
    // only through a cycle of several bytes, with and without a terminator after the inner loop
    if rng.chance(1, 10) {
        let w = |rng: &mut Prng| Word((*rng.pick(&["ab", "abc", "ba", "aab", "a", "c", "bc", "ca"])).to_string());
        let it = |rng: &mut Prng, x: Rx| match rng.below(5) {
            0 | 1 => Star(Box::new(x)),
            2 => Plus(Box::new(x)),
            3 => Opt(Box::new(x)),
            _ => SepList(Box::new(x), Box::new(Bytes(vec![b','])),),
        };
        let inner = {
            let x = w(rng);
            it(rng, x)
        };
        let t = w(rng);
        let body = match rng.below(4) {
            0 | 1 => Cat(vec![inner, t]),
            2 => Cat(vec![t, inner]),
            _ => Union(vec![inner, t]),
        };
        let outer = it(rng, body);
        return if rng.chance(1, 2) { outer } else { Cat(vec![outer, w(rng)]) };
    }
    let sub = |rng: &mut Prng| Box::new(gen_rx(rng, depth - 1));
    let many = |rng: &mut Prng| -> Vec<Rx> {
        let n = rng.range(2, 3);
        (0..n).map(|_| gen_rx(rng, depth - 1)).collect()
    };
    match rng.below(18) {
        0 | 1 | 2 => Cat(many(rng)),
        3 | 4 => Union(many(rng)),
        5 => Inter(many(rng)),
        6 => Plus(sub(rng)),
        7 => Star(sub(rng)),
        8 => Opt(sub(rng)),
        9 => Neg(Box::new(strip_marks(gen_rx(rng, depth - 1)))),
        10 => Minus(sub(rng), Box::new(strip_marks(gen_rx(rng, depth - 1)))),
        11 => Repeat(sub(rng), rng.range(0, 3) as usize),
        12 => AtMost(sub(rng), rng.range(0, 3) as usize),
        13 => SepList(sub(rng), Box::new(Bytes(vec![*rng.pick(&[b',', b' ', b'a'])]))),
        14 => SepNonEmpty(sub(rng), Box::new(Bytes(vec![*rng.pick(&[b',', b' ', b'b'])]))),
        15 | 16 => {
            // markers only over complement-free expressions
            let inner = gen_rx(rng, depth - 1);
            if inner.has_neg() {
                inner
            } else {
                MarkBytes(Box::new(inner), byte_set(rng), rng.range(0, 3) as usize)
            }
        }
        _ => {
            let inner = gen_rx(rng, depth - 1);
            if inner.has_marks() && !inner.has_neg() {
                Replace(Box::new(inner), rng.range(1, 3) as usize, rng.range(0, 4) as usize)
            } else {
                inner
            }
        }
    }
}

/// Removes marker operations (complement is defined on unmarked expressions).
pub fn strip_marks(r: Rx) -> Rx {
    use Rx::*;
    let b = |x: Box<Rx>| Box::new(strip_marks(*x));
    let v = |x: Vec<Rx>| x.into_iter().map(strip_marks).collect();
    match r {
        MarkBytes(a, _, _) | Replace(a, _, _) => strip_marks(*a),
        Cat(x) => Cat(v(x)),
        Union(x) => Union(v(x)),
        Inter(x) => Inter(v(x)),
        Plus(a) => Plus(b(a)),
        Star(a) => Star(b(a)),
        Opt(a) => Opt(b(a)),
        Neg(a) => Neg(b(a)),
        Minus(x, y) => Minus(b(x), b(y)),
        Repeat(a, n) => Repeat(b(a), n),
        AtMost(a, n) => AtMost(b(a), n),
        SepList(x, y) => SepList(b(x), b(y)),
        SepNonEmpty(x, y) => SepNonEmpty(b(x), b(y)),
        other => other,
    }
}
