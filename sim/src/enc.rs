//! Channel fault values for proof elements: other valid / invalid encodings of
//! BLS12-381 G1 points (48-byte compressed) and scalars (32-byte little endian).
use ff::Field;
use group::{Group, GroupEncoding};
use midnight_curves::{Fq, G1Projective};
use num_bigint::BigUint;
use num_traits::Zero;
use serde::{Deserialize, Serialize};

use crate::{
    bigcurve::{bls12_381_g1, bls12_381_p, bls12_381_r, is_square, sqrt_3mod4},
    core::prng::Prng,
    util::uniform_fq,
};

#[derive(Clone, Debug, Serialize, Deserialize, PartialEq, Eq)]
pub enum G1Fault {
    /// another valid subgroup point (generator multiple drawn from `seed`)
    Other(u64),
    Neg,
    Identity,
    /// x replaced by a value whose x^3+4 is a non-residue
    OffCurve(u64),
    /// compression flag cleared
    NoCompressionFlag,
    /// infinity flag set on a non-zero x
    InfinityWithX,
    /// on the curve, outside the prime-order subgroup
    NonSubgroup(u64),
    /// x + p (non-canonical coordinate), when it fits
    XPlusP,
}
pub const G1_FAULTS: usize = 8;

#[derive(Clone, Debug, Serialize, Deserialize, PartialEq, Eq)]
pub enum ScalarFault {
    PlusOne,
    Zero,
    Other(u64),
    /// value + r (non-canonical), when it fits in 32 bytes
    PlusModulus,
    AllOnes,
}
pub const SCALAR_FAULTS: usize = 5;

pub fn draw_g1_fault(rng: &mut Prng, i: usize) -> G1Fault {
    match i % G1_FAULTS {
        0 => G1Fault::Other(rng.u64()),
        1 => G1Fault::Neg,
        2 => G1Fault::Identity,
        3 => G1Fault::OffCurve(rng.u64()),
        4 => G1Fault::NoCompressionFlag,
        5 => G1Fault::InfinityWithX,
        6 => G1Fault::NonSubgroup(rng.u64()),
        _ => G1Fault::XPlusP,
    }
}
pub fn draw_scalar_fault(rng: &mut Prng, i: usize) -> ScalarFault {
    match i % SCALAR_FAULTS {
        0 => ScalarFault::PlusOne,
        1 => ScalarFault::Zero,
        2 => ScalarFault::Other(rng.u64()),
        3 => ScalarFault::PlusModulus,
        _ => ScalarFault::AllOnes,
    }
}

fn x_of(bytes: &[u8]) -> BigUint {
    let mut b = bytes.to_vec();
    b[0] &= 0x1f;
    BigUint::from_bytes_be(&b)
}
fn with_x(flags: u8, x: &BigUint) -> Vec<u8> {
    let xb = x.to_bytes_be();
    let mut out = vec![0u8; 48 - xb.len()];
    out.extend_from_slice(&xb);
    out[0] |= flags & 0xe0;
    out
}

/// Compressed encoding of an affine point given as big integers.
pub fn compress(x: &BigUint, y: &BigUint) -> Vec<u8> {
    let p = bls12_381_p();
    let neg_y = (&p - y) % &p;
    let sign = if *y > neg_y { 0x20 } else { 0 };
    with_x(0x80 | sign, x)
}

/// A point on the curve that is not in the prime-order subgroup.
pub fn non_subgroup_point(seed: u64) -> (BigUint, BigUint) {
    let p = bls12_381_p();
    let curve = bls12_381_g1();
    let r = bls12_381_r();
    let mut rng = Prng::new(seed, "nonsub");
    loop {
        let x = BigUint::from_bytes_be(&rng.bytes(47)) % &p;
        let rhs = (&x * &x * &x + 4u32) % &p;
        if let Some(y) = sqrt_3mod4(&rhs, &p) {
            let pt = Some((x.clone(), y.clone()));
            if curve.mul(&r, &pt).is_some() {
                return (x, y);
            }
        }
    }
}

/// Applies a fault to a 48-byte compressed G1 encoding. `None`: the fault is
/// not applicable to this value (e.g. negating the identity).
pub fn apply_g1(bytes: &[u8], f: &G1Fault) -> Option<Vec<u8>> {
    assert_eq!(bytes.len(), 48);
    let p = bls12_381_p();
    let is_inf = bytes[0] & 0x40 != 0;
    let out = match f {
        G1Fault::Other(seed) => {
            let s = uniform_fq(&mut Prng::new(*seed, "g1-other"));
            (G1Projective::generator() * s).to_bytes().as_ref().to_vec()
        }
        G1Fault::Neg => {
            if is_inf {
                return None;
            }
            let mut b = bytes.to_vec();
            b[0] ^= 0x20;
            b
        }
        G1Fault::Identity => {
            let mut b = vec![0u8; 48];
            b[0] = 0xc0;
            b
        }
        G1Fault::OffCurve(seed) => {
            let mut rng = Prng::new(*seed, "offcurve");
            loop {
                let x = BigUint::from_bytes_be(&rng.bytes(47)) % &p;
                let rhs = (&x * &x * &x + 4u32) % &p;
                if !is_square(&rhs, &p) {
                    break with_x(0x80 | (bytes[0] & 0x20), &x);
                }
            }
        }
        G1Fault::NoCompressionFlag => {
            let mut b = bytes.to_vec();
            b[0] &= 0x7f;
            b
        }
        G1Fault::InfinityWithX => {
            if is_inf || x_of(bytes).is_zero() {
                return None;
            }
            let mut b = bytes.to_vec();
            b[0] |= 0x40;
            b
        }
        G1Fault::NonSubgroup(seed) => {
            let (x, y) = non_subgroup_point(*seed);
            compress(&x, &y)
        }
        G1Fault::XPlusP => {
            if is_inf {
                return None;
            }
            let x = x_of(bytes) + &p;
            if x.bits() > 381 {
                return None;
            }
            with_x(bytes[0], &x)
        }
    };
    if out == bytes {
        None
    } else {
        Some(out)
    }
}

/// Applies a fault to a 32-byte little-endian scalar encoding.
pub fn apply_scalar(bytes: &[u8], f: &ScalarFault) -> Option<Vec<u8>> {
    assert_eq!(bytes.len(), 32);
    let r = bls12_381_r();
    let v = BigUint::from_bytes_le(bytes);
    let enc = |x: &BigUint| {
        let mut b = x.to_bytes_le();
        b.resize(32, 0);
        b
    };
    let out = match f {
        ScalarFault::PlusOne => enc(&((&v + 1u32) % &r)),
        ScalarFault::Zero => vec![0u8; 32],
        ScalarFault::Other(seed) => {
            uniform_fq(&mut Prng::new(*seed, "scalar-other")).to_bytes_le().to_vec()
        }
        ScalarFault::PlusModulus => {
            let x = &v + &r;
            if x.bits() > 256 {
                return None;
            }
            enc(&x)
        }
        ScalarFault::AllOnes => vec![0xffu8; 32],
    };
    if out == bytes {
        None
    } else {
        Some(out)
    }
}

pub fn fq_is_zero(f: &Fq) -> bool {
    bool::from(f.is_zero())
}
