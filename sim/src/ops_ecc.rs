//! Registry family: elliptic-curve gadgets (C06) - Jubjub (native, twisted
//! Edwards), secp256k1 and BLS12-381 G1 (foreign, short Weierstrass). The
//! reference is the affine group law over big integers (`bigcurve`).
use ff::{Field, PrimeField};
use group::Group;
use midnight_circuits::{
    ecc::{curves::CircuitCurve, foreign::ForeignEccChip, native::EccChip},
    field::{decomposition::chip::P2RDecompositionChip, foreign::params::{FieldEmulationParams, MultiEmulationParams}, NativeChip, NativeGadget},
    instructions::*,
    types::{AssignedBit, AssignedNative, AssignedNativePoint, AssignedScalarOfNativeCurve, InnerValue},
    CircuitField,
};
use midnight_curves::{k256::{self, K256}, Fp as BlsFp, Fq, Fr as JubjubFr, G1Projective, JubjubExtended, JubjubSubgroup};
use midnight_proofs::{
    circuit::{Layouter, Value},
    plonk::Error,
};
use midnight_zk_stdlib::{ZkStdLib, ZkStdLibArch};
use num_bigint::BigUint;
use num_traits::{One, Zero};

use crate::{
    bigcurve::{self, Edwards, Weierstrass},
    core::prng::Prng,
    ops::OpCase,
    ops_ff::{groups, MARKER},
    util::{fq_modulus, fq_to_big, Fe},
};

type F = Fq;
type AN = AssignedNative<F>;
type NG = NativeGadget<F, P2RDecompositionChip<F>, NativeChip<F>>;
type MEP = MultiEmulationParams;
type JJ = JubjubExtended;

pub const JJ_OPS: &[&str] = &[
    "assign", "add", "double", "negate", "msm", "msm_bounded", "mul_by_constant", "from_coordinates", "is_equal", "select",
    "assert_equal", "assert_not_equal", "is_zero", "hash_to_curve",
];
pub const FC_OPS: &[&str] = &["assign", "add", "double", "negate", "from_coordinates", "is_equal", "select", "mul_by_constant", "msm", "msm_bounded", "assert_equal", "assert_not_equal", "is_zero"];

pub fn jj_ops() -> Vec<String> {
    JJ_OPS.iter().map(|o| format!("ec.jj.{o}")).collect()
}
pub fn fc_ops() -> Vec<String> {
    let mut v = vec![];
    for c in ["k256", "bls"] {
        for o in FC_OPS {
            v.push(format!("ec.{c}.{o}"));
        }
    }
    v
}

pub fn arch(c: &OpCase) -> ZkStdLibArch {
    let mut a = ZkStdLibArch { nr_pow2range_cols: c.cols, ..ZkStdLibArch::default() };
    if c.op.starts_with("ec.jj") {
        a.jubjub = true;
        if c.op.ends_with("hash_to_curve") {
            a.poseidon = true;
        }
    } else if c.op.starts_with("ec.k256") {
        a.secp256k1 = true;
    } else {
        a.bls12_381 = true;
    }
    a
}

// ------------------------------------------------------------------ curve models

pub fn jubjub_order() -> BigUint {
    BigUint::parse_bytes(&JubjubFr::MODULUS.as_bytes()[2..], 16).unwrap()
}
pub fn jubjub_model() -> Edwards {
    let p = fq_modulus();
    let a = &p - 1u32;
    // d = -(10240/10241) mod p
    let d = (&p - (BigUint::from(10240u32) * bigcurve::inv(&BigUint::from(10241u32), &p)) % &p) % &p;
    Edwards { p, a, d }
}
pub fn weier(curve: &str) -> (Weierstrass, BigUint) {
    if curve == "k256" {
        (
            Weierstrass { p: <k256::Fp as CircuitField>::modulus(), a: BigUint::zero(), b: BigUint::from(7u32) },
            <k256::Fq as CircuitField>::modulus(),
        )
    } else {
        (bigcurve::bls12_381_g1(), bigcurve::bls12_381_r())
    }
}

fn jj_point(k: &BigUint) -> JubjubSubgroup {
    let mut bytes = (k % jubjub_order()).to_bytes_le();
    bytes.resize(32, 0);
    let s = JubjubFr::from_repr(bytes.try_into().unwrap()).unwrap();
    JubjubSubgroup::generator() * s
}
fn jj_scalar(k: &BigUint) -> JubjubFr {
    let mut bytes = (k % jubjub_order()).to_bytes_le();
    bytes.resize(32, 0);
    JubjubFr::from_repr(bytes.try_into().unwrap()).unwrap()
}

// ------------------------------------------------------------------ generator

fn scalar_class(rng: &mut Prng, order: &BigUint) -> BigUint {
    match rng.below(13) {
        0 => BigUint::zero(),
        1 => BigUint::one(),
        2 => BigUint::from(2u32),
        3 => order - 1u32,
        4 => order - 2u32,
        5 => (order - 1u32) / 2u32,
        // scalars around the 64-bit and 128-bit limb boundaries
        6 => BigUint::one() << 64u32,
        7 => {
            let n = 8 + rng.usize(9);
            BigUint::from_bytes_le(&rng.bytes(n)) % order
        }
        8 => (BigUint::one() << 128u32) - 1u32,
        _ => BigUint::from_bytes_le(&rng.bytes(40)) % order,
    }
}

pub fn gen_case(rng: &mut Prng, op: &str) -> OpCase {
    let cols = rng.range(1, 4) as u8;
    let mbl = rng.range(8, 11) as u8;
    let parts: Vec<&str> = op.split('.').collect();
    let order = if parts[1] == "jj" { jubjub_order() } else { weier(parts[1]).1 };
    let mut p = vec![];
    let mut big = vec![];
    let mut bins: Vec<BigUint> = vec![];
    let mut ins: Vec<Fq> = vec![];
    // points are given by their discrete logarithm (0 = identity)
    let point = |rng: &mut Prng| scalar_class(rng, &order);
    let pair = |rng: &mut Prng| {
        let a = scalar_class(rng, &order);
        let b = match rng.below(5) {
            0 => a.clone(),                      // P = Q
            1 => (&order - &a) % &order,          // P = -Q
            2 => BigUint::zero(),                 // identity
            _ => scalar_class(rng, &order),
        };
        (a, b)
    };
    match parts[2] {
        "hash_to_curve" => {
            // 0..4 field elements (boundary values included)
            let n = rng.below(5);
            p.push(n);
            ins = (0..n).map(|_| crate::util::draw_fq(rng)).collect();
        }
        "assign" | "double" | "negate" | "is_zero" => bins = vec![point(rng)],
        "add" | "is_equal" | "assert_equal" | "assert_not_equal" => {
            let (a, b) = pair(rng);
            bins = vec![a, b];
        }
        "select" => {
            ins = vec![Fq::from(rng.below(2))];
            let (a, b) = pair(rng);
            bins = vec![a, b];
        }
        "mul_by_constant" => {
            bins = vec![point(rng)];
            big.push(scalar_class(rng, &order).to_str_radix(16));
        }
        "msm" | "msm_bounded" => {
            let n = rng.range(1, 4);
            p.push(n);
            // n points then n scalars
            let mut pts = vec![];
            let mut scs = vec![];
            let mut prev: Option<BigUint> = None;
            for i in 0..n {
                // consecutive bases are related (equal, opposite, identity) as often as not
                let (a, b) = pair(rng);
                let pt = if i % 2 == 0 { a } else { prev.take().unwrap_or(b.clone()) };
                if i % 2 == 0 {
                    prev = Some(b);
                }
                pts.push(pt);
                let s = scalar_class(rng, &order);
                if parts[2] == "msm_bounded" {
                    let bits = *rng.pick(&[1u64, 8, 64, 128, 200]);
                    p.push(bits);
                    scs.push(s % (BigUint::one() << bits));
                } else {
                    scs.push(s);
                }
            }
            // foreign msm de-duplicates terms that share a scalar or a base *variable* and
            // treats a scalar fixed to one apart: mode 1 shares the scalar variable of terms
            // 0 and 1, mode 2 their base variable, mode 3 fixes scalar 0 to the constant one
            if parts[1] != "jj" {
                let mode = if n >= 2 { rng.below(4) } else { *rng.pick(&[0u64, 3]) };
                match mode {
                    1 => {
                        scs[1] = scs[0].clone();
                        if parts[2] == "msm_bounded" {
                            p[2] = p[1];
                        }
                    }
                    2 => {
                        pts[1] = pts[0].clone();
                        // merged terms: both scalars at the top of one window-aligned bound, so
                        // that their sum needs one more bit than either
                        if parts[2] == "msm_bounded" && rng.chance(1, 2) {
                            let b = *rng.pick(&[4u64, 8, 64, 128]);
                            p[1] = b;
                            p[2] = b;
                            let top = (BigUint::one() << b) - 1u32;
                            scs[0] = top.clone();
                            scs[1] = if rng.chance(1, 2) { top } else { BigUint::one() << (b - 1) };
                        }
                    }
                    3 => {
                        scs[0] = BigUint::one();
                    }
                    _ => {}
                }
                big.push(format!("{mode:x}"));
            }
            bins = pts.into_iter().chain(scs).collect();
        }
        "from_coordinates" => {
            // coordinates as big integers: a valid point, the identity, an off-curve pair, (Jubjub) a low-order point
            p.push(rng.below(4));
            bins = vec![point(rng)];
            if bins[0].is_zero() && p[0] == 0 {
                bins[0] = BigUint::one();
            }
        }
        o => panic!("unknown ecc op {o}"),
    }
    OpCase { op: op.to_string(), p, big, ins: ins.into_iter().map(Fe).collect(), bins: bins.iter().map(|b| b.to_str_radix(16)).collect(), cols, mbl }
}

/// coordinates used by `from_coordinates` for class `cls` (0 valid, 1 identity, 2 off-curve, 3 low order / other)
fn jj_coords(k: &BigUint, cls: u64) -> (Fq, Fq) {
    use midnight_curves::JubjubAffine;
    let pt: JJ = jj_point(k).into();
    let aff = JubjubAffine::from(pt);
    let (x, y) = (aff.get_u(), aff.get_v());
    match cls {
        0 => (x, y),
        1 => (Fq::ZERO, Fq::ONE),
        2 => (x, y + Fq::ONE),
        // (0, -1) has order 2: on the curve, outside the prime-order subgroup
        _ => (Fq::ZERO, -Fq::ONE),
    }
}

// ------------------------------------------------------------------ bodies

fn publish<L: Layouter<F>>(s: &ZkStdLib, l: &mut L, xs: &[AN]) -> Result<(), Error> {
    for x in xs {
        s.constrain_as_public_input(l, x)?;
    }
    let m: AN = s.assign_fixed(l, Fq::from(MARKER))?;
    s.constrain_as_public_input(l, &m)
}

fn jj_body<L: Layouter<F>>(c: &OpCase, op: &str, s: &ZkStdLib, l: &mut L, w: &[Value<F>], wb: &[Value<BigUint>]) -> Result<(), Error> {
    type P = AssignedNativePoint<JJ>;
    type S = AssignedScalarOfNativeCurve<JJ>;
    let jj: &EccChip<JJ> = s.jubjub();
    let pubp = |l: &mut L, p: &P| -> Result<(), Error> {
        let v = jj.as_public_input(l, p)?;
        publish(s, l, &v)
    };
    if op == "hash_to_curve" {
        let xs: Vec<AN> = w.iter().map(|v| s.assign(l, *v)).collect::<Result<_, _>>()?;
        publish(s, l, &xs)?;
        let r = s.hash_to_curve(l, &xs)?;
        return pubp(l, &r);
    }
    let n_pts = match op {
        "msm" | "msm_bounded" => c.p[0] as usize,
        "from_coordinates" => 0,
        _ => wb.len(),
    };
    let bit: Option<AssignedBit<F>> = if op == "select" { Some(s.assign(l, w[0].map(|x| x != Fq::ZERO))?) } else { None };
    if let Some(b) = &bit {
        publish(s, l, &[b.clone().into()])?;
    }
    let pts: Vec<P> = wb[..n_pts].iter().map(|v| jj.assign(l, v.clone().map(|k| jj_point(&k)))).collect::<Result<_, _>>()?;
    for p in &pts {
        pubp(l, p)?;
    }
    match op {
        "assign" => {}
        "add" => {
            let r = jj.add(l, &pts[0], &pts[1])?;
            pubp(l, &r)?
        }
        "double" => {
            let r = jj.double(l, &pts[0])?;
            pubp(l, &r)?
        }
        "negate" => {
            let r = jj.negate(l, &pts[0])?;
            pubp(l, &r)?
        }
        "is_equal" => {
            let b = jj.is_equal(l, &pts[0], &pts[1])?;
            publish(s, l, &[b.into()])?
        }
        "is_zero" => {
            let b = jj.is_zero(l, &pts[0])?;
            publish(s, l, &[b.into()])?
        }
        "assert_equal" => jj.assert_equal(l, &pts[0], &pts[1])?,
        "assert_not_equal" => jj.assert_not_equal(l, &pts[0], &pts[1])?,
        "select" => {
            let r = jj.select(l, bit.as_ref().unwrap(), &pts[0], &pts[1])?;
            pubp(l, &r)?
        }
        "mul_by_constant" => {
            let r = jj.mul_by_constant(l, jj_scalar(&c.bigp(0)), &pts[0])?;
            pubp(l, &r)?
        }
        "msm" | "msm_bounded" => {
            let scs: Vec<S> = wb[n_pts..].iter().map(|v| jj.assign(l, v.clone().map(|k| jj_scalar(&k)))).collect::<Result<_, _>>()?;
            for sc in &scs {
                let v = jj.as_public_input(l, sc)?;
                publish(s, l, &v)?;
            }
            let r = if op == "msm" {
                jj.msm(l, &scs, &pts)?
            } else {
                let bounded: Vec<(S, usize)> = scs.iter().enumerate().map(|(i, sc)| (sc.clone(), c.p[1 + i] as usize)).collect();
                jj.msm_by_bounded_scalars(l, &bounded, &pts)?
            };
            pubp(l, &r)?
        }
        "from_coordinates" => {
            let cls = c.p[0];
            let xy = wb[0].clone().map(|k| jj_coords(&k, cls));
            let x: AN = s.assign(l, xy.map(|v| v.0))?;
            let y: AN = s.assign(l, xy.map(|v| v.1))?;
            publish(s, l, &[x.clone(), y.clone()])?;
            let r = jj.point_from_coordinates(l, &x, &y)?;
            pubp(l, &r)?
        }
        o => panic!("unknown jj op {o}"),
    }
    Ok(())
}

fn fc_body<C, SC, L>(c: &OpCase, op: &str, chip: &ForeignEccChip<F, C, MEP, SC, NG>, s: &ZkStdLib, l: &mut L, w: &[Value<F>], wb: &[Value<BigUint>]) -> Result<(), Error>
where
    C: midnight_circuits::ecc::curves::WeierstrassCurve,
    C::CryptographicGroup: Group<Scalar = C::ScalarField>,
    C::ScalarField: CircuitField,
    C::Base: CircuitField,
    MEP: FieldEmulationParams<F, C::Base>,
    SC: ScalarFieldInstructions<F>,
    SC::Scalar: InnerValue<Element = C::ScalarField>,
    L: Layouter<F>,
{
    let sc = |k: &BigUint| C::ScalarField::from_biguint(&(k % C::ScalarField::modulus())).unwrap();
    let pt = |k: &BigUint| C::CryptographicGroup::generator() * sc(k);
    let bit: Option<AssignedBit<F>> = if op == "select" { Some(s.assign(l, w[0].map(|x| x != Fq::ZERO))?) } else { None };
    if let Some(b) = &bit {
        publish(s, l, &[b.clone().into()])?;
    }
    let is_msm = op == "msm" || op == "msm_bounded";
    let mode = if is_msm { c.bigp(0).to_u64_digits().first().copied().unwrap_or(0) } else { 0 };
    let n_pts = if op == "from_coordinates" {
        0
    } else if is_msm {
        c.p[0] as usize
    } else {
        wb.len()
    };
    let mut pts: Vec<midnight_circuits::ecc::foreign::AssignedForeignPoint<F, C, MEP>> = vec![];
    for (i, v) in wb[..n_pts].iter().enumerate() {
        if mode == 2 && i == 1 {
            // the same variable as base 0
            let first = pts[0].clone();
            pts.push(first);
        } else {
            pts.push(chip.assign(l, v.clone().map(|k| pt(&k)))?);
        }
    }
    for p in &pts {
        let v = chip.as_public_input(l, p)?;
        publish(s, l, &v)?;
    }
    let r = match op {
        "assign" => None,
        "add" => Some(chip.add(l, &pts[0], &pts[1])?),
        "double" => Some(chip.double(l, &pts[0])?),
        "negate" => Some(chip.negate(l, &pts[0])?),
        "select" => Some(chip.select(l, bit.as_ref().unwrap(), &pts[0], &pts[1])?),
        "mul_by_constant" => Some(chip.mul_by_constant(l, sc(&c.bigp(0)), &pts[0])?),
        "msm" | "msm_bounded" => {
            let sf = chip.scalar_field_chip();
            let mut scs: Vec<SC::Scalar> = vec![];
            for (i, v) in wb[n_pts..].iter().enumerate() {
                if mode == 1 && i == 1 {
                    scs.push(scs[0].clone());
                } else if mode == 3 && i == 0 {
                    scs.push(sf.assign_fixed(l, C::ScalarField::ONE)?);
                } else {
                    scs.push(sf.assign(l, v.clone().map(|k| sc(&k)))?);
                }
            }
            for x in &scs {
                let v = sf.as_public_input(l, x)?;
                publish(s, l, &v)?;
            }
            Some(if op == "msm" {
                chip.msm(l, &scs, &pts)?
            } else {
                let bounded: Vec<(SC::Scalar, usize)> = scs.iter().enumerate().map(|(i, x)| (x.clone(), c.p[1 + i] as usize)).collect();
                chip.msm_by_bounded_scalars(l, &bounded, &pts)?
            })
        }
        "is_equal" => {
            let b = chip.is_equal(l, &pts[0], &pts[1])?;
            publish(s, l, &[b.into()])?;
            None
        }
        "is_zero" => {
            let b = chip.is_zero(l, &pts[0])?;
            publish(s, l, &[b.into()])?;
            None
        }
        "assert_equal" => {
            chip.assert_equal(l, &pts[0], &pts[1])?;
            None
        }
        "assert_not_equal" => {
            chip.assert_not_equal(l, &pts[0], &pts[1])?;
            None
        }
        "from_coordinates" => {
            let cls = c.p[0];
            let xy = wb[0].clone().map(|k| {
                let p: C = pt(&k).into();
                let (x, y) = p.coordinates().unwrap_or((C::Base::ZERO, C::Base::ZERO));
                match cls {
                    0 => (x, y),
                    1 => (C::Base::ZERO, C::Base::ZERO),
                    _ => (x, y + C::Base::ONE),
                }
            });
            let bf = chip.base_field_chip();
            let x = bf.assign(l, xy.map(|v| v.0))?;
            let y = bf.assign(l, xy.map(|v| v.1))?;
            let xl = bf.as_public_input(l, &x)?;
            publish(s, l, &xl)?;
            let yl = bf.as_public_input(l, &y)?;
            publish(s, l, &yl)?;
            Some(chip.point_from_coordinates(l, &x, &y)?)
        }
        o => panic!("unknown foreign ecc op {o}"),
    };
    if let Some(r) = r {
        let v = chip.as_public_input(l, &r)?;
        publish(s, l, &v)?;
    }
    Ok(())
}

pub fn body<L: Layouter<F>>(c: &OpCase, s: &ZkStdLib, l: &mut L, w: &[Value<F>], wb: &[Value<BigUint>]) -> Result<(), Error> {
    let parts: Vec<&str> = c.op.split('.').collect();
    match parts[1] {
        "jj" => jj_body(c, parts[2], s, l, w, wb),
        "k256" => fc_body::<K256, _, L>(c, parts[2], s.secp256k1_curve(), s, l, w, wb),
        _ => fc_body::<G1Projective, _, L>(c, parts[2], s.bls12_381_curve(), s, l, w, wb),
    }
}

// ------------------------------------------------------------------ decoding and reference

type EP = (BigUint, BigUint);

/// A Jubjub point from published (x, y): Err if it is not a point of the prime-order subgroup.
fn dec_jj(g: &[Fq]) -> Result<EP, String> {
    if g.len() != 2 {
        return Err(format!("{} values published for a Jubjub point", g.len()));
    }
    let m = jubjub_model();
    let p = (fq_to_big(&g[0]), fq_to_big(&g[1]));
    if !m.on_curve(&p) {
        return Err("off-curve".into());
    }
    if m.mul(&jubjub_order(), &p) != m.identity() {
        return Err("outside the prime-order subgroup".into());
    }
    Ok(p)
}

fn limb_cfg(curve: &str) -> (u32, usize, BigUint) {
    if curve == "k256" {
        (<MEP as FieldEmulationParams<F, k256::Fp>>::LOG2_BASE, <MEP as FieldEmulationParams<F, k256::Fp>>::NB_LIMBS as usize, <k256::Fp as CircuitField>::modulus())
    } else {
        (<MEP as FieldEmulationParams<F, BlsFp>>::LOG2_BASE, <MEP as FieldEmulationParams<F, BlsFp>>::NB_LIMBS as usize, <BlsFp as CircuitField>::modulus())
    }
}
fn dec_coord(g: &[Fq], lb: u32, m: &BigUint) -> Result<BigUint, String> {
    let mut v = BigUint::zero();
    for (i, l) in g.iter().enumerate() {
        let li = fq_to_big(l);
        if li.bits() > lb as u64 {
            return Err(format!("coordinate limb {i} exceeds the base"));
        }
        v += li << (lb * i as u32);
    }
    Ok((v + 1u32) % m)
}
/// A foreign point from its published limbs: None = identity.
fn dec_fp(g: &[Fq], curve: &str) -> Result<Option<EP>, String> {
    let (lb, nl, m) = limb_cfg(curve);
    if g.len() != 2 * nl {
        return Err(format!("{} limbs published for a foreign point, {} expected", g.len(), 2 * nl));
    }
    let mut g = g.to_vec();
    let base = BigUint::one() << lb;
    let first = fq_to_big(&g[0]);
    let is_id = first >= base;
    if is_id {
        g[0] = crate::util::big_to_fq(&(first - &base));
    }
    let x = dec_coord(&g[..nl], lb, &m)?;
    let y = dec_coord(&g[nl..], lb, &m)?;
    if is_id {
        return Ok(None);
    }
    let (w, _) = weier(curve);
    if !w.on_curve(&Some((x.clone(), y.clone()))) {
        return Err("off-curve".into());
    }
    Ok(Some((x, y)))
}

pub fn n_input_groups(c: &OpCase) -> usize {
    let parts: Vec<&str> = c.op.split('.').collect();
    let sel = if parts[2] == "select" { 1 } else { 0 };
    match parts[2] {
        "from_coordinates" => {
            if parts[1] == "jj" {
                1
            } else {
                2
            }
        }
        "hash_to_curve" => 1,
        _ => sel + c.bins.len(),
    }
}

pub fn expected_admissible(c: &OpCase) -> bool {
    let parts: Vec<&str> = c.op.split('.').collect();
    match parts[2] {
        // (the identity is a point of the subgroup: class 1 is admissible on Jubjub;
        //  a Weierstrass identity has no affine coordinates)
        "from_coordinates" => c.p[0] == 0 || (c.p[0] == 1 && parts[1] == "jj"),
        "assert_equal" => c.bin(0) == c.bin(1),
        "assert_not_equal" => c.bin(0) != c.bin(1),
        _ => true,
    }
}

/// `Ok(true)` holds, `Ok(false)` inadmissible inputs, `Err` wrong result.
pub fn check(c: &OpCase, publics: &[Fq]) -> Result<bool, String> {
    let gs = groups(publics);
    let parts: Vec<&str> = c.op.split('.').collect();
    let ni = n_input_groups(c);
    if gs.len() < ni {
        return Err(format!("{} public groups, at least {ni} expected", gs.len()));
    }
    let (gi, go) = gs.split_at(ni);
    let op = parts[2];
    let bitv = |g: &[Fq]| -> Option<bool> {
        match g {
            [x] if *x == Fq::ZERO => Some(false),
            [x] if *x == Fq::ONE => Some(true),
            _ => None,
        }
    };
    if parts[1] == "jj" {
        let m = jubjub_model();
        let ord = jubjub_order();
        let outp = |i: usize, e: EP| -> Result<bool, String> {
            let o = dec_jj(go.get(i).ok_or("missing output point")?).map_err(|e| format!("output point is {e}"))?;
            if o == e { Ok(true) } else { Err(format!("output point ({:x}, {:x}) differs from the group law result ({:x}, {:x})", o.0, o.1, e.0, e.1)) }
        };
        let outb = |i: usize, e: bool| -> Result<bool, String> {
            match bitv(go.get(i).ok_or("missing output bit")?) {
                Some(b) if b == e => Ok(true),
                other => Err(format!("output bit {other:?} differs from {e}")),
            }
        };
        if op == "hash_to_curve" {
            // the published point must lie in the prime-order subgroup (dec_jj) and be the
            // off-circuit hash of the published inputs (the second party; both halves of
            // the library implement the map, the group-law model judges the result's membership)
            use midnight_circuits::{ecc::hash_to_curve::HashToCurveGadget, hash::poseidon::PoseidonChip, instructions::HashToCurveCPU, types::Instantiable};
            type Htc = HashToCurveGadget<F, JJ, AN, PoseidonChip<F>, EccChip<JJ>>;
            let inputs: Vec<Fq> = gi[0].to_vec();
            if inputs.len() != c.p[0] as usize {
                return Err(format!("{} inputs published, {} expected", inputs.len(), c.p[0]));
            }
            let e = <Htc as HashToCurveCPU<JJ, Fq>>::hash_to_curve(&inputs);
            let ev = <AssignedNativePoint<JJ> as Instantiable<F>>::as_public_input(&e);
            return outp(0, (fq_to_big(&ev[0]), fq_to_big(&ev[1])));
        }
        if op == "from_coordinates" {
            let g = &gi[0];
            let p = (fq_to_big(&g[0]), fq_to_big(&g[1]));
            if !m.on_curve(&p) || m.mul(&ord, &p) != m.identity() {
                return Ok(false);
            }
            return outp(0, p);
        }
        let (sel, rest) = if op == "select" { (bitv(&gi[0]), &gi[1..]) } else { (None, gi) };
        if op == "select" && sel.is_none() {
            return Ok(false);
        }
        let n_pts = if op == "msm" || op == "msm_bounded" { c.p[0] as usize } else { rest.len() };
        let mut pts = vec![];
        for g in &rest[..n_pts] {
            match dec_jj(g) {
                Ok(p) => pts.push(p),
                Err(_) => return Ok(false), // an assigned point off the curve / subgroup must be unsatisfiable
            }
        }
        return match op {
            "assign" => Ok(true),
            "add" => outp(0, m.add(&pts[0], &pts[1])),
            "double" => outp(0, m.add(&pts[0], &pts[0])),
            "negate" => outp(0, m.neg(&pts[0])),
            "is_equal" => outb(0, pts[0] == pts[1]),
            "is_zero" => outb(0, pts[0] == m.identity()),
            "assert_equal" => Ok(pts[0] == pts[1]),
            "assert_not_equal" => Ok(pts[0] != pts[1]),
            "select" => outp(0, if sel.unwrap() { pts[0].clone() } else { pts[1].clone() }),
            "mul_by_constant" => outp(0, m.mul(&c.bigp(0), &pts[0])),
            "msm" | "msm_bounded" => {
                let mut acc = m.identity();
                for (i, g) in rest[n_pts..].iter().enumerate() {
                    if g.len() != 1 {
                        return Err("scalar exposure is not one value".into());
                    }
                    let k = fq_to_big(&g[0]);
                    if op == "msm_bounded" && k.bits() > c.p[1 + i] {
                        // the bound is a precondition of the caller: nothing is specified outside it
                        return Ok(true);
                    }
                    acc = m.add(&acc, &m.mul(&k, &pts[i]));
                }
                outp(0, acc)
            }
            o => Err(format!("unknown jj op {o}")),
        };
    }
    // foreign curves
    let curve = parts[1];
    let (w, _) = weier(curve);
    let outp = |i: usize, e: Option<EP>| -> Result<bool, String> {
        let o = dec_fp(go.get(i).ok_or("missing output point")?, curve).map_err(|e| format!("output point is {e}"))?;
        if o == e { Ok(true) } else { Err(format!("output point {o:?} differs from the group law result {e:?}")) }
    };
    if op == "from_coordinates" {
        let (lb, _, m) = limb_cfg(curve);
        let x = dec_coord(&gi[0], lb, &m)?;
        let y = dec_coord(&gi[1], lb, &m)?;
        let p = Some((x, y));
        if !w.on_curve(&p) {
            return Ok(false);
        }
        return outp(0, p);
    }
    let (sel, rest) = if op == "select" { (bitv(&gi[0]), &gi[1..]) } else { (None, gi) };
    if op == "select" && sel.is_none() {
        return Ok(false);
    }
    let is_msm = op == "msm" || op == "msm_bounded";
    let n_pts = if is_msm { c.p[0] as usize } else { rest.len() };
    let mut pts = vec![];
    for g in &rest[..n_pts.min(rest.len())] {
        match dec_fp(g, curve) {
            Ok(p) => pts.push(p),
            Err(_) => return Ok(false),
        }
    }
    if is_msm {
        let (_, order) = weier(curve);
        let mut acc = None;
        for (i, g) in rest[n_pts..].iter().enumerate() {
            // secp256k1 scalars are emulated field elements, BLS12-381 scalars are native
            let k = if curve == "k256" {
                match crate::ops_ff::decode_field(g, "k256q") {
                    Ok(k) => k,
                    Err(_) => return Ok(false),
                }
            } else {
                if g.len() != 1 {
                    return Err("scalar exposure is not one value".into());
                }
                fq_to_big(&g[0])
            };
            if op == "msm_bounded" && k.bits() > c.p[1 + i] {
                // the bound is a precondition of the caller: nothing is specified outside it
                return Ok(true);
            }
            acc = w.add(&acc, &w.mul(&(k % &order), &pts[i]));
        }
        return outp(0, acc);
    }
    match op {
        "assign" => Ok(true),
        "add" => outp(0, w.add(&pts[0], &pts[1])),
        "double" => outp(0, w.add(&pts[0], &pts[0])),
        "negate" => outp(0, w.neg(&pts[0])),
        "select" => outp(0, if sel.unwrap() { pts[0].clone() } else { pts[1].clone() }),
        "mul_by_constant" => outp(0, w.mul(&c.bigp(0), &pts[0])),
        "is_equal" => match bitv(go.first().ok_or("missing output bit")?) {
            Some(b) if b == (pts[0] == pts[1]) => Ok(true),
            other => Err(format!("output bit {other:?} differs from {}", pts[0] == pts[1])),
        },
        "is_zero" => match bitv(go.first().ok_or("missing output bit")?) {
            Some(b) if b == pts[0].is_none() => Ok(true),
            other => Err(format!("output bit {other:?} differs from {}", pts[0].is_none())),
        },
        "assert_equal" => Ok(pts[0] == pts[1]),
        "assert_not_equal" => Ok(pts[0] != pts[1]),
        o => Err(format!("unknown foreign ecc op {o}")),
    }
}

#[allow(dead_code)]
fn _curve_bound<C: CircuitCurve>() {}
