//! Fixtures: SRS per k (stub of the setup ceremony: a fixed toxic secret).
use std::{
    collections::HashMap,
    sync::{Arc, Mutex, OnceLock},
};

use midnight_curves::Bls12;
use midnight_proofs::poly::kzg::params::ParamsKZG;
use rand_chacha::ChaCha20Rng;
use rand_core::SeedableRng;

type Cache = Mutex<HashMap<u32, Arc<ParamsKZG<Bls12>>>>;
static SRS: OnceLock<Cache> = OnceLock::new();

/// Parameters for exactly 2^k rows, all derived from the same secret.
/// Generated under an isolated sequential schedule so that a run's own
/// schedule is not perturbed.
pub fn srs(k: u32) -> Arc<ParamsKZG<Bls12>> {
    let cache = SRS.get_or_init(|| Mutex::new(HashMap::new()));
    if let Some(p) = cache.lock().unwrap().get(&k) {
        return p.clone();
    }
    let p = rayon::sim::isolated(1, || {
        Arc::new(ParamsKZG::<Bls12>::unsafe_setup(k, ChaCha20Rng::from_seed([7u8; 32])))
    });
    cache.lock().unwrap().entry(k).or_insert(p).clone()
}
