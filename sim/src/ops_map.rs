//! "map." family (C04: set (non-)membership maps): sequences of insert / get
//! on the Merkle-tree map gadget of the standard library. Reference: a plain
//! key-value map for the values, and the library's off-circuit map replayed
//! on the *published* keys and values for the succinct representations
//! (the tree hash itself is covered by C07).
use std::collections::HashMap;

use ff::Field;
use midnight_circuits::{
    hash::poseidon::PoseidonChip,
    instructions::{map::{MapCPU, MapInstructions}, AssignmentInstructions, PublicInputInstructions},
    map::cpu::MapMt,
    types::AssignedNative,
};
use midnight_curves::Fq;
use midnight_proofs::{
    circuit::{Layouter, Value},
    plonk::Error,
};
use midnight_zk_stdlib::{ZkStdLib, ZkStdLibArch};

use crate::{
    core::prng::Prng,
    ops::OpCase,
    util::{draw_fq, Fe},
};

type F = Fq;
type Cpu = MapMt<F, PoseidonChip<F>>;

pub const MAP_OPS: &[&str] = &["map.seq"];

pub fn arch(c: &OpCase) -> ZkStdLibArch {
    ZkStdLibArch { poseidon: true, nr_pow2range_cols: c.cols, ..ZkStdLibArch::default() }
}

/// p = [n_init, step...] with step 0 = get, 1 = insert; ins = n_init (key, value)
/// pairs, then per step the key and, for an insert, the value.
pub fn gen_case(rng: &mut Prng) -> OpCase {
    let n_init = rng.below(3);
    let steps = rng.range(1, 3);
    let mut p = vec![n_init];
    let mut ins: Vec<Fq> = vec![];
    // a small key pool so that gets hit inserted keys, default entries and overwritten ones
    let pool: Vec<Fq> = vec![Fq::ZERO, Fq::ONE, -Fq::ONE, draw_fq(rng), draw_fq(rng)];
    let val = |rng: &mut Prng| match rng.below(4) {
        0 => Fq::ZERO, // the default value: inserting it is not the same as removing
        1 => Fq::ONE,
        _ => draw_fq(rng),
    };
    for _ in 0..n_init {
        ins.push(*rng.pick(&pool));
        let v = val(rng);
        ins.push(v);
    }
    for _ in 0..steps {
        let insert = rng.chance(1, 2);
        p.push(insert as u64);
        ins.push(*rng.pick(&pool));
        if insert {
            let v = val(rng);
            ins.push(v);
        }
    }
    OpCase { op: "map.seq".into(), p, big: vec![], ins: ins.into_iter().map(Fe).collect(), bins: vec![], cols: rng.range(1, 4) as u8, mbl: 8 }
}

pub fn body<L: Layouter<F>>(c: &OpCase, s: &ZkStdLib, l: &mut L, w: &[Value<F>]) -> Result<(), Error> {
    let n_init = c.p[0] as usize;
    // the initial map is part of the witness
    let init: Value<Cpu> = Value::from_iter(w[..2 * n_init].iter().copied()).map(|kv: Vec<F>| {
        let mut m = <Cpu as MapCPU<F, F, F>>::new(&F::ZERO);
        for pair in kv.chunks(2) {
            m.insert(&pair[0], &pair[1]);
        }
        m
    });
    let mut m = s.map_gadget().clone();
    m.init(l, init)?;
    s.constrain_as_public_input(l, &m.succinct_repr())?;
    let mut pos = 2 * n_init;
    for step in &c.p[1..] {
        let key: AssignedNative<F> = s.assign(l, w[pos])?;
        pos += 1;
        s.constrain_as_public_input(l, &key)?;
        if *step == 1 {
            let value: AssignedNative<F> = s.assign(l, w[pos])?;
            pos += 1;
            s.constrain_as_public_input(l, &value)?;
            m.insert(l, &key, &value)?;
            s.constrain_as_public_input(l, &m.succinct_repr())?;
        } else {
            let v = m.get(l, &key)?;
            s.constrain_as_public_input(l, &v)?;
        }
    }
    Ok(())
}

/// Ok(true): consistent with the model (or starting from another map than the
/// honest one, which a prover is free to do: not judged); Err: wrong.
pub fn check(c: &OpCase, publics: &[Fq]) -> Result<bool, String> {
    let n_init = c.p[0] as usize;
    let honest: Vec<Fq> = c.ins.iter().map(|x| x.0).collect();
    let mut cpu = <Cpu as MapCPU<F, F, F>>::new(&F::ZERO);
    let mut model: HashMap<[u8; 32], Fq> = HashMap::new();
    for pair in honest[..2 * n_init].chunks(2) {
        cpu.insert(&pair[0], &pair[1]);
        model.insert(pair[0].to_bytes_le(), pair[1]);
    }
    let mut it = publics.iter();
    let root0 = *it.next().ok_or("no public values")?;
    if root0 != cpu.succinct_repr() {
        // another initial map: its contents are the prover's business
        return Ok(true);
    }
    for (i, step) in c.p[1..].iter().enumerate() {
        let key = *it.next().ok_or("missing key")?;
        if *step == 1 {
            let value = *it.next().ok_or("missing value")?;
            let root = *it.next().ok_or("missing root")?;
            cpu.insert(&key, &value);
            model.insert(key.to_bytes_le(), value);
            if root != cpu.succinct_repr() {
                return Err(format!("step {i}: after insert the circuit publishes another succinct representation than the off-circuit map"));
            }
        } else {
            let value = *it.next().ok_or("missing value")?;
            let expect = model.get(&key.to_bytes_le()).copied().unwrap_or(Fq::ZERO);
            if value != expect {
                return Err(format!("step {i}: get returns {:?}, the map holds {:?}", Fe(value), Fe(expect)));
            }
            if cpu.get(&key) != expect {
                return Err(format!("step {i}: the off-circuit map returns another value than a plain key-value map"));
            }
        }
    }
    if it.next().is_some() {
        return Err("more public values than the sequence produces".into());
    }
    Ok(true)
}
