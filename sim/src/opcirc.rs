//! Operation-circuit harness shared by C04-C09, C18-C20:
//! * `StructureRecorder`: an `Assignment` back end that records the fixed part
//!   of a circuit (fixed cells, selectors, copy constraints, table fills, cell
//!   positions) and yields a structure digest;
//! * Byzantine prover plans for hook H1 and the honest-run trace;
//! * `run_mock`: MockProver execution with the instance read back from the
//!   copy constraints (hook H2), so that the harness does not depend on the
//!   off-circuit public-input encoders.
use std::{
    cell::RefCell,
    collections::{BTreeMap, BTreeSet, HashMap},
    rc::Rc,
};

use ff::Field;
use midnight_curves::Fq;
use midnight_proofs::{
    circuit::Value,
    dev::{CellValue, InstanceValue, MockProver, VerifyFailure},
    plonk::{
        Advice, Any, Assignment, Challenge, Circuit, Column, ConstraintSystem, Error, Fixed,
        FloorPlanner, Instance, Selector,
    },
    utils::rational::Rational,
    verif_hooks,
};
use serde::{Deserialize, Serialize};

use crate::{
    core::{prng, runner::catch},
    util::Fe,
};

// ---------------------------------------------------------------- structure recorder

#[derive(Default, Debug, Clone)]
pub struct Structure {
    pub fixed: BTreeMap<(usize, usize), [u8; 32]>,
    pub selectors: BTreeSet<(usize, usize)>,
    pub copies: BTreeSet<((u8, usize, usize), (u8, usize, usize))>,
    pub fills: BTreeMap<(usize, usize), [u8; 32]>,
    pub advice_cells: BTreeSet<(usize, usize)>,
    pub instance_queries: BTreeSet<(usize, usize)>,
    pub regions: usize,
}

impl Structure {
    pub fn digest(&self) -> u64 {
        // copies: canonical partition (union-find over the recorded pairs)
        let mut parent: BTreeMap<(u8, usize, usize), (u8, usize, usize)> = BTreeMap::new();
        fn find(p: &mut BTreeMap<(u8, usize, usize), (u8, usize, usize)>, x: (u8, usize, usize)) -> (u8, usize, usize) {
            let px = *p.entry(x).or_insert(x);
            if px == x {
                return x;
            }
            let r = find(p, px);
            p.insert(x, r);
            r
        }
        for (a, b) in &self.copies {
            let (ra, rb) = (find(&mut parent, *a), find(&mut parent, *b));
            if ra != rb {
                let (lo, hi) = if ra < rb { (ra, rb) } else { (rb, ra) };
                parent.insert(hi, lo);
            }
        }
        let keys: Vec<_> = parent.keys().copied().collect();
        let mut classes: BTreeMap<(u8, usize, usize), Vec<(u8, usize, usize)>> = BTreeMap::new();
        for k in keys {
            let r = find(&mut parent, k);
            classes.entry(r).or_default().push(k);
        }
        let classes: Vec<Vec<(u8, usize, usize)>> =
            classes.into_values().filter(|c| c.len() > 1).collect();
        let s = format!(
            "{:?}|{:?}|{:?}|{:?}|{:?}|{:?}|{}",
            self.fixed, self.selectors, classes, self.fills, self.advice_cells, self.instance_queries, self.regions
        );
        prng::digest(s.as_bytes())
    }
    /// which of the components differ (for the violation detail)
    pub fn diff(&self, o: &Structure) -> Vec<&'static str> {
        let mut v = vec![];
        if self.fixed != o.fixed {
            v.push("fixed cells");
        }
        if self.selectors != o.selectors {
            v.push("selectors");
        }
        if self.copies != o.copies {
            v.push("copy constraints");
        }
        if self.fills != o.fills {
            v.push("table fills");
        }
        if self.advice_cells != o.advice_cells {
            v.push("advice cell positions");
            if std::env::var("ZKSIM_DEBUG").is_ok() {
                let a: Vec<_> = self.advice_cells.difference(&o.advice_cells).take(12).collect();
                let b: Vec<_> = o.advice_cells.difference(&self.advice_cells).take(12).collect();
                eprintln!("only without witness: {a:?}; only with witness: {b:?}");
            }
        }
        if self.instance_queries != o.instance_queries {
            v.push("instance queries");
        }
        if self.regions != o.regions {
            v.push("number of regions");
        }
        v
    }
}

fn kind(c: &Column<Any>) -> u8 {
    match c.column_type() {
        Any::Advice(_) => 0,
        Any::Fixed => 1,
        Any::Instance => 2,
    }
}

pub struct StructureRecorder {
    pub s: Structure,
    /// invoke the advice closures (so that hook H1 acts and witness-dependent
    /// code runs); never for the unknown-witness pass
    pub invoke: bool,
    pub instance: Vec<Vec<Fq>>,
    n: usize,
}

impl Assignment<Fq> for StructureRecorder {
    fn enter_region<NR, N>(&mut self, _: N)
    where
        NR: Into<String>,
        N: FnOnce() -> NR,
    {
        self.s.regions += 1;
    }
    fn annotate_column<A, AR>(&mut self, _: A, _: Column<Any>)
    where
        A: FnOnce() -> AR,
        AR: Into<String>,
    {
    }
    fn exit_region(&mut self) {}
    fn enable_selector<A, AR>(&mut self, _: A, selector: &Selector, row: usize) -> Result<(), Error>
    where
        A: FnOnce() -> AR,
        AR: Into<String>,
    {
        self.s.selectors.insert((selector.index(), row));
        Ok(())
    }
    fn query_instance(&self, column: Column<Instance>, row: usize) -> Result<Value<Fq>, Error> {
        // (interior mutability not needed: queries are recorded by value below)
        Ok(self
            .instance
            .get(column.index())
            .and_then(|c| c.get(row))
            .map(|v| Value::known(*v))
            .unwrap_or_else(Value::unknown))
    }
    fn assign_advice<V, VR, A, AR>(&mut self, _: A, column: Column<Advice>, row: usize, to: V) -> Result<(), Error>
    where
        V: FnOnce() -> Value<VR>,
        VR: Into<Rational<Fq>>,
        A: FnOnce() -> AR,
        AR: Into<String>,
    {
        if row >= self.n {
            return Err(Error::NotEnoughRowsAvailable { current_k: 0 });
        }
        self.s.advice_cells.insert((column.index(), row));
        if self.invoke {
            let _ = to();
        }
        Ok(())
    }
    fn assign_fixed<V, VR, A, AR>(&mut self, _: A, column: Column<Fixed>, row: usize, to: V) -> Result<(), Error>
    where
        V: FnOnce() -> Value<VR>,
        VR: Into<Rational<Fq>>,
        A: FnOnce() -> AR,
        AR: Into<String>,
    {
        let mut got: Option<Rational<Fq>> = None;
        to().into_field().map(|v| got = Some(v));
        let v = got.ok_or(Error::Synthesis("unknown fixed value".into()))?;
        self.s.fixed.insert((column.index(), row), v.evaluate().to_bytes_le());
        Ok(())
    }
    fn copy(&mut self, lc: Column<Any>, lr: usize, rc: Column<Any>, rr: usize) -> Result<(), Error> {
        let a = (kind(&lc), lc.index(), lr);
        let b = (kind(&rc), rc.index(), rr);
        self.s.copies.insert(if a <= b { (a, b) } else { (b, a) });
        Ok(())
    }
    fn fill_from_row(&mut self, column: Column<Fixed>, row: usize, to: Value<Rational<Fq>>) -> Result<(), Error> {
        let mut got: Option<Rational<Fq>> = None;
        to.map(|v| got = Some(v));
        let v = got.ok_or(Error::Synthesis("unknown fill value".into()))?;
        self.s.fills.insert((column.index(), row), v.evaluate().to_bytes_le());
        Ok(())
    }
    fn get_challenge(&self, _: Challenge) -> Value<Fq> {
        Value::unknown()
    }
    fn push_namespace<NR, N>(&mut self, _: N)
    where
        NR: Into<String>,
        N: FnOnce() -> NR,
    {
    }
    fn pop_namespace(&mut self, _: Option<String>) {}
}

/// Synthesises `circuit` on the recorder. `invoke`: call the advice closures.
pub fn record_structure<C: Circuit<Fq>>(k: u32, circuit: &C, invoke: bool) -> Result<Structure, Error> {
    let mut cs = ConstraintSystem::default();
    let config = C::configure_with_params(&mut cs, circuit.params());
    let mut rec = StructureRecorder { s: Structure::default(), invoke, instance: vec![], n: 1 << k };
    C::FloorPlanner::synthesize(&mut rec, circuit, config, cs.constants().clone())?;
    Ok(rec.s)
}

// ---------------------------------------------------------------- Byzantine prover (hook H1)

#[derive(Clone, Debug, Serialize, Deserialize, PartialEq)]
pub enum FaultVal {
    Add(Fe),
    Set(Fe),
    Neg,
    /// 1 - v
    OneMinus,
    /// v + 2^j
    AddPow2(u32),
}

/// One Byzantine edit: the `ord`-th assignment made to advice column `col`.
#[derive(Clone, Debug, Serialize, Deserialize, PartialEq)]
pub struct CellEdit {
    pub col: usize,
    pub ord: usize,
    pub val: FaultVal,
}

impl FaultVal {
    pub fn apply(&self, v: Fq) -> Fq {
        match self {
            FaultVal::Add(d) => v + d.0,
            FaultVal::Set(s) => s.0,
            FaultVal::Neg => -v,
            FaultVal::OneMinus => Fq::ONE - v,
            FaultVal::AddPow2(j) => v + Fq::from(2).pow_vartime([*j as u64]),
        }
    }
}

/// (column, ordinal, honest value) of every advice assignment of a pass
pub type Trace = Vec<(usize, usize, Fq)>;

/// Installs the plan (and a recorder) on this thread; returns the shared trace.
pub fn install_plan(edits: &[CellEdit], record: bool) -> Rc<RefCell<Trace>> {
    let trace: Rc<RefCell<Trace>> = Rc::new(RefCell::new(vec![]));
    let mut plan: HashMap<(usize, usize), verif_hooks::Mutator> = HashMap::new();
    for e in edits {
        let val = e.val.clone();
        plan.insert(
            (e.col, e.ord),
            Box::new(move |x: &mut dyn std::any::Any| {
                if let Some(f) = x.downcast_mut::<Fq>() {
                    *f = val.apply(*f);
                }
            }),
        );
    }
    let rec: Option<verif_hooks::Recorder> = if record {
        let t = trace.clone();
        Some(Box::new(move |col, ord, x: &dyn std::any::Any| {
            if let Some(f) = x.downcast_ref::<Fq>() {
                t.borrow_mut().push((col, ord, *f));
            }
        }))
    } else {
        None
    };
    verif_hooks::install(plan, rec);
    trace
}

// ---------------------------------------------------------------- mock execution with read-back instance

#[derive(Debug, Clone, PartialEq, Eq)]
pub enum MockVerdict {
    Accept,
    /// constraint failures, by class
    Reject(Vec<String>),
    /// synthesis returned an error (witness generation failed)
    SynthErr(String),
    /// witness generation (or the checker) panicked: "prover failed"
    Panic(String),
}

pub struct MockRun {
    pub verdict: MockVerdict,
    /// values bound to the rows of the plain instance column, in row order
    pub bound_plain: Vec<Fq>,
    /// values bound to the committed instance column
    pub bound_committed: Vec<Fq>,
    pub trace: Trace,
    pub fired: usize,
    pub assignments: usize,
    /// the checker's tables (for the Byzantine prover's second move)
    pub prover: Option<MockProver<Fq>>,
}

fn failure_class(f: &VerifyFailure) -> &'static str {
    match f {
        VerifyFailure::CellNotAssigned { .. } => "lint-cell-not-assigned",
        VerifyFailure::InstanceCellNotAssigned { .. } => "lint-instance-not-assigned",
        VerifyFailure::ConstraintNotSatisfied { .. } => "gate",
        VerifyFailure::ConstraintPoisoned { .. } => "poisoned",
        VerifyFailure::Lookup { .. } => "lookup",
        VerifyFailure::Permutation { .. } => "permutation",
    }
}

/// Values of the advice cells that copy constraints tie to the rows of
/// instance column `inst_col`, read from the checker's tables.
fn bound_values(p: &MockProver<Fq>, inst_col: usize) -> Vec<Fq> {
    use rayon::iter::ParallelIterator;
    let cols = p.permutation().columns().to_vec();
    let Some(ci) = cols.iter().position(|c| kind(c) == 2 && c.index() == inst_col) else {
        return vec![];
    };
    let mapping: Vec<Vec<(usize, usize)>> = p.permutation().mapping().map(|c| c.collect::<Vec<_>>()).collect();
    let n = mapping[ci].len();
    let mut out = vec![];
    for row in 0..n {
        if mapping[ci][row] == (ci, row) {
            // rows are bound consecutively from 0: the first unbound row ends the public inputs
            break;
        }
        // walk the cycle until an advice cell is found
        let mut cur = mapping[ci][row];
        let mut val = None;
        let mut guard = 0;
        while cur != (ci, row) && guard < 1 << 20 {
            let c = cols[cur.0];
            if kind(&c) == 0 {
                if let CellValue::Assigned(v) = p.advice()[c.index()][cur.1] {
                    val = Some(v);
                    break;
                }
            }
            if kind(&c) == 1 {
                // bound to a constant
                if let CellValue::Assigned(v) = p.fixed()[c.index()][cur.1] {
                    val = Some(v);
                    break;
                }
            }
            cur = mapping[cur.0][cur.1];
            guard += 1;
        }
        out.push(val.unwrap_or(Fq::ZERO));
    }
    out
}

/// The advice cell (column, row) bound to each row of instance column `inst_col`
/// (None where the row is bound to a constant only).
pub fn bound_cells(p: &MockProver<Fq>, inst_col: usize) -> Vec<Option<(usize, usize)>> {
    use rayon::iter::ParallelIterator;
    let cols = p.permutation().columns().to_vec();
    let Some(ci) = cols.iter().position(|c| kind(c) == 2 && c.index() == inst_col) else {
        return vec![];
    };
    let mapping: Vec<Vec<(usize, usize)>> = p.permutation().mapping().map(|c| c.collect::<Vec<_>>()).collect();
    let mut out = vec![];
    for row in 0..mapping[ci].len() {
        if mapping[ci][row] == (ci, row) {
            break;
        }
        let mut cur = mapping[ci][row];
        let mut cell = None;
        let mut guard = 0;
        while cur != (ci, row) && guard < 1 << 20 {
            let c = cols[cur.0];
            if kind(&c) == 0 {
                cell = Some((c.index(), cur.1));
                break;
            }
            cur = mapping[cur.0][cur.1];
            guard += 1;
        }
        out.push(cell);
    }
    out
}

/// Binds the instance to what the copy constraints tie it to and runs the checker.
pub fn bind_and_verify(p: &mut MockProver<Fq>) -> (MockVerdict, Vec<Fq>, Vec<Fq>) {
    let bound_committed = bound_values(p, 0);
    let bound_plain = bound_values(p, 1);
    for (ci, vals) in [(0usize, &bound_committed), (1usize, &bound_plain)] {
        for (row, v) in vals.iter().enumerate() {
            p.instance_mut()[ci][row] = InstanceValue::Assigned(*v);
        }
    }
    let ver = rayon::sim::isolated(1, || catch(|| p.verify()));
    let verdict = match ver {
        Err(pa) => MockVerdict::Panic(format!("checker: {}: {}", pa.site(), pa.msg)),
        Ok(Ok(())) => MockVerdict::Accept,
        Ok(Err(fs)) => {
            if std::env::var("ZKSIM_DEBUG").is_ok() {
                for f in fs.iter().take(4) {
                    eprintln!("verify failure: {f:?}");
                }
            }
            let mut cl: Vec<String> = vec![];
            for f in &fs {
                let c = failure_class(f).to_string();
                if !cl.contains(&c) {
                    cl.push(c);
                }
            }
            MockVerdict::Reject(cl)
        }
    };
    (verdict, bound_plain, bound_committed)
}

/// Runs the checker on `circuit` (two instance columns: committed, plain)
/// with the Byzantine plan installed; the instance is what the circuit binds.
pub fn run_mock<C: Circuit<Fq>>(k: u32, circuit: &C, edits: &[CellEdit], record: bool) -> MockRun {
    let trace = install_plan(edits, record);
    let r = rayon::sim::isolated(1, || catch(|| MockProver::run(k, circuit, vec![vec![], vec![]])));
    let (fired, assignments) = verif_hooks::clear();
    let trace = std::mem::take(&mut *trace.borrow_mut());
    let mut out = MockRun {
        verdict: MockVerdict::Accept,
        bound_plain: vec![],
        bound_committed: vec![],
        trace,
        fired,
        assignments,
        prover: None,
    };
    let mut p = match r {
        Err(pa) => {
            out.verdict = MockVerdict::Panic(format!("{}: {}", pa.site(), pa.msg));
            return out;
        }
        Ok(Err(e)) => {
            out.verdict = MockVerdict::SynthErr(format!("{e:?}"));
            return out;
        }
        Ok(Ok(p)) => p,
    };
    let (v, bp, bc) = bind_and_verify(&mut p);
    out.verdict = v;
    out.bound_plain = bp;
    out.bound_committed = bc;
    out.prover = Some(p);
    out
}

// ---------------------------------------------------------------- Byzantine prover, late edits (hook H2)

/// A late edit: after the honest witness generation has finished, the value of
/// one advice cell is replaced in the checker's tables, together with every
/// advice cell its copy constraints tie it to (so that the permutation
/// argument stays satisfied). Unlike an H1 fault it cannot be stopped by an
/// assertion of the witness generator, and nothing downstream is recomputed.
#[derive(Clone, Debug, Serialize, Deserialize, PartialEq)]
pub struct LateEdit {
    pub col: usize,
    pub row: usize,
    pub val: FaultVal,
}

/// Assigned advice cells (column, row, value) in the usable rows.
pub fn assigned_advice_cells(p: &MockProver<Fq>) -> Vec<(usize, usize, Fq)> {
    let end = p.usable_rows().end;
    let mut out = vec![];
    for (ci, col) in p.advice().iter().enumerate() {
        for (ri, c) in col.iter().enumerate().take(end) {
            if let CellValue::Assigned(v) = c {
                out.push((ci, ri, *v));
            }
        }
    }
    out
}

/// Applies the edit to the whole copy cycle of the cell. Returns the advice
/// cells changed, or None when the cycle contains a fixed cell (a constant
/// cannot be changed by the prover) or the cell is not assigned.
pub fn apply_late(p: &mut MockProver<Fq>, e: &LateEdit) -> Option<Vec<(usize, usize)>> {
    use rayon::iter::ParallelIterator;
    let old = match p.advice().get(e.col)?.get(e.row)? {
        CellValue::Assigned(v) => *v,
        _ => return None,
    };
    let new = e.val.apply(old);
    if new == old {
        return None;
    }
    let cols = p.permutation().columns().to_vec();
    let mut cells = vec![(e.col, e.row)];
    if let Some(ci) = cols.iter().position(|c| kind(c) == 0 && c.index() == e.col) {
        let mapping: Vec<Vec<(usize, usize)>> = p.permutation().mapping().map(|c| c.collect::<Vec<_>>()).collect();
        let mut cur = mapping[ci][e.row];
        let mut guard = 0;
        while cur != (ci, e.row) && guard < 1 << 20 {
            let c = cols[cur.0];
            match kind(&c) {
                0 => cells.push((c.index(), cur.1)),
                1 => return None,
                _ => {}
            }
            cur = mapping[cur.0][cur.1];
            guard += 1;
        }
    }
    for (c, r) in &cells {
        p.advice_mut()[*c][*r] = CellValue::Assigned(new);
    }
    Some(cells)
}
