//! The proof pipeline parties: key generator, prover, verifier, over
//! `GenCircuit`, with the scheduler phase (pool size / task order) of every
//! party chosen by the scenario.
use ff::Field;
use midnight_circuits::hash::poseidon::PoseidonState;
use midnight_curves::{Bls12, Fq, G1Projective};
use midnight_proofs::{
    circuit::{floor_planner::V1, SimpleFloorPlanner},
    dev::{MockProver, VerifyFailure},
    plonk::{
        commit_to_instances, create_proof, keygen_pk, keygen_vk_with_k, prepare, Error,
        FloorPlanner, ProvingKey, VerifyingKey,
    },
    poly::{
        commitment::Guard,
        kzg::{params::ParamsKZG, KZGCommitmentScheme},
    },
    transcript::{Hashable, Sampleable, Transcript, TranscriptHash},
};
use rand_core::{CryptoRng, RngCore};
use serde::{Deserialize, Serialize};

use crate::{
    core::prng::Prng,
    fixtures,
    gen_circuit::{GenCircuit, Spec, Witness},
    tracing_t::{self, TEvent, TracingTranscript},
};

pub type Cs = KZGCommitmentScheme<Bls12>;
pub type Vk = VerifyingKey<Fq, Cs>;
pub type Pk = ProvingKey<Fq, Cs>;

#[derive(Clone, Copy, Debug, Serialize, Deserialize, PartialEq, Eq)]
pub enum HashKind {
    Blake2b,
    Poseidon,
}

/// Scheduler phase of one party.
#[derive(Clone, Copy, Debug, Serialize, Deserialize, PartialEq, Eq)]
pub struct Sched {
    pub threads: usize,
    pub permute: bool,
    pub seed: u64,
}
impl Sched {
    pub fn seq() -> Self {
        Sched { threads: 1, permute: false, seed: 0 }
    }
    pub fn draw(rng: &mut Prng, thorough: bool) -> Self {
        let threads = if thorough && rng.chance(1, 3) {
            rng.range(1, 64) as usize
        } else {
            // mostly the pools of the property text, sometimes more workers
            // than a small circuit has rows
            *rng.pick(&[1usize, 2, 3, 5, 8, 16, 1, 2, 3, 5, 8, 16, 17, 24, 40])
        };
        Sched { threads, permute: rng.chance(3, 4), seed: rng.u64() }
    }
    pub fn enter(&self) {
        rayon::sim::set(self.seed, self.threads, self.permute);
    }
}

pub fn keygen_p<P: FloorPlanner>(spec: &Spec) -> Result<(Vk, Pk), Error> {
    let params = fixtures::srs(spec.k);
    let c = GenCircuit::<P>::new(spec.clone(), None);
    let vk: Vk = keygen_vk_with_k(&*params, &c, spec.k)?;
    let pk = keygen_pk(vk.clone(), &c)?;
    Ok((vk, pk))
}

pub fn keygen(spec: &Spec) -> Result<(Vk, Pk), Error> {
    if spec.v1 {
        keygen_p::<V1>(spec)
    } else {
        keygen_p::<SimpleFloorPlanner>(spec)
    }
}

fn prove_ph<P: FloorPlanner, H: TranscriptHash>(
    params: &ParamsKZG<Bls12>,
    pk: &Pk,
    spec: &Spec,
    witnesses: &[Witness],
    nb_committed: usize,
    rng: impl RngCore + CryptoRng,
) -> Result<Vec<u8>, Error>
where
    G1Projective: Hashable<H>,
    Fq: Hashable<H> + Sampleable<H>,
{
    let circuits: Vec<GenCircuit<P>> =
        witnesses.iter().map(|w| GenCircuit::new(spec.clone(), Some(w.clone()))).collect();
    let inst: Vec<Vec<Vec<Fq>>> = witnesses.iter().map(|w| w.effective_instance()).collect();
    let inst_refs: Vec<Vec<&[Fq]>> =
        inst.iter().map(|i| i.iter().map(|c| c.as_slice()).collect()).collect();
    let inst_refs2: Vec<&[&[Fq]]> = inst_refs.iter().map(|i| i.as_slice()).collect();
    let mut t = TracingTranscript::<H>::init();
    create_proof::<Fq, Cs, _, _>(params, pk, &circuits, nb_committed, &inst_refs2, rng, &mut t)?;
    Ok(t.finalize())
}

/// Proves `witnesses.len()` circuits together. Returns the proof and the
/// prover's transcript log.
pub fn prove(
    pk: &Pk,
    spec: &Spec,
    witnesses: &[Witness],
    nb_committed: usize,
    hash: HashKind,
    rng: impl RngCore + CryptoRng,
) -> (Result<Vec<u8>, Error>, Vec<TEvent>) {
    let params = fixtures::srs(spec.k);
    tracing_t::clear_log();
    let r = match (spec.v1, hash) {
        (false, HashKind::Blake2b) => prove_ph::<SimpleFloorPlanner, blake2b_simd::State>(
            &params, pk, spec, witnesses, nb_committed, rng,
        ),
        (true, HashKind::Blake2b) => {
            prove_ph::<V1, blake2b_simd::State>(&params, pk, spec, witnesses, nb_committed, rng)
        }
        (false, HashKind::Poseidon) => prove_ph::<SimpleFloorPlanner, PoseidonState<Fq>>(
            &params, pk, spec, witnesses, nb_committed, rng,
        ),
        (true, HashKind::Poseidon) => {
            prove_ph::<V1, PoseidonState<Fq>>(&params, pk, spec, witnesses, nb_committed, rng)
        }
    };
    (r, tracing_t::take_log())
}

/// What the verifier is given for one proof of a multi-proof.
#[derive(Clone, Debug)]
pub struct Statement {
    pub committed: Vec<G1Projective>,
    pub plain: Vec<Vec<Fq>>,
}

/// The statement an honest verifier holds for `witness` (first `nb_committed`
/// instance columns committed).
pub fn statement(vk: &Vk, k: u32, w: &Witness, nb_committed: usize) -> Statement {
    let params = fixtures::srs(k);
    let cols: Vec<Vec<Fq>> = w.effective_instance();
    let committed = cols[..nb_committed]
        .iter()
        .map(|c| {
            rayon::sim::isolated(1, || commit_to_instances::<Fq, Cs>(&params, vk.get_domain(), c))
        })
        .collect();
    Statement { committed, plain: cols[nb_committed..].to_vec() }
}

#[derive(Debug, Clone, PartialEq, Eq)]
pub enum VerifyErr {
    /// `prepare` returned an error (transcript / instance / opening preparation)
    Prepare(String),
    /// trailing bytes
    NotEmpty,
    /// final pairing check failed
    Pairing,
}

fn verify_h<H: TranscriptHash>(
    k: u32,
    vk: &Vk,
    stmts: &[Statement],
    proof: &[u8],
) -> Result<(), VerifyErr>
where
    G1Projective: Hashable<H>,
    Fq: Hashable<H> + Sampleable<H>,
{
    let params = fixtures::srs(k);
    let com: Vec<&[G1Projective]> = stmts.iter().map(|s| s.committed.as_slice()).collect();
    let plain: Vec<Vec<&[Fq]>> =
        stmts.iter().map(|s| s.plain.iter().map(|c| c.as_slice()).collect()).collect();
    let plain2: Vec<&[&[Fq]]> = plain.iter().map(|p| p.as_slice()).collect();
    let mut t = TracingTranscript::<H>::init_from_bytes(proof);
    let guard = prepare::<Fq, Cs, _>(vk, &com, &plain2, &mut t)
        .map_err(|e| VerifyErr::Prepare(format!("{e:?}")))?;
    t.assert_empty().map_err(|_| VerifyErr::NotEmpty)?;
    guard.verify(&params.verifier_params()).map_err(|_| VerifyErr::Pairing)
}

/// Full verification as a verifier does it: prepare, assert_empty, pairing.
pub fn verify(
    k: u32,
    vk: &Vk,
    stmts: &[Statement],
    proof: &[u8],
    hash: HashKind,
) -> (Result<(), VerifyErr>, Vec<TEvent>) {
    tracing_t::clear_log();
    let r = match hash {
        HashKind::Blake2b => verify_h::<blake2b_simd::State>(k, vk, stmts, proof),
        HashKind::Poseidon => verify_h::<PoseidonState<Fq>>(k, vk, stmts, proof),
    };
    (r, tracing_t::take_log())
}

/// The development-time constraint checker on the same circuit and assignment.
pub fn mock(spec: &Spec, w: &Witness) -> Result<(), Vec<VerifyFailure>> {
    let inst: Vec<Vec<Fq>> = w.effective_instance();
    let r = if spec.v1 {
        MockProver::run(spec.k, &GenCircuit::<V1>::new(spec.clone(), Some(w.clone())), inst)
    } else {
        MockProver::run(
            spec.k,
            &GenCircuit::<SimpleFloorPlanner>::new(spec.clone(), Some(w.clone())),
            inst,
        )
    };
    match r {
        Ok(p) => p.verify(),
        Err(e) => panic!("MockProver::run failed on a generated circuit: {e:?}"),
    }
}

pub fn fq_zero() -> Fq {
    Fq::ZERO
}
