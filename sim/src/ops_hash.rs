//! Registry family: hash gadgets (C07) against the reference crates and a
//! textbook Poseidon written independently over the repository's constants.
use ff::Field;
use midnight_circuits::{
    hash::poseidon::{constants::PoseidonField, PoseidonChip},
    instructions::{hash::HashCPU, *},
    types::{AssignedByte, AssignedNative},
};
use midnight_curves::Fq;
use midnight_proofs::{
    circuit::{Layouter, Value},
    plonk::Error,
};
use midnight_zk_stdlib::{ZkStdLib, ZkStdLibArch};
use sha2::Digest;

use crate::{
    core::prng::Prng,
    ops::OpCase,
    ops_ff::{groups, MARKER},
    util::{draw_fq, fq_to_big, Fe},
};

type F = Fq;
type AN = AssignedNative<F>;

pub const HASH_OPS: &[&str] = &["h.sha256", "h.sha512", "h.sha3_256", "h.keccak256", "h.blake2b256", "h.blake2b512", "h.poseidon"];

pub fn hash_ops() -> Vec<String> {
    HASH_OPS.iter().map(|s| s.to_string()).collect()
}

pub fn arch(c: &OpCase) -> ZkStdLibArch {
    let mut a = ZkStdLibArch { nr_pow2range_cols: c.cols, ..ZkStdLibArch::default() };
    match c.op.as_str() {
        "h.sha256" => a.sha2_256 = true,
        "h.sha512" => a.sha2_512 = true,
        "h.sha3_256" => a.sha3_256 = true,
        "h.keccak256" => a.keccak_256 = true,
        "h.blake2b256" | "h.blake2b512" => a.blake2b = true,
        _ => a.poseidon = true,
    }
    a
}

/// message lengths around the padding boundaries of each function
fn lengths(op: &str) -> Vec<usize> {
    match op {
        "h.sha256" => vec![0, 1, 3, 31, 32, 54, 55, 56, 57, 63, 64, 65, 100, 119, 120, 127, 128, 129],
        "h.sha512" | "h.blake2b256" | "h.blake2b512" => vec![0, 1, 64, 110, 111, 112, 113, 119, 120, 127, 128, 129, 200, 255, 256, 257],
        // rate of SHA3-256 / Keccak-256 is 136 bytes
        "h.sha3_256" | "h.keccak256" => vec![0, 1, 32, 134, 135, 136, 137, 200, 271, 272, 273],
        _ => (0..=12).collect(),
    }
}

pub fn gen_case(rng: &mut Prng, op: &str) -> OpCase {
    let ls = lengths(op);
    let n = if rng.chance(3, 4) { *rng.pick(&ls) } else { rng.usize(*ls.last().unwrap() + 1) };
    let ins: Vec<Fq> = if op == "h.poseidon" {
        (0..n).map(|_| draw_fq(rng)).collect()
    } else {
        let mode = rng.below(4);
        (0..n)
            .map(|_| {
                Fq::from(match mode {
                    0 => 0u64,
                    1 => 0xff,
                    _ => rng.below(256),
                })
            })
            .collect()
    };
    OpCase {
        op: op.to_string(),
        p: vec![n as u64],
        big: vec![],
        ins: ins.into_iter().map(Fe).collect(),
        bins: vec![],
        cols: rng.range(1, 4) as u8,
        mbl: rng.range(8, 11) as u8,
    }
}

fn publish<L: Layouter<F>>(s: &ZkStdLib, l: &mut L, xs: &[AN]) -> Result<(), Error> {
    for x in xs {
        s.constrain_as_public_input(l, x)?;
    }
    let m: AN = s.assign_fixed(l, Fq::from(MARKER))?;
    s.constrain_as_public_input(l, &m)
}

pub fn body<L: Layouter<F>>(c: &OpCase, s: &ZkStdLib, l: &mut L, w: &[Value<F>]) -> Result<(), Error> {
    if c.op == "h.poseidon" {
        let x: Vec<AN> = w.iter().map(|v| s.assign(l, *v)).collect::<Result<_, _>>()?;
        publish(s, l, &x)?;
        let out = s.poseidon(l, &x)?;
        return publish(s, l, &[out]);
    }
    let bytes: Vec<AssignedByte<F>> = w.iter().map(|v| s.assign(l, v.map(|x| x.to_bytes_le()[0]))).collect::<Result<_, _>>()?;
    let nat: Vec<AN> = bytes.iter().map(|b| b.clone().into()).collect();
    publish(s, l, &nat)?;
    let out: Vec<AssignedByte<F>> = match c.op.as_str() {
        "h.sha256" => s.sha2_256(l, &bytes)?.to_vec(),
        "h.sha512" => s.sha2_512(l, &bytes)?.to_vec(),
        "h.sha3_256" => s.sha3_256(l, &bytes)?.to_vec(),
        "h.keccak256" => s.keccak_256(l, &bytes)?.to_vec(),
        "h.blake2b256" => s.blake2b_256(l, &bytes)?.to_vec(),
        "h.blake2b512" => s.blake2b_512(l, &bytes)?.to_vec(),
        o => panic!("unknown hash {o}"),
    };
    let nat: Vec<AN> = out.into_iter().map(|b| b.into()).collect();
    publish(s, l, &nat)
}

// ------------------------------------------------------------------ references

/// Textbook Poseidon permutation (x^5 S-box, R_F = 8 full rounds split around
/// the partial rounds) over the repository's MDS matrix and round constants.
pub fn textbook_permutation(state: &mut [Fq; 3]) {
    let mds = <Fq as PoseidonField>::MDS;
    let rc = <Fq as PoseidonField>::ROUND_CONSTANTS;
    let rounds = rc.len();
    let rf = 8;
    let rp = rounds - rf;
    for r in 0..rounds {
        // add round constants
        for i in 0..3 {
            state[i] += rc[r][i];
        }
        // S-box layer
        let full = r < rf / 2 || r >= rf / 2 + rp;
        for i in 0..3 {
            if full || i == 2 {
                let x = state[i];
                state[i] = x.square().square() * x;
            }
        }
        // linear layer
        let old = *state;
        for i in 0..3 {
            state[i] = (0..3).fold(Fq::ZERO, |acc, j| acc + mds[i][j] * old[j]);
        }
    }
}

/// Fixed-length sponge as the library documents it: capacity element = input
/// length, rate 2, first rate element is the digest.
pub fn textbook_poseidon(input: &[Fq]) -> Fq {
    let mut st = [Fq::ZERO, Fq::ZERO, Fq::from(input.len() as u64)];
    if input.is_empty() {
        // no chunk is absorbed: the digest is the initial register's first element
        return st[0];
    }
    for chunk in input.chunks(2) {
        for (e, v) in st.iter_mut().zip(chunk) {
            *e += v;
        }
        textbook_permutation(&mut st);
    }
    st[0]
}

pub fn reference(op: &str, msg: &[u8]) -> Vec<u8> {
    match op {
        "h.sha256" => sha2::Sha256::digest(msg).to_vec(),
        "h.sha512" => sha2::Sha512::digest(msg).to_vec(),
        "h.sha3_256" => sha3::Sha3_256::digest(msg).to_vec(),
        "h.keccak256" => sha3::Keccak256::digest(msg).to_vec(),
        "h.blake2b256" => blake2b_simd::Params::new().hash_length(32).hash(msg).as_bytes().to_vec(),
        "h.blake2b512" => blake2b_simd::Params::new().hash_length(64).hash(msg).as_bytes().to_vec(),
        o => panic!("unknown hash {o}"),
    }
}

pub fn expected_admissible(_c: &OpCase) -> bool {
    true
}

pub fn check(c: &OpCase, publics: &[Fq]) -> Result<bool, String> {
    let gs = groups(publics);
    if gs.len() != 2 {
        return Err(format!("{} public groups, 2 expected", gs.len()));
    }
    if c.op == "h.poseidon" {
        let lib = <PoseidonChip<F> as HashCPU<F, F>>::hash(&gs[0]);
        let tb = textbook_poseidon(&gs[0]);
        if lib != tb {
            return Err(format!("the library's off-circuit Poseidon ({lib:?}) differs from the textbook permutation ({tb:?}) on {} inputs", gs[0].len()));
        }
        return if gs[1] == vec![tb] { Ok(true) } else { Err(format!("in-circuit digest {:?} differs from Poseidon({} inputs) = {tb:?}", gs[1], gs[0].len())) };
    }
    let mut msg = vec![];
    for b in &gs[0] {
        if fq_to_big(b).bits() > 8 {
            return Ok(false); // a non-byte input must be unsatisfiable
        }
        msg.push(b.to_bytes_le()[0]);
    }
    let e = reference(&c.op, &msg);
    let got: Vec<Fq> = gs[1].clone();
    let want: Vec<Fq> = e.iter().map(|b| Fq::from(*b as u64)).collect();
    if got == want {
        Ok(true)
    } else {
        Err(format!("in-circuit {} digest of {} bytes differs from the reference function", c.op, msg.len()))
    }
}

// ------------------------------------------------------------------ "sp." family: Poseidon sponge sequences

/// p = [fixed_len_mode, step...] where a step k < 90 absorbs k elements and
/// 99 squeezes; ins = the absorbed elements in order.
pub mod sponge {
    use ff::Field;
    use midnight_circuits::{
        field::{AssignedNative, NativeChip},
        hash::poseidon::PoseidonChip,
        instructions::{AssignmentInstructions, PublicInputInstructions, SpongeCPU, SpongeInstructions},
        testing_utils::FromScratch,
    };
    use midnight_curves::Fq;
    use midnight_proofs::{
        circuit::{Layouter, SimpleFloorPlanner, Value},
        plonk::{Circuit, ConstraintSystem, Error},
    };

    use super::textbook_permutation;
    use crate::{
        core::prng::Prng,
        ops::OpCase,
        util::{draw_fq, Fe},
    };

    type F = Fq;
    pub const SQUEEZE: u64 = 99;

    pub fn gen_case(rng: &mut Prng) -> OpCase {
        let fixed = rng.chance(1, 4);
        let mut p = vec![fixed as u64];
        let mut n_in = 0usize;
        if fixed {
            let parts = rng.range(1, 3);
            for _ in 0..parts {
                let k = rng.below(5);
                p.push(k);
                n_in += k as usize;
            }
            p.push(SQUEEZE);
        } else {
            let steps = rng.range(1, 8);
            for _ in 0..steps {
                if rng.chance(1, 2) {
                    p.push(SQUEEZE);
                } else {
                    // empty absorbs are legal
                    let k = *rng.pick(&[0u64, 0, 1, 2, 3, 4, 5]);
                    p.push(k);
                    n_in += k as usize;
                }
            }
            p.push(SQUEEZE);
        }
        let ins: Vec<Fe> = (0..n_in).map(|_| Fe(draw_fq(rng))).collect();
        OpCase { op: "sp.poseidon".into(), p, big: vec![], ins, bins: vec![], cols: 4, mbl: 8 }
    }

    #[derive(Clone)]
    pub struct SpCircuit {
        pub case: OpCase,
        pub known: bool,
    }

    impl Circuit<F> for SpCircuit {
        type Config = <PoseidonChip<F> as FromScratch<F>>::Config;
        type FloorPlanner = SimpleFloorPlanner;
        type Params = ();
        fn without_witnesses(&self) -> Self {
            SpCircuit { case: self.case.clone(), known: false }
        }
        fn configure(meta: &mut ConstraintSystem<F>) -> Self::Config {
            let committed = meta.instance_column();
            let plain = meta.instance_column();
            PoseidonChip::configure_from_scratch(meta, &[committed, plain])
        }
        fn synthesize(&self, config: Self::Config, mut l: impl Layouter<F>) -> Result<(), Error> {
            let native = NativeChip::new_from_scratch(&config.0);
            let chip = PoseidonChip::new_from_scratch(&config);
            let vals: Vec<Value<F>> = self.case.ins.iter().map(|x| if self.known { Value::known(x.0) } else { Value::unknown() }).collect();
            let xs: Vec<AssignedNative<F>> = native.assign_many(&mut l, &vals)?;
            for x in &xs {
                native.constrain_as_public_input(&mut l, x)?;
            }
            let fixed = self.case.p[0] == 1;
            let mut st = chip.init(&mut l, if fixed { Some(xs.len()) } else { None })?;
            let mut pos = 0;
            for step in &self.case.p[1..] {
                if *step == SQUEEZE {
                    let o = chip.squeeze(&mut l, &mut st)?;
                    native.constrain_as_public_input(&mut l, &o)?;
                } else {
                    let k = *step as usize;
                    chip.absorb(&mut l, &mut st, &xs[pos..pos + k])?;
                    pos += k;
                }
            }
            native.load_from_scratch(&mut l)?;
            chip.load_from_scratch(&mut l)
        }
    }

    /// The sponge over the textbook permutation: rate 2, capacity element =
    /// declared length (2^64 in variable-length mode), the number of queued
    /// elements appended as padding in variable-length mode, outputs read from
    /// the rate part in turn until the next absorb.
    fn model(fixed: bool, steps: &[u64], ins: &[Fq]) -> Vec<Fq> {
        let mut reg = [Fq::ZERO, Fq::ZERO, if fixed { Fq::from(ins.len() as u64) } else { Fq::from(1u64 << 32) * Fq::from(1u64 << 32) }];
        let mut queue: Vec<Fq> = vec![];
        let mut sq = 0usize;
        let mut pos = 0;
        let mut out = vec![];
        for s in steps {
            if *s == SQUEEZE {
                if sq > 0 {
                    out.push(reg[sq % 2]);
                    sq = (sq + 1) % 2;
                    continue;
                }
                if !fixed {
                    let pad = Fq::from(queue.len() as u64);
                    queue.push(pad);
                }
                for chunk in queue.chunks(2) {
                    for (e, v) in reg.iter_mut().zip(chunk) {
                        *e += v;
                    }
                    textbook_permutation(&mut reg);
                }
                queue.clear();
                sq = 1;
                out.push(reg[0]);
            } else {
                let k = *s as usize;
                queue.extend(&ins[pos..pos + k]);
                pos += k;
                sq = 0;
            }
        }
        out
    }

    pub fn check(c: &OpCase, publics: &[Fq]) -> Result<bool, String> {
        let n = c.ins.len();
        if publics.len() < n {
            return Err("too few public values".into());
        }
        let (ins, outs) = publics.split_at(n);
        let fixed = c.p[0] == 1;
        let expect = model(fixed, &c.p[1..], ins);
        if outs != expect.as_slice() {
            return Err(format!("sponge sequence {:?}: the circuit publishes other outputs than the sponge over the textbook permutation (first difference at {:?})", &c.p[1..], outs.iter().zip(&expect).position(|(a, b)| a != b)));
        }
        // the off-circuit sponge on the same sequence
        let mut st = <PoseidonChip<F> as SpongeCPU<F, F>>::init(if fixed { Some(n) } else { None });
        let mut pos = 0;
        let mut cpu = vec![];
        for s in &c.p[1..] {
            if *s == SQUEEZE {
                cpu.push(<PoseidonChip<F> as SpongeCPU<F, F>>::squeeze(&mut st));
            } else {
                let k = *s as usize;
                <PoseidonChip<F> as SpongeCPU<F, F>>::absorb(&mut st, &ins[pos..pos + k]);
                pos += k;
            }
        }
        if cpu != expect {
            return Err(format!("sponge sequence {:?}: the off-circuit sponge gives other outputs than the circuit and the model (first difference at {:?})", &c.p[1..], cpu.iter().zip(&expect).position(|(a, b)| a != b)));
        }
        Ok(true)
    }
}

// ------------------------------------------------------------------ "vh." family: variable-length SHA-256

/// p = [len, filler]; ins = the message bytes. The vector's cells are not
/// reachable from outside the crate, so only the digest is published: honest
/// executions are judged (completeness and the digest's value); the Byzantine
/// stage edits only cells that hold the filler byte, which is chosen above the
/// capacity and outside the message: those are the unused cells of the buffer
/// (or derived cells, which the constraints bind), so the message is unchanged
/// and an accepted execution must still publish its digest.
pub mod varsha {
    use midnight_circuits::{
        field::{decomposition::chip::P2RDecompositionChip, AssignedNative, NativeChip, NativeGadget},
        hash::sha256::VarLenSha256Gadget,
        instructions::{hash::VarHashInstructions, vector::VectorInstructions, PublicInputInstructions},
        testing_utils::FromScratch,
        types::AssignedByte,
        vec::{vector_gadget::VectorGadget, AssignedVector},
    };
    use midnight_curves::Fq;
    use midnight_proofs::{
        circuit::{Layouter, SimpleFloorPlanner, Value},
        plonk::{Circuit, ConstraintSystem, Error},
    };
    use sha2::Digest;

    use crate::{core::prng::Prng, ops::OpCase, util::Fe};

    type F = Fq;
    type NG = NativeGadget<F, P2RDecompositionChip<F>, NativeChip<F>>;
    pub const M: usize = 128;

    pub fn gen_case(rng: &mut Prng) -> OpCase {
        // every block-boundary class of the padding logic, then uniform
        let len = match rng.below(3) {
            0 => *rng.pick(&[0usize, 1, 55, 56, 57, 62, 63, 64, 65, 119, 120, 121, 126, 127, 128]),
            _ => rng.usize(M + 1),
        };
        let mode = rng.below(3);
        // the unused part of the buffer: the default filler (0), or a chosen byte above the
        // capacity (so that it is never the length) that does not occur in the message -
        // the cells holding it are then exactly the unused ones, which the Byzantine stage edits
        let filler = if rng.chance(1, 3) { 0u64 } else { *rng.pick(&[0x80u64, 0xff, 0xa7, 0x81, 0xc3]) };
        let ins: Vec<Fe> = (0..len)
            .map(|_| {
                let mut b = match mode {
                    0 => 0u64,
                    1 => 0xfe,
                    _ => rng.below(256),
                };
                if filler != 0 && b == filler {
                    b ^= 1;
                }
                Fe(Fq::from(b))
            })
            .collect();
        OpCase { op: "vh.sha256".into(), p: vec![len as u64, filler], big: vec![], ins, bins: vec![], cols: 4, mbl: 8 }
    }

    #[derive(Clone)]
    pub struct VarShaCircuit {
        pub case: OpCase,
        pub known: bool,
    }

    impl Circuit<F> for VarShaCircuit {
        type Config = (<VarLenSha256Gadget<F> as FromScratch<F>>::Config, <VectorGadget<F> as FromScratch<F>>::Config);
        type FloorPlanner = SimpleFloorPlanner;
        type Params = ();
        fn without_witnesses(&self) -> Self {
            VarShaCircuit { case: self.case.clone(), known: false }
        }
        fn configure(meta: &mut ConstraintSystem<F>) -> Self::Config {
            let committed = meta.instance_column();
            let plain = meta.instance_column();
            let cols = [committed, plain];
            (VarLenSha256Gadget::configure_from_scratch(meta, &cols), VectorGadget::configure_from_scratch(meta, &cols))
        }
        fn synthesize(&self, config: Self::Config, mut l: impl Layouter<F>) -> Result<(), Error> {
            let chip = VarLenSha256Gadget::<F>::new_from_scratch(&config.0);
            let ng = NG::new_from_scratch(&config.1);
            let vg = VectorGadget::new(&ng);
            let data: Vec<u8> = self.case.ins.iter().map(|x| x.0.to_bytes_le()[0]).collect();
            let filler = self.case.p.get(1).copied().filter(|f| *f != 0).map(|f| f as u8);
            let input: AssignedVector<F, AssignedByte<F>, M, 64> = vg.assign_with_filler(&mut l, if self.known { Value::known(data) } else { Value::unknown() }, filler)?;
            let out: [AssignedByte<F>; 32] = chip.varhash(&mut l, &input)?;
            for b in &out {
                let n: AssignedNative<F> = b.into();
                ng.constrain_as_public_input(&mut l, &n)?;
            }
            chip.load_from_scratch(&mut l)?;
            ng.load_from_scratch(&mut l)
        }
    }

    pub fn check(c: &OpCase, publics: &[Fq]) -> Result<bool, String> {
        let data: Vec<u8> = c.ins.iter().map(|x| x.0.to_bytes_le()[0]).collect();
        let d: [u8; 32] = sha2::Sha256::digest(&data).into();
        let e: Vec<Fq> = d.iter().map(|b| Fq::from(*b as u64)).collect();
        if publics == e.as_slice() {
            Ok(true)
        } else {
            Err(format!("variable-length SHA-256 of a {}-byte message (capacity {M}): the circuit publishes another digest than the reference function", data.len()))
        }
    }
}

// ------------------------------------------------------------------ "hr." family: RIPEMD-160

/// p = [len]; ins = the message bytes. RIPEMD-160 is not reachable through
/// `ZkStdLib`; the circuit is built on `RipeMD160Chip` directly. Input bytes
/// and digest are published, so Byzantine executions are judged too.
pub mod rip {
    use midnight_circuits::{
        field::{decomposition::chip::P2RDecompositionChip, AssignedNative, NativeChip, NativeGadget},
        hash::ripemd160::RipeMD160Chip,
        instructions::{hash::HashInstructions, AssignmentInstructions, PublicInputInstructions},
        testing_utils::FromScratch,
        types::AssignedByte,
    };
    use midnight_curves::Fq;
    use midnight_proofs::{
        circuit::{Layouter, SimpleFloorPlanner, Value},
        plonk::{Circuit, ConstraintSystem, Error},
    };
    use ripemd::Digest;

    use crate::{core::prng::Prng, ops::OpCase, util::{fq_to_big, Fe}};

    type F = Fq;
    type NG = NativeGadget<F, P2RDecompositionChip<F>, NativeChip<F>>;

    pub fn gen_case(rng: &mut Prng) -> OpCase {
        // every padding-boundary class of the 64-byte block, then uniform up to two blocks
        let len = match rng.below(4) {
            0 => rng.usize(121),
            _ => *rng.pick(&[0usize, 1, 2, 54, 55, 56, 57, 63, 64, 65, 100, 118, 119, 120]),
        };
        let mode = rng.below(4);
        let ins: Vec<Fe> = (0..len).map(|_| Fe(Fq::from(match mode { 0 => 0u64, 1 => 0xff, _ => rng.below(256) }))).collect();
        OpCase { op: "hr.ripemd160".into(), p: vec![len as u64], big: vec![], ins, bins: vec![], cols: 4, mbl: 8 }
    }

    #[derive(Clone)]
    pub struct RipCircuit {
        pub case: OpCase,
        pub known: bool,
    }

    impl Circuit<F> for RipCircuit {
        type Config = <RipeMD160Chip<F> as FromScratch<F>>::Config;
        type FloorPlanner = SimpleFloorPlanner;
        type Params = ();
        fn without_witnesses(&self) -> Self {
            RipCircuit { case: self.case.clone(), known: false }
        }
        fn configure(meta: &mut ConstraintSystem<F>) -> Self::Config {
            let committed = meta.instance_column();
            let plain = meta.instance_column();
            RipeMD160Chip::configure_from_scratch(meta, &[committed, plain])
        }
        fn synthesize(&self, config: Self::Config, mut l: impl Layouter<F>) -> Result<(), Error> {
            let chip = RipeMD160Chip::<F>::new_from_scratch(&config);
            let ng = NG::new_from_scratch(&config.1);
            let mut bytes: Vec<AssignedByte<F>> = vec![];
            for x in &self.case.ins {
                let v = if self.known { Value::known(x.0.to_bytes_le()[0]) } else { Value::unknown() };
                let b: AssignedByte<F> = ng.assign(&mut l, v)?;
                let n: AssignedNative<F> = (&b).into();
                ng.constrain_as_public_input(&mut l, &n)?;
                bytes.push(b);
            }
            let out: [AssignedByte<F>; 20] = chip.hash(&mut l, &bytes)?;
            for b in &out {
                let n: AssignedNative<F> = b.into();
                ng.constrain_as_public_input(&mut l, &n)?;
            }
            chip.load_from_scratch(&mut l)
        }
    }

    pub fn check(c: &OpCase, publics: &[Fq]) -> Result<bool, String> {
        let n = c.p[0] as usize;
        if publics.len() != n + 20 {
            return Err(format!("{} public values, {} expected", publics.len(), n + 20));
        }
        let mut msg = vec![];
        for b in &publics[..n] {
            if fq_to_big(b).bits() > 8 {
                return Ok(false); // a non-byte input must be unsatisfiable
            }
            msg.push(b.to_bytes_le()[0]);
        }
        let d: [u8; 20] = ripemd::Ripemd160::digest(&msg).into();
        let e: Vec<Fq> = d.iter().map(|b| Fq::from(*b as u64)).collect();
        if publics[n..] == e[..] {
            Ok(true)
        } else {
            Err(format!("RIPEMD-160 of a {n}-byte message: the circuit publishes another digest than the reference function"))
        }
    }
}

// ------------------------------------------------------------------ "vp." family: variable-length Poseidon

/// p = [len, filler index]; ins = the message (field elements), then the
/// filler value. Only the digest is published (the vector is crate-private).
/// As for `vh.`, the Byzantine stage edits only cells holding the filler
/// value, a random field element, so the message is unchanged.
pub mod varpos {
    use midnight_circuits::{
        field::{decomposition::chip::P2RDecompositionChip, AssignedNative, NativeChip, NativeGadget},
        hash::poseidon::VarLenPoseidonGadget,
        instructions::{hash::VarHashInstructions, vector::VectorInstructions, PublicInputInstructions},
        testing_utils::FromScratch,
        vec::{vector_gadget::VectorGadget, AssignedVector},
    };
    use midnight_curves::Fq;
    use midnight_proofs::{
        circuit::{Layouter, SimpleFloorPlanner, Value},
        plonk::{Circuit, ConstraintSystem, Error},
    };

    use crate::{
        core::prng::Prng,
        ops::OpCase,
        util::{draw_fq, uniform_fq, Fe},
    };

    type F = Fq;
    type NG = NativeGadget<F, P2RDecompositionChip<F>, NativeChip<F>>;
    pub const M: usize = 8;

    pub fn gen_case(rng: &mut Prng) -> OpCase {
        let len = rng.usize(M + 1);
        // p[1] = 0: the default filler; 1: a chosen one (the last element of `ins`)
        let chosen = rng.chance(2, 3);
        let mut ins: Vec<Fe> = (0..len).map(|_| Fe(draw_fq(rng))).collect();
        ins.push(Fe(if chosen { uniform_fq(rng) } else { Fq::from(0) }));
        OpCase { op: "vp.poseidon".into(), p: vec![len as u64, chosen as u64], big: vec![], ins, bins: vec![], cols: 4, mbl: 8 }
    }

    #[derive(Clone)]
    pub struct VarPosCircuit {
        pub case: OpCase,
        pub known: bool,
    }

    impl Circuit<F> for VarPosCircuit {
        type Config = (<VarLenPoseidonGadget<F> as FromScratch<F>>::Config, <VectorGadget<F> as FromScratch<F>>::Config);
        type FloorPlanner = SimpleFloorPlanner;
        type Params = ();
        fn without_witnesses(&self) -> Self {
            VarPosCircuit { case: self.case.clone(), known: false }
        }
        fn configure(meta: &mut ConstraintSystem<F>) -> Self::Config {
            let committed = meta.instance_column();
            let plain = meta.instance_column();
            let cols = [committed, plain];
            (VarLenPoseidonGadget::configure_from_scratch(meta, &cols), VectorGadget::configure_from_scratch(meta, &cols))
        }
        fn synthesize(&self, config: Self::Config, mut l: impl Layouter<F>) -> Result<(), Error> {
            let chip = VarLenPoseidonGadget::<F>::new_from_scratch(&config.0);
            let ng = NG::new_from_scratch(&config.1);
            let vg = VectorGadget::new(&ng);
            let n = self.case.p[0] as usize;
            let data: Vec<F> = self.case.ins[..n].iter().map(|x| x.0).collect();
            let filler = (self.case.p[1] == 1).then(|| self.case.ins[n].0);
            let input: AssignedVector<F, AssignedNative<F>, M, 2> = vg.assign_with_filler(&mut l, if self.known { Value::known(data) } else { Value::unknown() }, filler)?;
            let out: AssignedNative<F> = chip.varhash(&mut l, &input)?;
            ng.constrain_as_public_input(&mut l, &out)?;
            chip.load_from_scratch(&mut l)?;
            ng.load_from_scratch(&mut l)
        }
    }

    pub fn check(c: &OpCase, publics: &[Fq]) -> Result<bool, String> {
        let n = c.p[0] as usize;
        let data: Vec<F> = c.ins[..n].iter().map(|x| x.0).collect();
        let e = super::textbook_poseidon(&data);
        if publics == [e] {
            Ok(true)
        } else {
            Err(format!("variable-length Poseidon of {n} elements (capacity {M}, {} filler): the circuit publishes another digest than the fixed-length function over the textbook permutation", if c.p[1] == 1 { "chosen" } else { "default" }))
        }
    }
}
