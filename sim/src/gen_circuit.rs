//! `GenCircuit`: a PRNG-generated family of PLONK circuits over the native
//! field, covering custom gates (random degree / rotations, multiplicative and
//! additive selectors), lookups (`lookup`, `lookup_any`), copy constraints
//! (advice-advice, advice-instance, advice-constant, advice-fixed), 1..3
//! phases with challenges, blinded / unblinded advice, instance columns
//! (plain or committed), both floor planners.
//!
//! The *structure* (`Spec`) is separated from the *assignment* (`Witness`):
//! the witness is an explicit table of values plus a list of Byzantine edits
//! (`faults`) that are applied at assignment time without being propagated to
//! dependent cells, so that exactly one cell differs from the honest
//! assignment.
use std::{collections::BTreeMap, marker::PhantomData};

use ff::Field;
use midnight_curves::Fq;
use midnight_proofs::{
    circuit::{Layouter, Region, Value},
    plonk::{
        Advice, Challenge, Circuit, Column, ConstraintSystem, Constraints, Error, Expression,
        FirstPhase, Fixed, FloorPlanner, Instance, SecondPhase, Selector, TableColumn, ThirdPhase,
    },
    poly::Rotation,
};
use serde::{Deserialize, Serialize};

use crate::{
    core::prng::Prng,
    util::{draw_fq, Fe},
};

// ------------------------------------------------------------------ spec

#[derive(Clone, Debug, Serialize, Deserialize, PartialEq)]
pub struct AdvCol {
    pub phase: u8,
    pub unblinded: bool,
    pub equality: bool,
}

#[derive(Clone, Copy, Debug, Serialize, Deserialize, PartialEq, Eq, PartialOrd, Ord)]
pub enum Kind {
    A,
    F,
    I,
}

#[derive(Clone, Debug, Serialize, Deserialize, PartialEq, Eq, PartialOrd, Ord)]
pub struct Cref {
    pub kind: Kind,
    pub col: usize,
    pub rot: i32,
}

#[derive(Clone, Debug, Serialize, Deserialize, PartialEq)]
pub struct Term {
    pub coeff: i64,
    /// indices into `GateSpec::cells` (repeats = powers)
    pub cells: Vec<usize>,
    /// challenge indices
    pub chals: Vec<usize>,
}

#[derive(Clone, Debug, Serialize, Deserialize, PartialEq)]
pub struct Cons {
    /// index into `cells` of the advice cell solved for
    pub out: usize,
    pub terms: Vec<Term>,
}

#[derive(Clone, Debug, Serialize, Deserialize, PartialEq)]
pub struct GateSpec {
    pub complex_sel: bool,
    pub additive: bool,
    pub cells: Vec<Cref>,
    /// polynomial j: sum(terms) - cells[out]
    pub constraints: Vec<Cons>,
}

#[derive(Clone, Debug, Serialize, Deserialize, PartialEq)]
pub struct LookupSpec {
    /// `lookup_any` over (fixed tag column, advice column) instead of table columns
    pub any: bool,
    /// rows of the table; row 0 is all zeros; every row has `input_cols.len()` entries
    pub table: Vec<Vec<Fe>>,
    /// advice column of each input slot
    pub input_cols: Vec<usize>,
    /// `Some(r)`: a disabled input takes the value of table row r (the input
    /// expression is q*a + (1-q)*table[r]) and the table need not contain the
    /// all-zero tuple; `None`: a disabled input is zero and row 0 is all zeros
    #[serde(default)]
    pub default_row: Option<usize>,
}

#[derive(Clone, Debug, Serialize, Deserialize, PartialEq)]
pub struct GateUse {
    pub gate: usize,
    /// placed in the main region (absolute rows known: instance queries allowed)
    pub main: bool,
    /// values of the fixed cells of the gate, in the order of `cells`
    pub fixed: Vec<Fe>,
}

#[derive(Clone, Debug, Serialize, Deserialize, PartialEq)]
pub enum CopySpec {
    /// two fresh cells
    AdvAdv { a: usize, b: usize },
    /// fresh cell in column `b` copies cell `cell` of gate use `gu`
    GateCell { gu: usize, cell: usize, b: usize },
    /// fresh cell bound to an instance row
    AdvInst { a: usize, inst: usize, row: usize },
    /// fresh cell bound to a constant (`assign_advice_from_constant` or `constrain_constant`)
    AdvConst { a: usize, value: Fe, via_assign: bool },
    /// fresh advice cell equal to a fresh fixed cell
    AdvFixed { a: usize, f: usize, value: Fe },
    /// an equality class of 3..5 fresh cells (cell i in advice column `cols[i]`), declared by the
    /// sequence of `constrain_equal(cells[x], cells[y])` calls `eqs` - a spanning set in a drawn
    /// order and orientation plus redundant, cycle-closing equalities
    Class { cols: Vec<usize>, eqs: Vec<(usize, usize)> },
}

#[derive(Clone, Debug, Default, Serialize, Deserialize, PartialEq)]
pub struct Spec {
    pub k: u32,
    pub v1: bool,
    pub advice: Vec<AdvCol>,
    pub n_fixed: usize,
    pub fixed_equality: Vec<bool>,
    pub n_instance: usize,
    /// challenge i is usable after phase challenges[i]
    pub challenges: Vec<u8>,
    pub gates: Vec<GateSpec>,
    pub lookups: Vec<LookupSpec>,
    pub gate_uses: Vec<GateUse>,
    /// lookup index of each lookup use
    pub lookup_uses: Vec<usize>,
    pub copies: Vec<CopySpec>,
    /// advice column of each unused (unconstrained) cell
    pub unused: Vec<usize>,
    pub min_degree: Option<usize>,
}

#[derive(Clone, Debug, Serialize, Deserialize, PartialEq)]
pub enum FaultKind {
    Add(Fe),
    Set(Fe),
}

/// A Byzantine edit of one assigned cell. `site` names the cell:
/// `g<use>.<cell>` gate cell, `l<use>.<slot>` lookup input, `c<copy>.a|b`
/// copy cell, `u<i>` unused cell, `t<lookup>.<row>.<slot>` dynamic-table cell.
#[derive(Clone, Debug, Serialize, Deserialize, PartialEq)]
pub struct CellFault {
    pub site: String,
    pub kind: FaultKind,
}

#[derive(Clone, Debug, Serialize, Deserialize, PartialEq)]
pub struct Witness {
    pub instance: Vec<Vec<Fe>>,
    /// per gate use: a value for every cell of the gate (ignored for fixed,
    /// instance and `out` cells)
    pub gate_inputs: Vec<Vec<Fe>>,
    /// per lookup use: row of the table
    pub lookup_rows: Vec<usize>,
    /// per copy: the value (ignored where the value is determined)
    pub copy_vals: Vec<Fe>,
    pub unused_vals: Vec<Fe>,
    pub faults: Vec<CellFault>,
    /// Byzantine edits of the public input: (column, row, edit). Applied to
    /// the instance every party receives, but not to the values the witness
    /// generator computed from the original instance.
    #[serde(default)]
    pub inst_faults: Vec<(usize, usize, FaultKind)>,
}

impl Witness {
    /// The instance columns as delivered to prover, verifier and checker.
    pub fn effective_instance(&self) -> Vec<Vec<Fq>> {
        let mut cols: Vec<Vec<Fq>> =
            self.instance.iter().map(|c| c.iter().map(|x| x.0).collect()).collect();
        for (c, r, k) in &self.inst_faults {
            if let Some(v) = cols.get_mut(*c).and_then(|col| col.get_mut(*r)) {
                match k {
                    FaultKind::Add(d) => *v += d.0,
                    FaultKind::Set(x) => *v = x.0,
                }
            }
        }
        cols
    }
}

// ------------------------------------------------------------------ circuit

#[derive(Clone, Debug)]
pub struct GenConfig {
    advice: Vec<Column<Advice>>,
    fixed: Vec<Column<Fixed>>,
    instance: Vec<Column<Instance>>,
    challenges: Vec<Challenge>,
    gate_sel: Vec<Selector>,
    lookup_sel: Vec<Selector>,
    tables: Vec<Vec<TableColumn>>,
    /// for `any` lookups: (fixed tag column, advice value columns)
    dyn_tables: Vec<Option<(Column<Fixed>, Vec<Column<Advice>>)>>,
}

#[derive(Clone, Debug)]
pub struct GenCircuit<P> {
    pub spec: Spec,
    pub witness: Option<Witness>,
    pub _p: PhantomData<P>,
}

impl<P> GenCircuit<P> {
    pub fn new(spec: Spec, witness: Option<Witness>) -> Self {
        GenCircuit { spec, witness, _p: PhantomData }
    }
}

fn adv_col(meta: &mut ConstraintSystem<Fq>, c: &AdvCol) -> Column<Advice> {
    match (c.phase, c.unblinded) {
        (0, false) => meta.advice_column_in(FirstPhase),
        (0, true) => meta.unblinded_advice_column_in(FirstPhase),
        (1, false) => meta.advice_column_in(SecondPhase),
        (1, true) => meta.unblinded_advice_column_in(SecondPhase),
        (_, false) => meta.advice_column_in(ThirdPhase),
        (_, true) => meta.unblinded_advice_column_in(ThirdPhase),
    }
}

fn coeff(c: i64) -> Fq {
    if c >= 0 {
        Fq::from(c as u64)
    } else {
        -Fq::from((-c) as u64)
    }
}

pub fn configure_spec(meta: &mut ConstraintSystem<Fq>, spec: &Spec) -> GenConfig {
    let advice: Vec<_> = spec.advice.iter().map(|c| adv_col(meta, c)).collect();
    for (c, s) in advice.iter().zip(&spec.advice) {
        if s.equality {
            meta.enable_equality(*c);
        }
    }
    let fixed: Vec<_> = (0..spec.n_fixed).map(|_| meta.fixed_column()).collect();
    for (c, e) in fixed.iter().zip(&spec.fixed_equality) {
        if *e {
            meta.enable_equality(*c);
        }
    }
    let instance: Vec<_> = (0..spec.n_instance).map(|_| meta.instance_column()).collect();
    let needs_const = spec.copies.iter().any(|c| matches!(c, CopySpec::AdvConst { .. }));
    if needs_const {
        // a dedicated column: the V1 planner places constants only in rows the
        // constants column has free below the circuit's height
        let cc = meta.fixed_column();
        meta.enable_constant(cc);
    }
    for c in &spec.copies {
        if let CopySpec::AdvInst { inst, .. } = c {
            meta.enable_equality(instance[*inst]);
        }
    }
    let challenges: Vec<_> = spec
        .challenges
        .iter()
        .map(|p| match p {
            0 => meta.challenge_usable_after(FirstPhase),
            1 => meta.challenge_usable_after(SecondPhase),
            _ => meta.challenge_usable_after(ThirdPhase),
        })
        .collect();
    if let Some(d) = spec.min_degree {
        meta.set_minimum_degree(d);
    }

    let mut gate_sel = vec![];
    for g in &spec.gates {
        let sel = if g.complex_sel || g.additive { meta.complex_selector() } else { meta.selector() };
        gate_sel.push(sel);
        let (advice, fixed, instance, challenges) = (&advice, &fixed, &instance, &challenges);
        meta.create_gate("gen", |m| {
            let cells: Vec<Expression<Fq>> = g
                .cells
                .iter()
                .map(|c| match c.kind {
                    Kind::A => m.query_advice(advice[c.col], Rotation(c.rot)),
                    Kind::F => m.query_fixed(fixed[c.col], Rotation(c.rot)),
                    Kind::I => m.query_instance(instance[c.col], Rotation(c.rot)),
                })
                .collect();
            let polys: Vec<Expression<Fq>> = g
                .constraints
                .iter()
                .map(|cons| {
                    let mut acc = Expression::Constant(Fq::ZERO);
                    for t in &cons.terms {
                        let mut e = Expression::Constant(coeff(t.coeff));
                        for ci in &t.cells {
                            e = e * cells[*ci].clone();
                        }
                        for ch in &t.chals {
                            e = e * challenges[*ch].expr();
                        }
                        acc = acc + e;
                    }
                    acc - cells[cons.out].clone()
                })
                .collect();
            if g.additive {
                Constraints::with_additive_selector(sel, polys)
            } else {
                Constraints::with_selector(sel, polys)
            }
        });
    }

    let mut lookup_sel = vec![];
    let mut tables = vec![];
    let mut dyn_tables = vec![];
    for l in &spec.lookups {
        let sel = meta.complex_selector();
        lookup_sel.push(sel);
        let w = l.input_cols.len();
        if l.any {
            let tag = meta.fixed_column();
            let tcols: Vec<_> = (0..w).map(|_| meta.advice_column()).collect();
            let advice = &advice;
            let tc = tcols.clone();
            meta.lookup_any("gen-any", |m| {
                let q = m.query_selector(sel);
                let tagq = m.query_fixed(tag, Rotation::cur());
                let mut v = vec![(q.clone(), tagq)];
                for (j, ic) in l.input_cols.iter().enumerate() {
                    let a = m.query_advice(advice[*ic], Rotation::cur());
                    let t = m.query_advice(tc[j], Rotation::cur());
                    v.push((q.clone() * a, t));
                }
                v
            });
            tables.push(vec![]);
            dyn_tables.push(Some((tag, tcols)));
        } else {
            let tcols: Vec<_> = (0..w).map(|_| meta.lookup_table_column()).collect();
            let advice = &advice;
            let tc = tcols.clone();
            meta.lookup("gen", |m| {
                let q = m.query_selector(sel);
                l.input_cols
                    .iter()
                    .enumerate()
                    .map(|(j, ic)| {
                        let a = m.query_advice(advice[*ic], Rotation::cur());
                        match l.default_row {
                            None => (q.clone() * a, tc[j]),
                            Some(r) => (
                                q.clone() * a
                                    + (Expression::Constant(Fq::ONE) - q.clone())
                                        * Expression::Constant(l.table[r][j].0),
                                tc[j],
                            ),
                        }
                    })
                    .collect()
            });
            tables.push(tcols);
            dyn_tables.push(None);
        }
    }

    GenConfig { advice, fixed, instance, challenges, gate_sel, lookup_sel, tables, dyn_tables }
}

/// rows a gate use occupies: offsets 0..GATE_H, selector at GATE_C
pub const GATE_H: usize = 5;
pub const GATE_C: usize = 2;

struct Ctx<'a> {
    spec: &'a Spec,
    w: Option<&'a Witness>,
    faults: BTreeMap<&'a str, &'a FaultKind>,
    chal: Vec<Value<Fq>>,
}

impl Ctx<'_> {
    fn apply(&self, site: &str, v: Value<Fq>) -> Value<Fq> {
        match self.faults.get(site) {
            None => v,
            Some(FaultKind::Add(d)) => v.map(|x| x + d.0),
            Some(FaultKind::Set(s)) => v.map(|_| s.0),
        }
    }

    fn known(&self, f: impl FnOnce(&Witness) -> Fq) -> Value<Fq> {
        match self.w {
            Some(w) => Value::known(f(w)),
            None => Value::unknown(),
        }
    }

    /// Honest value of cell `j` of gate use `u` (main-region uses sit at
    /// absolute row `abs`).
    fn gate_cell(&self, u: usize, j: usize) -> Value<Fq> {
        let gu = &self.spec.gate_uses[u];
        let g = &self.spec.gates[gu.gate];
        let c = &g.cells[j];
        match c.kind {
            Kind::F => Value::known(gu.fixed[j].0),
            Kind::I => {
                let abs = self.main_row(u);
                self.known(|w| {
                    let row = abs as i64 + GATE_C as i64 + c.rot as i64;
                    w.instance[c.col].get(row as usize).map(|x| x.0).unwrap_or(Fq::ZERO)
                })
            }
            Kind::A => {
                if let Some(cons) = g.constraints.iter().find(|cons| cons.out == j) {
                    let mut acc = Value::known(Fq::ZERO);
                    for t in &cons.terms {
                        let mut e = Value::known(coeff(t.coeff));
                        for ci in &t.cells {
                            e = e * self.gate_cell(u, *ci);
                        }
                        for ch in &t.chals {
                            e = e * self.chal[*ch];
                        }
                        acc = acc + e;
                    }
                    acc
                } else {
                    self.known(|w| w.gate_inputs[u][j].0)
                }
            }
        }
    }

    /// absolute row of the start of main-region gate use `u`
    fn main_row(&self, u: usize) -> usize {
        let pos = self.spec.gate_uses[..u].iter().filter(|g| g.main).count();
        pos * GATE_H
    }
}

fn assign_gate_use(
    ctx: &Ctx<'_>,
    cfg: &GenConfig,
    region: &mut Region<'_, Fq>,
    u: usize,
    base: usize,
) -> Result<Vec<Option<midnight_proofs::circuit::Cell>>, Error> {
    let gu = &ctx.spec.gate_uses[u];
    let g = &ctx.spec.gates[gu.gate];
    cfg.gate_sel[gu.gate].enable(region, base + GATE_C)?;
    let mut cells = vec![];
    for (j, c) in g.cells.iter().enumerate() {
        let off = (base as i64 + GATE_C as i64 + c.rot as i64) as usize;
        match c.kind {
            Kind::A => {
                let v = ctx.apply(&format!("g{u}.{j}"), ctx.gate_cell(u, j));
                let ac = region.assign_advice(|| "g", cfg.advice[c.col], off, || v)?;
                cells.push(Some(ac.cell()));
            }
            Kind::F => {
                region.assign_fixed(|| "gf", cfg.fixed[c.col], off, || Value::known(gu.fixed[j].0))?;
                cells.push(None);
            }
            Kind::I => cells.push(None),
        }
    }
    Ok(cells)
}

impl<P: FloorPlanner> Circuit<Fq> for GenCircuit<P> {
    type Config = GenConfig;
    type FloorPlanner = P;
    type Params = Spec;

    fn without_witnesses(&self) -> Self {
        GenCircuit::new(self.spec.clone(), None)
    }
    fn params(&self) -> Spec {
        self.spec.clone()
    }
    fn configure_with_params(meta: &mut ConstraintSystem<Fq>, spec: Spec) -> GenConfig {
        configure_spec(meta, &spec)
    }
    fn configure(_meta: &mut ConstraintSystem<Fq>) -> GenConfig {
        unreachable!("GenCircuit is configured with params")
    }

    fn synthesize(&self, cfg: GenConfig, mut layouter: impl Layouter<Fq>) -> Result<(), Error> {
        let spec = &self.spec;
        let ctx = Ctx {
            spec,
            w: self.witness.as_ref(),
            faults: self
                .witness
                .iter()
                .flat_map(|w| w.faults.iter().map(|f| (f.site.as_str(), &f.kind)))
                .collect(),
            chal: cfg.challenges.iter().map(|c| layouter.get_challenge(*c)).collect(),
        };

        // gate cells that copies refer to
        let mut gate_cells: BTreeMap<usize, Vec<Option<midnight_proofs::circuit::Cell>>> =
            BTreeMap::new();

        // 1. main region (first region: starts at absolute row 0)
        let main: Vec<usize> = (0..spec.gate_uses.len()).filter(|u| spec.gate_uses[*u].main).collect();
        if !main.is_empty() {
            let r = layouter.assign_region(
                || "main",
                |mut region| {
                    let mut out = vec![];
                    for (pos, u) in main.iter().enumerate() {
                        out.push((*u, assign_gate_use(&ctx, &cfg, &mut region, *u, pos * GATE_H)?));
                    }
                    Ok(out)
                },
            )?;
            gate_cells.extend(r);
        }
        // 2. other gate uses, one region each
        for u in (0..spec.gate_uses.len()).filter(|u| !spec.gate_uses[*u].main) {
            let r = layouter.assign_region(
                || "use",
                |mut region| assign_gate_use(&ctx, &cfg, &mut region, u, 0),
            )?;
            gate_cells.insert(u, r);
        }
        // 3. tables
        for (li, l) in spec.lookups.iter().enumerate() {
            if let Some((tag, tcols)) = &cfg.dyn_tables[li] {
                layouter.assign_region(
                    || "dyn-table",
                    |mut region| {
                        // row 0 of the spec table is the all-zero row (tag 0):
                        // left to an explicitly assigned zero row
                        for (r, row) in l.table.iter().enumerate() {
                            // every explicit row carries tag 1 (rows outside the
                            // region are all-zero and serve disabled inputs)
                            let tagv = Fq::ONE;
                            region.assign_fixed(|| "tag", *tag, r, || Value::known(tagv))?;
                            for (j, v) in row.iter().enumerate() {
                                let val = ctx.apply(
                                    &format!("t{li}.{r}.{j}"),
                                    ctx.known(|_| v.0),
                                );
                                region.assign_advice(|| "tv", tcols[j], r, || val)?;
                            }
                        }
                        Ok(())
                    },
                )?;
            } else {
                layouter.assign_table(
                    || "table",
                    |mut table| {
                        for (r, row) in l.table.iter().enumerate() {
                            for (j, v) in row.iter().enumerate() {
                                table.assign_cell(
                                    || "t",
                                    cfg.tables[li][j],
                                    r,
                                    || Value::known(v.0),
                                )?;
                            }
                        }
                        Ok(())
                    },
                )?;
            }
        }
        // 4. lookup uses
        for (lu, li) in spec.lookup_uses.iter().enumerate() {
            let l = &spec.lookups[*li];
            layouter.assign_region(
                || "lookup-use",
                |mut region| {
                    cfg.lookup_sel[*li].enable(&mut region, 0)?;
                    for (j, ic) in l.input_cols.iter().enumerate() {
                        let v = ctx.apply(
                            &format!("l{lu}.{j}"),
                            ctx.known(|w| l.table[w.lookup_rows[lu]][j].0),
                        );
                        region.assign_advice(|| "li", cfg.advice[*ic], 0, || v)?;
                    }
                    Ok(())
                },
            )?;
        }
        // 5. copies
        for (ci, c) in spec.copies.iter().enumerate() {
            match c {
                CopySpec::AdvAdv { a, b } => {
                    layouter.assign_region(
                        || "copy-aa",
                        |mut region| {
                            let v = ctx.known(|w| w.copy_vals[ci].0);
                            let x = region.assign_advice(
                                || "a",
                                cfg.advice[*a],
                                0,
                                || ctx.apply(&format!("c{ci}.a"), v),
                            )?;
                            let y = region.assign_advice(
                                || "b",
                                cfg.advice[*b],
                                1,
                                || ctx.apply(&format!("c{ci}.b"), v),
                            )?;
                            region.constrain_equal(x.cell(), y.cell())
                        },
                    )?;
                }
                CopySpec::Class { cols, eqs } => {
                    layouter.assign_region(
                        || "copy-class",
                        |mut region| {
                            let v = ctx.known(|w| w.copy_vals[ci].0);
                            let mut cells = vec![];
                            for (i, col) in cols.iter().enumerate() {
                                let x = region.assign_advice(|| "m", cfg.advice[*col], i, || ctx.apply(&format!("c{ci}.k{i}"), v))?;
                                cells.push(x);
                            }
                            for (x, y) in eqs {
                                region.constrain_equal(cells[*x].cell(), cells[*y].cell())?;
                            }
                            Ok(())
                        },
                    )?;
                }
                CopySpec::GateCell { gu, cell, b } => {
                    let src = gate_cells[gu][*cell].expect("advice gate cell");
                    let v = ctx.gate_cell(*gu, *cell);
                    layouter.assign_region(
                        || "copy-gc",
                        |mut region| {
                            let y = region.assign_advice(
                                || "b",
                                cfg.advice[*b],
                                0,
                                || ctx.apply(&format!("c{ci}.b"), v),
                            )?;
                            region.constrain_equal(src, y.cell())
                        },
                    )?;
                }
                CopySpec::AdvInst { a, inst, row } => {
                    let cell = layouter.assign_region(
                        || "copy-ai",
                        |mut region| {
                            let v = ctx.known(|w| {
                                w.instance[*inst].get(*row).map(|x| x.0).unwrap_or(Fq::ZERO)
                            });
                            let x = region.assign_advice(
                                || "a",
                                cfg.advice[*a],
                                0,
                                || ctx.apply(&format!("c{ci}.a"), v),
                            )?;
                            Ok(x.cell())
                        },
                    )?;
                    layouter.constrain_instance(cell, cfg.instance[*inst], *row)?;
                }
                CopySpec::AdvConst { a, value, via_assign } => {
                    layouter.assign_region(
                        || "copy-ac",
                        |mut region| {
                            if *via_assign {
                                // the value is fixed by the library: no Byzantine edit possible here
                                region.assign_advice_from_constant(|| "a", cfg.advice[*a], ci, value.0)?;
                            } else {
                                let v = ctx.known(|_| value.0);
                                let x = region.assign_advice(
                                    || "a",
                                    cfg.advice[*a],
                                    ci,
                                    || ctx.apply(&format!("c{ci}.a"), v),
                                )?;
                                region.constrain_constant(x.cell(), value.0)?;
                            }
                            Ok(())
                        },
                    )?;
                }
                CopySpec::AdvFixed { a, f, value } => {
                    layouter.assign_region(
                        || "copy-af",
                        |mut region| {
                            let v = ctx.known(|_| value.0);
                            let x = region.assign_advice(
                                || "a",
                                cfg.advice[*a],
                                0,
                                || ctx.apply(&format!("c{ci}.a"), v),
                            )?;
                            let y = region.assign_fixed(
                                || "f",
                                cfg.fixed[*f],
                                0,
                                || Value::known(value.0),
                            )?;
                            region.constrain_equal(x.cell(), y.cell())
                        },
                    )?;
                }
            }
        }
        // 6. unused cells: constrained by nothing
        if !spec.unused.is_empty() {
            layouter.assign_region(
                || "unused",
                |mut region| {
                    for (i, col) in spec.unused.iter().enumerate() {
                        let v = ctx.apply(&format!("u{i}"), ctx.known(|w| w.unused_vals[i].0));
                        region.assign_advice(|| "u", cfg.advice[*col], i, || v)?;
                    }
                    Ok(())
                },
            )?;
        }
        Ok(())
    }
}

// ------------------------------------------------------------------ generator

#[derive(Clone, Copy, Debug)]
pub struct GenOpts {
    pub k_min: u32,
    pub k_max: u32,
    pub allow_phases: bool,
    /// largest rotation (in absolute value) used by gates: 2, or 1 for circuits
    /// meant for the in-circuit verifier, which supports -1, 0, 1 only
    pub max_rot: i32,
}

fn max_phase(spec: &Spec) -> u8 {
    spec.advice.iter().map(|c| c.phase).max().unwrap_or(0)
}

/// usable rows of the constraint system of `spec` at its k (None: does not fit at all)
pub fn usable_rows(spec: &Spec) -> Option<usize> {
    let mut cs = ConstraintSystem::<Fq>::default();
    configure_spec(&mut cs, spec);
    let n = 1usize << spec.k;
    if n < cs.minimum_rows() {
        return None;
    }
    Some(n - (cs.blinding_factors() + 1))
}

pub fn rows_needed(spec: &Spec) -> usize {
    let main = spec.gate_uses.iter().filter(|g| g.main).count() * GATE_H;
    let other = spec.gate_uses.iter().filter(|g| !g.main).count() * GATE_H;
    let dynt: usize = spec.lookups.iter().filter(|l| l.any).map(|l| l.table.len()).sum();
    let lu = spec.lookup_uses.len();
    let copies: usize = spec
        .copies
        .iter()
        .enumerate()
        .map(|(i, c)| match c {
            CopySpec::AdvConst { .. } => i + 1,
            CopySpec::Class { cols, .. } => cols.len(),
            _ => 2,
        })
        .sum();
    main + other + dynt + lu + copies + spec.unused.len() + 1
}

fn table_rows(spec: &Spec) -> usize {
    spec.lookups.iter().filter(|l| !l.any).map(|l| l.table.len()).max().unwrap_or(0)
}

pub fn gen_spec(rng: &mut Prng, o: GenOpts) -> Spec {
    let k = rng.range(o.k_min as u64, o.k_max as u64) as u32;
    let phases = if o.allow_phases { *rng.pick(&[1u8, 1, 2, 3]) } else { 1 };
    let n_adv = rng.range(phases as u64, 6.max(phases as u64)) as usize;
    // phases contiguous and non-decreasing over columns; every phase present
    let mut advice: Vec<AdvCol> = (0..n_adv)
        .map(|i| {
            let phase = if i < phases as usize { i as u8 } else { rng.below(phases as u64) as u8 };
            AdvCol { phase, unblinded: phase == 0 && rng.chance(1, 6), equality: rng.chance(3, 4) }
        })
        .collect();
    advice.sort_by_key(|c| c.phase);
    // at least one equality-enabled column per spec so copies are possible
    if !advice.iter().any(|c| c.equality) {
        advice[0].equality = true;
    }
    let n_fixed = rng.range(1, 3) as usize;
    let fixed_equality: Vec<bool> = (0..n_fixed).map(|_| rng.chance(1, 2)).collect();
    let n_instance = rng.below(4) as usize;
    // one challenge per phase boundary, sometimes more, allocated in a
    // PRNG-chosen order (allocation order need not follow phase order)
    let mut challenges: Vec<u8> = (0..phases.saturating_sub(1)).collect();
    if phases > 1 {
        for _ in 0..rng.below(3) {
            challenges.push(rng.below(phases as u64 - 1) as u8);
        }
        rng.shuffle(&mut challenges);
    }

    let mut spec = Spec {
        k,
        v1: rng.chance(1, 3),
        advice,
        n_fixed,
        fixed_equality,
        n_instance,
        challenges,
        gates: vec![],
        lookups: vec![],
        gate_uses: vec![],
        lookup_uses: vec![],
        copies: vec![],
        unused: vec![],
        min_degree: if rng.chance(1, 8) { Some(rng.range(3, 6) as usize) } else { None },
    };

    // gates
    let n_gates = rng.range(1, 4) as usize;
    for _ in 0..n_gates {
        let g = gen_gate(rng, &spec, o.max_rot);
        spec.gates.push(g);
    }
    // lookups
    let n_lookups = *rng.pick(&[0usize, 0, 1, 1, 2, 3]);
    for _ in 0..n_lookups {
        let w = (rng.range(1, 2) as usize).min(spec.advice.len());
        // lookup inputs must be first-phase-or-later advice; any column works
        let mut all_cols: Vec<usize> = (0..spec.advice.len()).collect();
        rng.shuffle(&mut all_cols);
        let input_cols: Vec<usize> = all_cols[..w].to_vec();
        let nrows = rng.range(2, 6) as usize;
        let mut table = vec![vec![Fe(Fq::ZERO); w]];
        for _ in 1..nrows {
            table.push((0..w).map(|_| Fe(small_or_any(rng))).collect());
        }
        let any = rng.chance(1, 3);
        let mut default_row = None;
        if !any && rng.chance(1, 2) {
            // a table without the all-zero tuple
            for row in table.iter_mut() {
                row[0] = Fe(Fq::from(1 + rng.below(6)));
            }
            default_row = Some(rng.usize(table.len()));
        }
        spec.lookups.push(LookupSpec { any, table, input_cols, default_row });
    }

    // make sure the constraint system fits at k; otherwise raise k
    loop {
        match usable_rows(&spec) {
            Some(u) if u >= GATE_H + 3 && u >= table_rows(&spec) + 1 => break,
            _ => spec.k += 1,
        }
    }
    let usable = usable_rows(&spec).unwrap();

    // uses, within the row budget
    let want_uses = rng.range(1, 6) as usize;
    for _ in 0..want_uses {
        let gi = rng.usize(spec.gates.len());
        let g = &spec.gates[gi];
        let has_inst = g.cells.iter().any(|c| c.kind == Kind::I);
        let fixed = g
            .cells
            .iter()
            .map(|c| if c.kind == Kind::F { Fe(small_or_any(rng)) } else { Fe(Fq::ZERO) })
            .collect();
        let gu = GateUse { gate: gi, main: has_inst || rng.chance(1, 2), fixed };
        spec.gate_uses.push(gu);
        if rows_needed(&spec) > usable {
            spec.gate_uses.pop();
            break;
        }
    }
    for _ in 0..rng.below(4) {
        if spec.lookups.is_empty() {
            break;
        }
        spec.lookup_uses.push(rng.usize(spec.lookups.len()));
        if rows_needed(&spec) > usable {
            spec.lookup_uses.pop();
            break;
        }
    }
    let eq_cols: Vec<usize> =
        (0..spec.advice.len()).filter(|i| spec.advice[*i].equality).collect();
    for _ in 0..rng.below(6) {
        let a = *rng.pick(&eq_cols);
        let c = match rng.below(6) {
            5 => {
                let n = rng.range(3, 5) as usize;
                let cols: Vec<usize> = (0..n).map(|_| *rng.pick(&eq_cols)).collect();
                // a random spanning sequence: cell i joins an earlier cell, in either orientation
                let mut order: Vec<usize> = (0..n).collect();
                rng.shuffle(&mut order);
                let mut eqs = vec![];
                for i in 1..n {
                    let j = order[rng.usize(i)];
                    eqs.push(if rng.chance(1, 2) { (order[i], j) } else { (j, order[i]) });
                }
                // redundant equalities between cells already in one class
                for _ in 0..rng.range(1, 2) {
                    let (x, y) = (rng.usize(n), rng.usize(n));
                    if x != y {
                        let at = rng.usize(eqs.len() + 1).max(2.min(eqs.len()));
                        eqs.insert(at, (x, y));
                    }
                }
                CopySpec::Class { cols, eqs }
            }
            0 => CopySpec::AdvAdv { a, b: *rng.pick(&eq_cols) },
            1 if !spec.gate_uses.is_empty() => {
                // copy an advice gate cell whose column has equality, into a column of >= phase
                let gu = rng.usize(spec.gate_uses.len());
                let g = &spec.gates[spec.gate_uses[gu].gate];
                let cands: Vec<usize> = (0..g.cells.len())
                    .filter(|j| g.cells[*j].kind == Kind::A && spec.advice[g.cells[*j].col].equality)
                    .collect();
                if cands.is_empty() {
                    continue;
                }
                let cell = *rng.pick(&cands);
                let ph = cell_phase(&spec, g, cell);
                let bs: Vec<usize> =
                    eq_cols.iter().copied().filter(|b| spec.advice[*b].phase >= ph).collect();
                if bs.is_empty() {
                    continue;
                }
                CopySpec::GateCell { gu, cell, b: *rng.pick(&bs) }
            }
            2 if spec.n_instance > 0 => {
                CopySpec::AdvInst { a, inst: rng.usize(spec.n_instance), row: rng.usize(6) }
            }
            3 => CopySpec::AdvConst { a, value: Fe(small_or_any(rng)), via_assign: rng.chance(1, 2) },
            4 => {
                let fs: Vec<usize> = (0..spec.n_fixed).filter(|f| spec.fixed_equality[*f]).collect();
                if fs.is_empty() {
                    continue;
                }
                CopySpec::AdvFixed { a, f: *rng.pick(&fs), value: Fe(small_or_any(rng)) }
            }
            _ => continue,
        };
        spec.copies.push(c);
        if rows_needed(&spec) > usable {
            spec.copies.pop();
            break;
        }
    }
    for _ in 0..rng.below(3) {
        spec.unused.push(rng.usize(spec.advice.len()));
        if rows_needed(&spec) > usable {
            spec.unused.pop();
            break;
        }
    }
    spec
}

fn small_or_any(rng: &mut Prng) -> Fq {
    if rng.chance(2, 3) {
        Fq::from(rng.below(7))
    } else {
        draw_fq(rng)
    }
}

/// phase in which a gate cell's value is known to the prover
fn cell_phase(spec: &Spec, g: &GateSpec, j: usize) -> u8 {
    let c = &g.cells[j];
    match c.kind {
        Kind::A => spec.advice[c.col].phase,
        _ => 0,
    }
}

fn gen_gate(rng: &mut Prng, spec: &Spec, max_rot: i32) -> GateSpec {
    let mp = max_phase(spec);
    let n_cons = rng.range(1, 3) as usize;
    let mut cells: Vec<Cref> = vec![];
    let mut constraints = vec![];
    let mut outs: Vec<Cref> = vec![];
    let rot = |rng: &mut Prng| -> i32 { (*rng.pick(&[0, 0, 0, 1, -1, 2, -2])).clamp(-max_rot, max_rot) };
    for _ in 0..n_cons {
        // the out cell: an advice cell in some phase p_out; inputs are advice
        // cells of phase <= p_out, challenges usable after phases < p_out
        let out_col = rng.usize(spec.advice.len());
        let p_out = spec.advice[out_col].phase;
        let mut out = Cref { kind: Kind::A, col: out_col, rot: rot(rng) };
        let mut guard = 0;
        while outs.contains(&out) || cells.contains(&out) {
            out.rot = if max_rot >= 2 { (out.rot + 3 + guard) % 5 - 2 } else { (out.rot + 2 + guard) % 3 - 1 };
            guard += 1;
            if guard > 6 {
                break;
            }
        }
        if outs.contains(&out) || cells.contains(&out) {
            continue;
        }
        outs.push(out.clone());
        let n_terms = rng.range(1, 3) as usize;
        let mut terms = vec![];
        for _ in 0..n_terms {
            let deg = *rng.pick(&[0usize, 1, 1, 2, 2, 3, 4]);
            let mut tcells = vec![];
            for _ in 0..deg {
                let kind = match rng.below(10) {
                    0..=5 => Kind::A,
                    6 | 7 => Kind::F,
                    // (the V1 planner does not place the main region at row
                    // 0, so absolute instance rows are only known for the
                    // simple planner)
                    _ if spec.n_instance > 0 && !spec.v1 => Kind::I,
                    _ => Kind::A,
                };
                let cref = match kind {
                    Kind::A => {
                        let cands: Vec<usize> = (0..spec.advice.len())
                            .filter(|c| spec.advice[*c].phase <= p_out)
                            .collect();
                        Cref { kind, col: *rng.pick(&cands), rot: rot(rng) }
                    }
                    Kind::F => Cref { kind, col: rng.usize(spec.n_fixed), rot: rot(rng) },
                    Kind::I => Cref { kind, col: rng.usize(spec.n_instance), rot: rot(rng) },
                };
                if outs.contains(&cref) {
                    continue; // an out cell is never an input
                }
                let idx = match cells.iter().position(|c| *c == cref) {
                    Some(i) => i,
                    None => {
                        cells.push(cref);
                        cells.len() - 1
                    }
                };
                tcells.push(idx);
            }
            let mut chals = vec![];
            if mp > 0 && p_out > 0 && rng.chance(2, 3) {
                let cands: Vec<usize> =
                    (0..spec.challenges.len()).filter(|c| spec.challenges[*c] < p_out).collect();
                if !cands.is_empty() {
                    chals.push(*rng.pick(&cands));
                }
            }
            let coeff = *rng.pick(&[1i64, 1, -1, 0, 2, 3, -5, 7, 1 << 20]);
            terms.push(Term { coeff, cells: tcells, chals });
        }
        cells.push(out);
        constraints.push(Cons { out: cells.len() - 1, terms });
    }
    if constraints.is_empty() {
        // degenerate draw: fall back to out = a (same column, next row)
        cells = vec![
            Cref { kind: Kind::A, col: 0, rot: 0 },
            Cref { kind: Kind::A, col: 0, rot: 1 },
        ];
        constraints = vec![Cons { out: 1, terms: vec![Term { coeff: 1, cells: vec![0], chals: vec![] }] }];
    }
    let additive = rng.chance(1, 4);
    GateSpec { complex_sel: rng.chance(1, 3), additive, cells, constraints }
}

pub fn gen_witness(rng: &mut Prng, spec: &Spec) -> Witness {
    let usable = usable_rows(spec).unwrap_or(0);
    let instance = (0..spec.n_instance)
        .map(|_| {
            let len = match rng.below(4) {
                0 => 0,
                1 => rng.usize(usable.min(8) + 1),
                2 => usable, // maximal length
                _ => rng.usize(usable + 1),
            };
            (0..len).map(|_| Fe(small_or_any(rng))).collect()
        })
        .collect();
    // the constraint checker insists that instance cells queried by an
    // enabled gate are assigned (a lint, not a constraint): cover those rows
    let mut instance: Vec<Vec<Fe>> = instance;
    let mut pos = 0;
    for gu in &spec.gate_uses {
        if !gu.main {
            continue;
        }
        for c in &spec.gates[gu.gate].cells {
            if c.kind == Kind::I {
                let row = (pos * GATE_H + GATE_C) as i64 + c.rot as i64;
                while (instance[c.col].len() as i64) <= row {
                    instance[c.col].push(Fe(small_or_any(rng)));
                }
            }
        }
        pos += 1;
    }
    let gate_inputs = spec
        .gate_uses
        .iter()
        .map(|gu| spec.gates[gu.gate].cells.iter().map(|_| Fe(small_or_any(rng))).collect())
        .collect();
    let lookup_rows =
        spec.lookup_uses.iter().map(|li| rng.usize(spec.lookups[*li].table.len())).collect();
    let copy_vals = spec.copies.iter().map(|_| Fe(small_or_any(rng))).collect();
    let unused_vals = spec.unused.iter().map(|_| Fe(draw_fq(rng))).collect();
    Witness {
        instance,
        gate_inputs,
        lookup_rows,
        copy_vals,
        unused_vals,
        faults: vec![],
        inst_faults: vec![],
    }
}

/// All sites at which a Byzantine edit can be placed, with their class.
pub fn fault_sites(spec: &Spec) -> Vec<(String, &'static str)> {
    let mut v = vec![];
    for (u, gu) in spec.gate_uses.iter().enumerate() {
        let g = &spec.gates[gu.gate];
        for (j, c) in g.cells.iter().enumerate() {
            if c.kind == Kind::A {
                v.push((format!("g{u}.{j}"), if g.additive { "additive-gate" } else { "gate" }));
            }
        }
    }
    for (lu, li) in spec.lookup_uses.iter().enumerate() {
        for j in 0..spec.lookups[*li].input_cols.len() {
            v.push((format!("l{lu}.{j}"), "lookup"));
        }
    }
    for (li, l) in spec.lookups.iter().enumerate() {
        if l.any {
            for r in 0..l.table.len() {
                for j in 0..l.input_cols.len() {
                    v.push((format!("t{li}.{r}.{j}"), "dyn-table"));
                }
            }
        }
    }
    for (ci, c) in spec.copies.iter().enumerate() {
        match c {
            CopySpec::AdvAdv { .. } => {
                v.push((format!("c{ci}.a"), "copy-advice"));
                v.push((format!("c{ci}.b"), "copy-advice"));
            }
            CopySpec::GateCell { .. } => v.push((format!("c{ci}.b"), "copy-advice")),
            CopySpec::Class { cols, .. } => {
                for i in 0..cols.len() {
                    v.push((format!("c{ci}.k{i}"), "copy-class"));
                }
            }
            CopySpec::AdvInst { .. } => v.push((format!("c{ci}.a"), "copy-instance")),
            CopySpec::AdvConst { via_assign, .. } => {
                if !via_assign {
                    v.push((format!("c{ci}.a"), "copy-constant"))
                }
            }
            CopySpec::AdvFixed { .. } => v.push((format!("c{ci}.a"), "copy-fixed")),
        }
    }
    for i in 0..spec.unused.len() {
        v.push((format!("u{i}"), "unused"));
    }
    v
}
