//! Transcript seam: a `Transcript` that wraps `CircuitTranscript<H>` and
//! records every operation (kind, element type, byte range in the proof) in a
//! thread-local event log. Yields the exact layout of every proof and the
//! Fiat-Shamir schedule of prover and verifier.
use std::{cell::RefCell, io};

use midnight_proofs::transcript::{
    CircuitTranscript, Hashable, Sampleable, Transcript, TranscriptHash,
};

#[derive(Clone, Debug, PartialEq, Eq, serde::Serialize, serde::Deserialize)]
pub enum Op {
    Common,
    Read,
    Write,
    Squeeze,
}

#[derive(Clone, Debug, PartialEq, Eq, serde::Serialize, serde::Deserialize)]
pub struct TEvent {
    pub op: Op,
    /// "G1" | "F" | other type name
    pub ty: String,
    /// byte offset in the proof (Read / Write), else 0
    pub off: usize,
    pub len: usize,
    /// digest of the absorbed bytes (to compare prover and verifier schedules)
    pub val: u64,
}

thread_local! { static LOG: RefCell<Vec<TEvent>> = const { RefCell::new(Vec::new()) }; }

pub fn take_log() -> Vec<TEvent> {
    LOG.with(|l| std::mem::take(&mut *l.borrow_mut()))
}
pub fn clear_log() {
    LOG.with(|l| l.borrow_mut().clear());
}
fn push(e: TEvent) {
    LOG.with(|l| l.borrow_mut().push(e));
}

fn ty_name<T>() -> String {
    let n = std::any::type_name::<T>();
    if n.contains("G1") {
        "G1".into()
    } else if n.ends_with("Fq") || n.ends_with("Fr") {
        "F".into()
    } else {
        n.rsplit("::").next().unwrap_or(n).to_string()
    }
}

#[derive(Clone, Debug)]
pub struct TracingTranscript<H: TranscriptHash> {
    inner: CircuitTranscript<H>,
}

impl<H: TranscriptHash> Transcript for TracingTranscript<H> {
    type Hash = H;

    fn init() -> Self {
        Self { inner: CircuitTranscript::init() }
    }
    fn init_from_bytes(bytes: &[u8]) -> Self {
        Self { inner: CircuitTranscript::init_from_bytes(bytes) }
    }
    fn squeeze_challenge<T: Sampleable<H>>(&mut self) -> T {
        push(TEvent { op: Op::Squeeze, ty: String::new(), off: 0, len: 0, val: 0 });
        self.inner.squeeze_challenge()
    }
    fn common<T: Hashable<H>>(&mut self, input: &T) -> io::Result<()> {
        let b = input.to_bytes();
        push(TEvent {
            op: Op::Common,
            ty: ty_name::<T>(),
            off: 0,
            len: b.len(),
            val: crate::core::prng::digest(&b),
        });
        self.inner.common(input)
    }
    fn read<T: Hashable<H>>(&mut self) -> io::Result<T> {
        let off = self.inner.buffer().position() as usize;
        let r: io::Result<T> = self.inner.read();
        let end = self.inner.buffer().position() as usize;
        let val = match &r {
            Ok(v) => crate::core::prng::digest(&v.to_bytes()),
            Err(_) => 0,
        };
        push(TEvent { op: Op::Read, ty: ty_name::<T>(), off, len: end - off, val });
        r
    }
    fn write<T: Hashable<H>>(&mut self, input: &T) -> io::Result<()> {
        let off = self.inner.buffer().position() as usize;
        let r = self.inner.write(input);
        let end = self.inner.buffer().position() as usize;
        push(TEvent {
            op: Op::Write,
            ty: ty_name::<T>(),
            off,
            len: end - off,
            val: crate::core::prng::digest(&input.to_bytes()),
        });
        r
    }
    fn finalize(self) -> Vec<u8> {
        self.inner.finalize()
    }
    fn assert_empty(&mut self) -> io::Result<()> {
        self.inner.assert_empty()
    }
}

/// The absorb / squeeze schedule with prover writes and verifier reads
/// unified, for diffing the two sides.
pub fn schedule(log: &[TEvent]) -> Vec<(String, String, u64)> {
    log.iter()
        .map(|e| {
            let op = match e.op {
                Op::Squeeze => "squeeze",
                Op::Common => "absorb",
                Op::Read | Op::Write => "absorb-proof",
            };
            (op.to_string(), e.ty.clone(), e.val)
        })
        .collect()
}

/// First index at which two schedules diverge.
pub fn first_divergence(a: &[TEvent], b: &[TEvent]) -> Option<(usize, String)> {
    let (sa, sb) = (schedule(a), schedule(b));
    for i in 0..sa.len().max(sb.len()) {
        match (sa.get(i), sb.get(i)) {
            (Some(x), Some(y)) if x == y => {}
            (x, y) => {
                return Some((
                    i,
                    format!(
                        "prover: {:?} verifier: {:?}",
                        x.map(|x| (&x.0, &x.1)),
                        y.map(|y| (&y.0, &y.1))
                    ),
                ))
            }
        }
    }
    None
}
