//! Standard-library fixtures: two small relations with keys and honest proofs
//! (produced once per process under an isolated sequential schedule).
use std::sync::{Arc, OnceLock};

use ff::Field;
use midnight_circuits::{
    hash::poseidon::PoseidonChip,
    instructions::{hash::HashCPU, ArithInstructions, AssignmentInstructions, PublicInputInstructions},
};
use midnight_curves::Fq;
use midnight_proofs::{
    circuit::{Layouter, Value},
    plonk::Error,
    utils::SerdeFormat,
};
use midnight_zk_stdlib::{MidnightCircuit, MidnightPK, MidnightVK, Relation, ZkStdLib, ZkStdLibArch};
use rand_chacha::ChaCha20Rng;
use rand_core::SeedableRng;

use crate::fixtures;

type F = Fq;

#[derive(Clone, Default, Debug)]
pub struct PoseidonRel;

impl Relation for PoseidonRel {
    type Instance = F;
    type Witness = [F; 3];
    fn format_instance(instance: &F) -> Result<Vec<F>, Error> {
        Ok(vec![*instance])
    }
    fn circuit(
        &self,
        std_lib: &ZkStdLib,
        layouter: &mut impl Layouter<F>,
        _instance: Value<F>,
        witness: Value<[F; 3]>,
    ) -> Result<(), Error> {
        let m = std_lib.assign_many(layouter, &witness.transpose_array())?;
        let out = std_lib.poseidon(layouter, &m)?;
        std_lib.constrain_as_public_input(layouter, &out)
    }
    fn used_chips(&self) -> ZkStdLibArch {
        ZkStdLibArch { poseidon: true, ..ZkStdLibArch::default() }
    }
    fn write_relation<W: std::io::Write>(&self, _w: &mut W) -> std::io::Result<()> {
        Ok(())
    }
    fn read_relation<R: std::io::Read>(_r: &mut R) -> std::io::Result<Self> {
        Ok(PoseidonRel)
    }
}

/// z = x * y + x with public (z, y)
#[derive(Clone, Default, Debug)]
pub struct ArithRel;

impl Relation for ArithRel {
    type Instance = (F, F);
    type Witness = F;
    fn format_instance(i: &(F, F)) -> Result<Vec<F>, Error> {
        Ok(vec![i.0, i.1])
    }
    fn circuit(
        &self,
        std_lib: &ZkStdLib,
        layouter: &mut impl Layouter<F>,
        instance: Value<(F, F)>,
        witness: Value<F>,
    ) -> Result<(), Error> {
        let x = std_lib.assign(layouter, witness)?;
        let y = std_lib.assign(layouter, instance.map(|i| i.1))?;
        let xy = std_lib.mul(layouter, &x, &y, None)?;
        let z = std_lib.add(layouter, &xy, &x)?;
        std_lib.constrain_as_public_input(layouter, &z)?;
        std_lib.constrain_as_public_input(layouter, &y)
    }
    fn write_relation<W: std::io::Write>(&self, _w: &mut W) -> std::io::Result<()> {
        Ok(())
    }
    fn read_relation<R: std::io::Read>(_r: &mut R) -> std::io::Result<Self> {
        Ok(ArithRel)
    }
}

/// An honest delivery: raw public inputs and proof.
#[derive(Clone)]
pub struct Delivery {
    pub pi: Vec<F>,
    pub proof: Vec<u8>,
}

pub struct StdFixture {
    /// further honest proofs of the same relation (other witnesses, same key)
    pub pool: Vec<Delivery>,
    pub k: u32,
    pub vk: MidnightVK,
    pub vk_bytes_raw: Vec<u8>,
    pub vk_bytes_processed: Vec<u8>,
    pub pk_bytes_raw: Vec<u8>,
    /// raw public inputs
    pub pi: Vec<F>,
    pub proof: Vec<u8>,
}

fn build<R: Relation>(
    rel: &R,
    instance: &R::Instance,
    witness: R::Witness,
    more: Vec<(R::Instance, R::Witness)>,
) -> (StdFixture, MidnightPK<R>) {
    rayon::sim::isolated(1, || {
        let k = MidnightCircuit::from_relation(rel).min_k();
        let srs = fixtures::srs(k);
        let vk = midnight_zk_stdlib::setup_vk(&srs, rel);
        let pk = midnight_zk_stdlib::setup_pk(rel, &vk);
        let proof = midnight_zk_stdlib::prove::<R, blake2b_simd::State>(
            &srs,
            &pk,
            rel,
            instance,
            witness,
            ChaCha20Rng::from_seed([9u8; 32]),
        )
        .expect("fixture proof");
        midnight_zk_stdlib::verify::<R, blake2b_simd::State>(
            &srs.verifier_params(),
            &vk,
            instance,
            None,
            &proof,
        )
        .expect("fixture proof verifies");
        let mut pool = vec![Delivery { pi: R::format_instance(instance).unwrap(), proof: proof.clone() }];
        for (j, (inst, wit)) in more.into_iter().enumerate() {
            let pr = midnight_zk_stdlib::prove::<R, blake2b_simd::State>(
                &srs,
                &pk,
                rel,
                &inst,
                wit,
                ChaCha20Rng::from_seed([10 + j as u8; 32]),
            )
            .expect("fixture proof");
            pool.push(Delivery { pi: R::format_instance(&inst).unwrap(), proof: pr });
        }
        let mut vk_bytes_raw = vec![];
        vk.write(&mut vk_bytes_raw, SerdeFormat::RawBytes).unwrap();
        let mut vk_bytes_processed = vec![];
        vk.write(&mut vk_bytes_processed, SerdeFormat::Processed).unwrap();
        let mut pk_bytes_raw = vec![];
        pk.write(&mut pk_bytes_raw, SerdeFormat::RawBytes).unwrap();
        (
            StdFixture {
                pool,
                k,
                vk,
                vk_bytes_raw,
                vk_bytes_processed,
                pk_bytes_raw,
                pi: R::format_instance(instance).unwrap(),
                proof,
            },
            pk,
        )
    })
}

static POSEIDON: OnceLock<Arc<StdFixture>> = OnceLock::new();
static ARITH: OnceLock<Arc<StdFixture>> = OnceLock::new();

pub fn poseidon() -> Arc<StdFixture> {
    POSEIDON
        .get_or_init(|| crate::core::runner::on_fresh_thread(|| {
            let w = [F::from(3), F::from(5), -F::ONE];
            let inst = <PoseidonChip<F> as HashCPU<F, F>>::hash(&w);
            let more = (1..4u64)
                .map(|i| {
                    let w = [F::from(i), F::from(i * i + 1), F::from(7 * i)];
                    (<PoseidonChip<F> as HashCPU<F, F>>::hash(&w), w)
                })
                .collect();
            Arc::new(build(&PoseidonRel, &inst, w, more).0)
        }))
        .clone()
}

pub fn arith() -> Arc<StdFixture> {
    ARITH
        .get_or_init(|| crate::core::runner::on_fresh_thread(|| {
            let (x, y) = (F::from(7), F::from(11));
            let more = (1..4u64)
                .map(|i| {
                    let (x, y) = (F::from(100 + i), -F::from(i));
                    ((x * y + x, y), x)
                })
                .collect();
            Arc::new(build(&ArithRel, &(x * y + x, y), x, more).0)
        }))
        .clone()
}
