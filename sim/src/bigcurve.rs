//! Harness-side reference models over big integers: short Weierstrass and
//! twisted Edwards affine group laws. Shares no code with the library.
use num_bigint::BigUint;
use num_traits::{One, Zero};

pub fn modp(a: &BigUint, p: &BigUint) -> BigUint {
    a % p
}
pub fn sub(a: &BigUint, b: &BigUint, p: &BigUint) -> BigUint {
    ((a % p) + p - (b % p)) % p
}
pub fn inv(a: &BigUint, p: &BigUint) -> BigUint {
    a.modpow(&(p - 2u32), p)
}
pub fn is_square(a: &BigUint, p: &BigUint) -> bool {
    a.is_zero() || a.modpow(&((p - 1u32) / 2u32), p).is_one()
}
/// square root for p = 3 mod 4
pub fn sqrt_3mod4(a: &BigUint, p: &BigUint) -> Option<BigUint> {
    let r = a.modpow(&((p + 1u32) / 4u32), p);
    if (&r * &r) % p == a % p {
        Some(r)
    } else {
        None
    }
}

/// y^2 = x^3 + a x + b over F_p; None = point at infinity
#[derive(Clone, Debug)]
pub struct Weierstrass {
    pub p: BigUint,
    pub a: BigUint,
    pub b: BigUint,
}
pub type Pt = Option<(BigUint, BigUint)>;

impl Weierstrass {
    pub fn on_curve(&self, pt: &Pt) -> bool {
        match pt {
            None => true,
            Some((x, y)) => {
                let p = &self.p;
                (y * y) % p == (x * x * x + &self.a * x + &self.b) % p
            }
        }
    }
    pub fn neg(&self, pt: &Pt) -> Pt {
        pt.as_ref().map(|(x, y)| (x.clone(), sub(&BigUint::zero(), y, &self.p)))
    }
    pub fn add(&self, a: &Pt, b: &Pt) -> Pt {
        let p = &self.p;
        match (a, b) {
            (None, _) => b.clone(),
            (_, None) => a.clone(),
            (Some((x1, y1)), Some((x2, y2))) => {
                let lambda = if x1 == x2 {
                    if (y1 + y2) % p == BigUint::zero() {
                        return None;
                    }
                    // doubling
                    let num = (BigUint::from(3u32) * x1 * x1 + &self.a) % p;
                    num * inv(&((BigUint::from(2u32) * y1) % p), p) % p
                } else {
                    sub(y2, y1, p) * inv(&sub(x2, x1, p), p) % p
                };
                let x3 = sub(&sub(&(&lambda * &lambda % p), x1, p), x2, p);
                let y3 = sub(&(&lambda * sub(x1, &x3, p) % p), y1, p);
                Some((x3, y3))
            }
        }
    }
    pub fn mul(&self, k: &BigUint, pt: &Pt) -> Pt {
        let mut acc: Pt = None;
        for i in (0..k.bits()).rev() {
            acc = self.add(&acc, &acc);
            if k.bit(i) {
                acc = self.add(&acc, pt);
            }
        }
        acc
    }
}

/// a x^2 + y^2 = 1 + d x^2 y^2 over F_p (complete when a square, d non-square)
#[derive(Clone, Debug)]
pub struct Edwards {
    pub p: BigUint,
    pub a: BigUint,
    pub d: BigUint,
}
pub type EPt = (BigUint, BigUint);

impl Edwards {
    pub fn identity(&self) -> EPt {
        (BigUint::zero(), BigUint::one())
    }
    pub fn on_curve(&self, (x, y): &EPt) -> bool {
        let p = &self.p;
        let x2 = x * x % p;
        let y2 = y * y % p;
        (&self.a * &x2 + &y2) % p == (BigUint::one() + &self.d * &x2 % p * &y2) % p
    }
    pub fn neg(&self, (x, y): &EPt) -> EPt {
        (sub(&BigUint::zero(), x, &self.p), y.clone())
    }
    pub fn add(&self, (x1, y1): &EPt, (x2, y2): &EPt) -> EPt {
        let p = &self.p;
        let t = &self.d * x1 % p * x2 % p * y1 % p * y2 % p;
        let x3 = (x1 * y2 + y1 * x2) % p * inv(&((BigUint::one() + &t) % p), p) % p;
        let y3 = sub(&(y1 * y2 % p), &(&self.a * x1 % p * x2 % p), p)
            * inv(&sub(&BigUint::one(), &t, p), p)
            % p;
        (x3, y3)
    }
    pub fn mul(&self, k: &BigUint, pt: &EPt) -> EPt {
        let mut acc = self.identity();
        for i in (0..k.bits()).rev() {
            acc = self.add(&acc, &acc);
            if k.bit(i) {
                acc = self.add(&acc, pt);
            }
        }
        acc
    }
}

pub fn bls12_381_p() -> BigUint {
    BigUint::parse_bytes(
        b"1a0111ea397fe69a4b1ba7b6434bacd764774b84f38512bf6730d2a0f6b0f6241eabfffeb153ffffb9feffffffffaaab",
        16,
    )
    .unwrap()
}
pub fn bls12_381_r() -> BigUint {
    BigUint::parse_bytes(
        b"73eda753299d7d483339d80809a1d80553bda402fffe5bfeffffffff00000001",
        16,
    )
    .unwrap()
}
pub fn bls12_381_g1() -> Weierstrass {
    Weierstrass { p: bls12_381_p(), a: BigUint::zero(), b: BigUint::from(4u32) }
}
