//! Byzantine prover, second move ("covering tracks"): after a fault has made
//! some gate rows fail, try to re-satisfy each failing row by solving for one
//! other advice cell queried in that row. The gate polynomial is evaluated by
//! the harness (public `Expression::evaluate` over MockProver's public tables)
//! at a few values of the candidate cell, interpolated, and a root is taken.
//! Whatever the repair does, the oracle is unchanged: an accepted table is a
//! violation only if the bound public values contradict the reference.
use ff::Field;
use midnight_curves::Fq;
use midnight_proofs::{
    dev::{CellValue, MockProver},
    plonk::{Any, Expression},
};

use crate::core::prng::Prng;

fn cell(v: &CellValue<Fq>) -> Fq {
    match v {
        CellValue::Assigned(f) => *f,
        _ => Fq::ZERO,
    }
}

struct Tables<'a> {
    p: &'a MockProver<Fq>,
    n: i64,
    /// override of one advice cell
    ov: Option<((usize, usize), Fq)>,
}

impl Tables<'_> {
    fn row(&self, row: usize, rot: i32) -> usize {
        ((row as i64 + rot as i64).rem_euclid(self.n)) as usize
    }
    fn eval(&self, e: &Expression<Fq>, row: usize) -> Fq {
        e.evaluate(
            &|c| c,
            &|_| Fq::ZERO,
            &|q| cell(&self.p.fixed()[q.column_index()][self.row(row, q.rotation().0)]),
            &|q| {
                let r = self.row(row, q.rotation().0);
                if let Some((c, v)) = &self.ov {
                    if *c == (q.column_index(), r) {
                        return *v;
                    }
                }
                cell(&self.p.advice()[q.column_index()][r])
            },
            &|q| match self.p.instance()[q.column_index()][self.row(row, q.rotation().0)] {
                midnight_proofs::dev::InstanceValue::Assigned(v) => v,
                _ => Fq::ZERO,
            },
            &|_| Fq::ZERO,
            &|a| -a,
            &|a, b| a + b,
            &|a, b| a * b,
            &|a, f| a * f,
        )
    }
}

/// advice cells (column, absolute row) queried by `e` at `row`
fn advice_cells(e: &Expression<Fq>, row: usize, n: i64) -> Vec<(usize, usize)> {
    e.evaluate(
        &|_| vec![],
        &|_| vec![],
        &|_| vec![],
        &|q| vec![(q.column_index(), ((row as i64 + q.rotation().0 as i64).rem_euclid(n)) as usize)],
        &|_| vec![],
        &|_| vec![],
        &|a| a,
        &|mut a, b| {
            a.extend(b);
            a
        },
        &|mut a, b| {
            a.extend(b);
            a
        },
        &|a, _| a,
    )
}

/// Is the advice cell in a non-trivial copy cycle?
fn in_cycle(p: &MockProver<Fq>, mapping: &[Vec<(usize, usize)>], col: usize, row: usize) -> bool {
    let cols = p.permutation().columns();
    match cols.iter().position(|c| matches!(c.column_type(), Any::Advice(_)) && c.index() == col) {
        None => false,
        Some(ci) => mapping[ci][row] != (ci, row),
    }
}

fn last_used_row(p: &MockProver<Fq>) -> usize {
    let mut last = 0;
    for col in p.advice() {
        for (r, c) in col.iter().enumerate().take(p.usable_rows().end) {
            if matches!(c, CellValue::Assigned(_)) && r > last {
                last = r;
            }
        }
    }
    last
}

/// All failing (polynomial, row) pairs among the gate constraints and the
/// additive-selector constraints.
fn failing<'a>(p: &'a MockProver<Fq>, t: &Tables<'_>, upto: usize) -> Vec<(&'a Expression<Fq>, usize)> {
    let mut out = vec![];
    for row in 0..=upto.min(p.usable_rows().end.saturating_sub(1)) {
        for g in p.cs().gates() {
            for poly in g.polynomials() {
                if t.eval(poly, row) != Fq::ZERO {
                    out.push((poly, row));
                }
            }
        }
        for tr in p.cs().trashcans() {
            if t.eval(tr.selector(), row) == Fq::ONE {
                for poly in tr.constraint_expressions() {
                    if t.eval(poly, row) != Fq::ZERO {
                        out.push((poly, row));
                    }
                }
            }
        }
        if out.len() > 64 {
            break;
        }
    }
    out
}

/// Roots of the univariate restriction of `poly` at `row` in the value of `c`
/// (degree <= 2 handled; higher degrees skipped).
fn solve(p: &MockProver<Fq>, n: i64, poly: &Expression<Fq>, row: usize, c: (usize, usize)) -> Vec<Fq> {
    let at = |v: Fq| Tables { p, n, ov: Some((c, v)) }.eval(poly, row);
    let (y0, y1, y2, y3) = (at(Fq::ZERO), at(Fq::ONE), at(Fq::from(2)), at(Fq::from(3)));
    // finite differences: y = a t^2 + b t + c0 (check the cubic term is absent)
    let two_inv = Fq::from(2).invert().unwrap();
    let a = (y2 - y1 - y1 + y0) * two_inv;
    let b = y1 - y0 - a;
    let c0 = y0;
    if a * Fq::from(9) + b * Fq::from(3) + c0 != y3 {
        return vec![];
    }
    if a == Fq::ZERO {
        if b == Fq::ZERO {
            return vec![];
        }
        return vec![-c0 * b.invert().unwrap()];
    }
    let disc = b * b - Fq::from(4) * a * c0;
    match Option::<Fq>::from(disc.sqrt()) {
        None => vec![],
        Some(s) => {
            let d = (a + a).invert().unwrap();
            vec![(-b + s) * d, (-b - s) * d]
        }
    }
}

/// Tries up to `depth` single-cell repairs. Returns the number of repairs made.
pub fn attempt(p: &mut MockProver<Fq>, protected: &[(usize, usize)], rng: &mut Prng, depth: usize) -> usize {
    use rayon::iter::ParallelIterator;
    let n = p.advice().first().map(|c| c.len()).unwrap_or(0) as i64;
    if n == 0 {
        return 0;
    }
    let mapping: Vec<Vec<(usize, usize)>> = p.permutation().mapping().map(|c| c.collect::<Vec<_>>()).collect();
    let upto = last_used_row(p);
    let mut made = 0;
    let mut touched: Vec<(usize, usize)> = protected.to_vec();
    for _ in 0..depth {
        let fix: Option<((usize, usize), Fq)> = {
            let t = Tables { p, n, ov: None };
            let fails = failing(p, &t, upto);
            if fails.is_empty() {
                return made;
            }
            let (poly, row) = fails[0];
            let mut cands = advice_cells(poly, row, n);
            cands.sort();
            cands.dedup();
            cands.retain(|c| !touched.contains(c));
            // pure hints first (cells in no copy cycle cannot have downstream users)
            let (mut free, mut bound): (Vec<_>, Vec<_>) =
                cands.into_iter().partition(|c| !in_cycle(p, &mapping, c.0, c.1));
            rng.shuffle(&mut free);
            rng.shuffle(&mut bound);
            let mut found = None;
            for c in free.into_iter().chain(bound.into_iter().take(0)) {
                // the new value must zero every failing polynomial of this row that mentions the cell
                for root in solve(p, n, poly, row, c) {
                    let tt = Tables { p, n, ov: Some((c, root)) };
                    let ok = fails.iter().filter(|(_, r)| *r == row).all(|(pl, r)| tt.eval(pl, *r) == Fq::ZERO);
                    if ok {
                        found = Some((c, root));
                        break;
                    }
                }
                if found.is_some() {
                    break;
                }
            }
            found
        };
        match fix {
            None => return made,
            Some(((col, row), v)) => {
                p.advice_mut()[col][row] = CellValue::Assigned(v);
                touched.push((col, row));
                made += 1;
            }
        }
    }
    made
}
