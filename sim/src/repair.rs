//! Byzantine prover, second move ("covering tracks"): after a fault has made
//! some gate rows fail, try to re-satisfy them by solving for other advice
//! cells queried in the failing rows. The gate polynomials are evaluated by
//! the harness (public `Expression::evaluate` over MockProver's public tables)
//! at a few values of the candidate cell, interpolated, and a root is taken.
//! A candidate that sits in a copy cycle is changed together with its whole
//! cycle (cycles containing a constant are left alone). A step is kept when it
//! strictly reduces the number of failing (polynomial, row) pairs.
//! Whatever the repair does, the oracle is unchanged: an accepted table is a
//! violation only if the bound public values contradict the reference.
use ff::Field;
use midnight_curves::Fq;
use midnight_proofs::{
    dev::{CellValue, MockProver},
    plonk::{Any, Expression},
};

use crate::core::prng::Prng;

fn cell(v: &CellValue<Fq>) -> Fq {
    match v {
        CellValue::Assigned(f) => *f,
        _ => Fq::ZERO,
    }
}

struct Tables<'a> {
    p: &'a MockProver<Fq>,
    n: i64,
    /// overrides of advice cells
    ov: Vec<((usize, usize), Fq)>,
}

impl Tables<'_> {
    fn row(&self, row: usize, rot: i32) -> usize {
        ((row as i64 + rot as i64).rem_euclid(self.n)) as usize
    }
    fn eval(&self, e: &Expression<Fq>, row: usize) -> Fq {
        e.evaluate(
            &|c| c,
            &|_| Fq::ZERO,
            &|q| cell(&self.p.fixed()[q.column_index()][self.row(row, q.rotation().0)]),
            &|q| {
                let r = self.row(row, q.rotation().0);
                for (c, v) in &self.ov {
                    if *c == (q.column_index(), r) {
                        return *v;
                    }
                }
                cell(&self.p.advice()[q.column_index()][r])
            },
            &|q| match self.p.instance()[q.column_index()][self.row(row, q.rotation().0)] {
                midnight_proofs::dev::InstanceValue::Assigned(v) => v,
                _ => Fq::ZERO,
            },
            &|_| Fq::ZERO,
            &|a| -a,
            &|a, b| a + b,
            &|a, b| a * b,
            &|a, f| a * f,
        )
    }
    /// number of failing (polynomial, row) pairs at `row`
    fn failing_at(&self, row: usize) -> usize {
        let mut n = 0;
        for g in self.p.cs().gates() {
            for poly in g.polynomials() {
                if self.eval(poly, row) != Fq::ZERO {
                    n += 1;
                }
            }
        }
        for tr in self.p.cs().trashcans() {
            if self.eval(tr.selector(), row) == Fq::ONE {
                for poly in tr.constraint_expressions() {
                    if self.eval(poly, row) != Fq::ZERO {
                        n += 1;
                    }
                }
            }
        }
        n
    }
}

/// advice cells (column, absolute row) queried by `e` at `row`
fn advice_cells(e: &Expression<Fq>, row: usize, n: i64) -> Vec<(usize, usize)> {
    e.evaluate(
        &|_| vec![],
        &|_| vec![],
        &|_| vec![],
        &|q| vec![(q.column_index(), ((row as i64 + q.rotation().0 as i64).rem_euclid(n)) as usize)],
        &|_| vec![],
        &|_| vec![],
        &|a| a,
        &|mut a, b| {
            a.extend(b);
            a
        },
        &|mut a, b| {
            a.extend(b);
            a
        },
        &|a, _| a,
    )
}

/// The advice cells of the copy cycle of (col, row), the cell included; None
/// when the cycle contains a fixed cell.
fn cycle_of(p: &MockProver<Fq>, mapping: &[Vec<(usize, usize)>], col: usize, row: usize) -> Option<Vec<(usize, usize)>> {
    let cols = p.permutation().columns();
    let mut out = vec![(col, row)];
    let Some(ci) = cols.iter().position(|c| matches!(c.column_type(), Any::Advice(_)) && c.index() == col) else {
        return Some(out);
    };
    let mut cur = mapping[ci][row];
    let mut guard = 0;
    while cur != (ci, row) && guard < 1 << 20 {
        let c = cols[cur.0];
        match c.column_type() {
            Any::Advice(_) => out.push((c.index(), cur.1)),
            Any::Fixed => return None,
            Any::Instance => {}
        }
        cur = mapping[cur.0][cur.1];
        guard += 1;
    }
    Some(out)
}

fn last_used_row(p: &MockProver<Fq>) -> usize {
    let mut last = 0;
    for col in p.advice() {
        for (r, c) in col.iter().enumerate().take(p.usable_rows().end) {
            if matches!(c, CellValue::Assigned(_)) && r > last {
                last = r;
            }
        }
    }
    last
}

/// The first failing (polynomial, row) pairs among the gate constraints and
/// the additive-selector constraints.
fn failing<'a>(p: &'a MockProver<Fq>, t: &Tables<'_>, rows: &[usize]) -> Vec<(&'a Expression<Fq>, usize)> {
    let mut out = vec![];
    for &row in rows {
        for g in p.cs().gates() {
            for poly in g.polynomials() {
                if t.eval(poly, row) != Fq::ZERO {
                    out.push((poly, row));
                }
            }
        }
        for tr in p.cs().trashcans() {
            if t.eval(tr.selector(), row) == Fq::ONE {
                for poly in tr.constraint_expressions() {
                    if t.eval(poly, row) != Fq::ZERO {
                        out.push((poly, row));
                    }
                }
            }
        }
        if out.len() > 64 {
            break;
        }
    }
    out
}

/// Roots of the univariate restriction of `poly` at `row` in the common value
/// of `cells` (degree <= 2 handled; higher degrees skipped).
fn solve(p: &MockProver<Fq>, n: i64, poly: &Expression<Fq>, row: usize, cells: &[(usize, usize)]) -> Vec<Fq> {
    let at = |v: Fq| Tables { p, n, ov: cells.iter().map(|c| (*c, v)).collect() }.eval(poly, row);
    let (y0, y1, y2, y3) = (at(Fq::ZERO), at(Fq::ONE), at(Fq::from(2)), at(Fq::from(3)));
    // finite differences: y = a t^2 + b t + c0 (check the cubic term is absent)
    let two_inv = Fq::from(2).invert().unwrap();
    let a = (y2 - y1 - y1 + y0) * two_inv;
    let b = y1 - y0 - a;
    let c0 = y0;
    if a * Fq::from(9) + b * Fq::from(3) + c0 != y3 {
        return vec![];
    }
    if a == Fq::ZERO {
        if b == Fq::ZERO {
            return vec![];
        }
        return vec![-c0 * b.invert().unwrap()];
    }
    let disc = b * b - Fq::from(4) * a * c0;
    match Option::<Fq>::from(disc.sqrt()) {
        None => vec![],
        Some(s) => {
            let d = (a + a).invert().unwrap();
            vec![(-b + s) * d, (-b - s) * d]
        }
    }
}

/// Rows whose constraints may query one of `cells` (rotations within +-3).
fn rows_near(cells: &[(usize, usize)], last: usize) -> Vec<usize> {
    let mut rows: Vec<usize> = vec![];
    for (_, r) in cells {
        for d in -3i64..=3 {
            let rr = *r as i64 + d;
            if rr >= 0 && rr as usize <= last {
                rows.push(rr as usize);
            }
        }
    }
    rows.sort();
    rows.dedup();
    rows
}

/// Number of failing gate constraints in the rows around `cells` (the only
/// rows an edit of these cells can have broken).
pub fn local_failures(p: &MockProver<Fq>, cells: &[(usize, usize)]) -> usize {
    let n = p.advice().first().map(|c| c.len()).unwrap_or(0) as i64;
    if n == 0 {
        return 0;
    }
    let last = p.usable_rows().end.saturating_sub(1);
    let t = Tables { p, n, ov: vec![] };
    rows_near(cells, last).iter().map(|r| t.failing_at(*r)).sum()
}

/// Names of the failing gate constraints around `cells` (diagnostics).
pub fn describe_failures(p: &MockProver<Fq>, cells: &[(usize, usize)]) -> Vec<String> {
    let n = p.advice().first().map(|c| c.len()).unwrap_or(0) as i64;
    let last = p.usable_rows().end.saturating_sub(1);
    let t = Tables { p, n, ov: vec![] };
    let mut out = vec![];
    for row in rows_near(cells, last) {
        for g in p.cs().gates() {
            for (i, poly) in g.polynomials().iter().enumerate() {
                if t.eval(poly, row) != Fq::ZERO {
                    out.push(format!("{}#{i}@{row}", g.name()));
                }
            }
        }
    }
    out
}

/// Limb re-decomposition: if `poly` at `row` is linear in the free cells `cells`
/// with coefficients a_j = a_min * 2^(k_j), sets them to the radix digits of the
/// value that zeroes it. Kept only if the failing count around the cells drops.
fn radix_repair(p: &MockProver<Fq>, n: i64, poly: &Expression<Fq>, row: usize, cells: &[(usize, usize)], last: usize, t: &Tables<'_>) -> Option<Vec<((usize, usize), Fq)>> {
    use ff::PrimeField;
    use num_bigint::BigUint;
    if cells.len() < 2 || cells.len() > 40 {
        return None;
    }
    let big = |f: &Fq| BigUint::from_bytes_le(f.to_repr().as_ref());
    let eval = |ov: Vec<((usize, usize), Fq)>| Tables { p, n, ov }.eval(poly, row);
    let zeros: Vec<((usize, usize), Fq)> = cells.iter().map(|c| (*c, Fq::ZERO)).collect();
    let c0 = eval(zeros.clone());
    let mut coef = vec![];
    for j in 0..cells.len() {
        let mut ov = zeros.clone();
        ov[j].1 = Fq::ONE;
        coef.push(eval(ov) - c0);
    }
    // linearity check at another point
    let probe: Vec<((usize, usize), Fq)> = cells.iter().enumerate().map(|(j, c)| (*c, Fq::from(3 + j as u64))).collect();
    let lin = coef.iter().enumerate().fold(c0, |acc, (j, a)| acc + *a * Fq::from(3 + j as u64));
    if eval(probe) != lin {
        return None;
    }
    // cells with a non-zero coefficient, as multiples 2^k of the smallest one
    let mut idx: Vec<usize> = (0..cells.len()).filter(|j| coef[*j] != Fq::ZERO).collect();
    if idx.len() < 2 {
        return None;
    }
    let a_min = {
        // the coefficient a such that all others are a * 2^k with small k: try each
        let mut best = None;
        for &j in &idx {
            let inv = Option::<Fq>::from(coef[j].invert())?;
            if idx.iter().all(|i| {
                let r = big(&(coef[*i] * inv));
                r.bits() <= 250 && r.count_ones() == 1
            }) {
                best = Some(coef[j]);
                break;
            }
        }
        best?
    };
    let inv = Option::<Fq>::from(a_min.invert())?;
    let mut ks: Vec<(u64, usize)> = idx.drain(..).map(|j| (big(&(coef[j] * inv)).bits() - 1, j)).collect();
    ks.sort();
    if ks.windows(2).any(|w| w[0].0 == w[1].0) {
        return None;
    }
    let target = big(&(-c0 * inv));
    if target.bits() > 250 {
        return None;
    }
    let mut assign = vec![];
    for (i, (k, j)) in ks.iter().enumerate() {
        let shifted = &target >> *k;
        let digit = if i + 1 < ks.len() { shifted % (BigUint::from(1u8) << (ks[i + 1].0 - k)) } else { shifted };
        let mut bytes = digit.to_bytes_le();
        bytes.resize(32, 0);
        let v = Option::<Fq>::from(Fq::from_repr(bytes.try_into().ok()?))?;
        assign.push((cells[*j], v));
    }
    // the low bits below the smallest coefficient must vanish
    if ks[0].0 != 0 && (&target % (BigUint::from(1u8) << ks[0].0)) != BigUint::from(0u8) {
        return None;
    }
    let rows = rows_near(&assign.iter().map(|a| a.0).collect::<Vec<_>>(), last);
    let before: usize = rows.iter().map(|r| t.failing_at(*r)).sum();
    let tt = Tables { p, n, ov: assign.clone() };
    let after: usize = rows.iter().map(|r| tt.failing_at(*r)).sum();
    (after < before).then_some(assign)
}

/// Joint re-solve of the values a gate row produces: the unknowns are the
/// untouched cells queried at `row` whose copy cycle starts there (hints and
/// outputs of this row: quotients, carries, inverses); every constraint of the
/// row that mentions one of them must vanish. Solved as a linear system around
/// the current values (constraints that are not jointly affine in the unknowns
/// give up). Returns the assignment (whole cycles).
fn joint_repair(p: &MockProver<Fq>, n: i64, mapping: &[Vec<(usize, usize)>], row: usize, touched: &[(usize, usize)]) -> Option<Vec<((usize, usize), Fq)>> {
    let t0 = Tables { p, n, ov: vec![] };
    let mut polys: Vec<&Expression<Fq>> = vec![];
    for g in p.cs().gates() {
        for poly in g.polynomials() {
            polys.push(poly);
        }
    }
    // unknown groups
    let mut groups: Vec<Vec<(usize, usize)>> = vec![];
    for poly in &polys {
        if t0.eval(poly, row) == Fq::ZERO {
            continue;
        }
        for c in advice_cells(poly, row, n) {
            if touched.contains(&c) || groups.iter().any(|g| g.contains(&c)) {
                continue;
            }
            if let Some(cy) = cycle_of(p, mapping, c.0, c.1) {
                if cy.iter().all(|x| !touched.contains(x)) && cy.iter().map(|x| x.1).min() == Some(c.1) && matches!(p.advice()[c.0][c.1], CellValue::Assigned(_)) {
                    groups.push(cy);
                }
            }
        }
    }
    if groups.len() < 2 || groups.len() > 8 {
        return None;
    }
    let cur: Vec<Fq> = groups.iter().map(|g| cell(&p.advice()[g[0].0][g[0].1])).collect();
    let ov_for = |d: &[Fq]| -> Vec<((usize, usize), Fq)> { groups.iter().zip(d).zip(&cur).flat_map(|((g, d), c)| g.iter().map(move |x| (*x, *c + *d))).collect() };
    // the constraints at this row (and the neighbouring rows that query these cells)
    let last = p.usable_rows().end.saturating_sub(1);
    let rows = rows_near(&groups.iter().map(|g| g[0]).collect::<Vec<_>>(), last);
    let mut eqs: Vec<(Vec<Fq>, Fq)> = vec![];
    let k = groups.len();
    for r in rows {
        for poly in &polys {
            let qs = advice_cells(poly, r, n);
            if !groups.iter().any(|g| qs.contains(&g[0])) {
                continue;
            }
            let at = |d: &[Fq]| Tables { p, n, ov: ov_for(d) }.eval(poly, r);
            let zero = vec![Fq::ZERO; k];
            let c0 = at(&zero);
            let mut a = vec![];
            for j in 0..k {
                let mut d = zero.clone();
                d[j] = Fq::ONE;
                a.push(at(&d) - c0);
            }
            if a.iter().all(|x| *x == Fq::ZERO) {
                if c0 != Fq::ZERO && r == row {
                    // fails whatever the unknowns are
                }
                continue;
            }
            // affine check
            let probe: Vec<Fq> = (0..k).map(|j| Fq::from(5 + 3 * j as u64)).collect();
            let lin = a.iter().zip(&probe).fold(c0, |acc, (a, x)| acc + *a * *x);
            if at(&probe) != lin {
                return None;
            }
            eqs.push((a, -c0));
        }
    }
    if eqs.is_empty() {
        return None;
    }
    // Gaussian elimination; free unknowns keep their value (d = 0)
    let mut piv_of_col: Vec<Option<usize>> = vec![None; k];
    let mut r0 = 0;
    for col in 0..k {
        let Some(pr) = (r0..eqs.len()).find(|i| eqs[*i].0[col] != Fq::ZERO) else { continue };
        eqs.swap(r0, pr);
        let inv = eqs[r0].0[col].invert().unwrap();
        for x in eqs[r0].0.iter_mut() {
            *x *= inv;
        }
        eqs[r0].1 *= inv;
        let (pa, pb) = (eqs[r0].0.clone(), eqs[r0].1);
        for (i, e) in eqs.iter_mut().enumerate() {
            if i != r0 && e.0[col] != Fq::ZERO {
                let f = e.0[col];
                for (x, y) in e.0.iter_mut().zip(&pa) {
                    *x -= f * *y;
                }
                e.1 -= f * pb;
            }
        }
        piv_of_col[col] = Some(r0);
        r0 += 1;
    }
    // inconsistent rows
    if eqs.iter().skip(r0).any(|e| e.1 != Fq::ZERO) {
        return None;
    }
    let d: Vec<Fq> = (0..k).map(|c| piv_of_col[c].map(|r| eqs[r].1).unwrap_or(Fq::ZERO)).collect();
    if d.iter().all(|x| *x == Fq::ZERO) {
        return None;
    }
    Some(ov_for(&d).into_iter().filter(|(c, v)| cell(&p.advice()[c.0][c.1]) != *v).collect())
}

/// Tries up to `depth` repairs. Returns the number of repairs made. `protected`
/// are the cells the fault changed: failures are looked for around them.
pub fn attempt(p: &mut MockProver<Fq>, changed: &mut Vec<(usize, usize)>, rng: &mut Prng, depth: usize) -> usize {
    attempt_with(p, changed, rng, depth, false)
}

/// `allow_sideways`: when no step strictly reduces the failures, a step that fixes the
/// constraint at hand and breaks exactly as many elsewhere is taken (no cell is ever
/// changed twice, so this terminates).
pub fn attempt_with(p: &mut MockProver<Fq>, changed: &mut Vec<(usize, usize)>, rng: &mut Prng, depth: usize, allow_sideways: bool) -> usize {
    use rayon::iter::ParallelIterator;
    let n = p.advice().first().map(|c| c.len()).unwrap_or(0) as i64;
    if n == 0 {
        return 0;
    }
    let mapping: Vec<Vec<(usize, usize)>> = p.permutation().mapping().map(|c| c.collect::<Vec<_>>()).collect();
    let upto = last_used_row(p);
    let last = upto.min(p.usable_rows().end.saturating_sub(1));
    let mut made = 0;
    let mut touched: Vec<(usize, usize)> = changed.clone();
    let mut joint_tried: Vec<usize> = vec![];
    for _ in 0..depth {
        let fix: Option<Vec<((usize, usize), Fq)>> = {
            let t = Tables { p, n, ov: vec![] };
            let fails = failing(p, &t, &rows_near(&touched, last));
            if fails.is_empty() {
                *changed = touched;
                return made;
            }
            let mut found = None;
            let mut sideways: Option<Vec<((usize, usize), Fq)>> = None;
            // several constraints of one row fail: re-solve what the row produces, jointly
            if allow_sideways {
                let first_row = fails[0].1;
                if fails.iter().filter(|f| f.1 == first_row).count() >= 2 && !joint_tried.contains(&first_row) {
                    joint_tried.push(first_row);
                    found = joint_repair(p, n, &mapping, first_row, &touched);
                }
            }
            if found.is_none() {
            // work on the first failing rows
            'outer: for (poly, row) in fails.iter().take(4) {
                let mut cands = advice_cells(poly, *row, n);
                cands.sort();
                cands.dedup();
                cands.retain(|c| !touched.contains(c));
                // pure hints first (cells in no copy cycle cannot have other users), then
                // cells with their whole copy cycle
                let mut groups: Vec<Vec<(usize, usize)>> = vec![];
                for c in cands {
                    if let Some(cy) = cycle_of(p, &mapping, c.0, c.1) {
                        if cy.iter().all(|x| !touched.contains(x)) {
                            groups.push(cy);
                        }
                    }
                }
                rng.shuffle(&mut groups);
                groups.sort_by_key(|g| g.len());
                let free_cells: Vec<(usize, usize)> = groups.iter().filter(|g| g.len() == 1).map(|g| g[0]).collect();
                for g in groups.into_iter().take(12) {
                    // rows whose constraints may mention a changed cell
                    let mut rows: Vec<usize> = vec![];
                    for (_, r) in &g {
                        for d in -3i64..=3 {
                            let rr = *r as i64 + d;
                            if rr >= 0 && rr as usize <= last && !rows.contains(&(rr as usize)) {
                                rows.push(rr as usize);
                            }
                        }
                    }
                    let before: usize = rows.iter().map(|r| t.failing_at(*r)).sum();
                    for root in solve(p, n, poly, *row, &g) {
                        let tt = Tables { p, n, ov: g.iter().map(|c| (*c, root)).collect() };
                        let after: usize = rows.iter().map(|r| tt.failing_at(*r)).sum();
                        if after < before {
                            found = Some(g.iter().map(|c| (*c, root)).collect());
                            break 'outer;
                        }
                        // the failure moves elsewhere (typically into the decomposition of the
                        // changed cell, which a later step can redo): second choice
                        // only for a value produced at this row (the first cell of its cycle):
                        // the failure is pushed forward, to where the value is used
                        if after == before && sideways.is_none() && g.len() > 1 && g.iter().map(|c| c.1).min() == Some(g[0].1) {
                            sideways = Some(g.iter().map(|c| (*c, root)).collect());
                        }
                    }
                }
                // radix repair: the polynomial is linear in several free cells whose
                // coefficients are powers of two of one another (a limb decomposition):
                // re-decompose the target over them
                if let Some(assign) = radix_repair(p, n, poly, *row, &free_cells, last, &t) {
                    found = Some(assign);
                    break 'outer;
                }
            }
            }
            if found.is_none() && allow_sideways {
                found = sideways;
            }
            found
        };
        match fix {
            None => {
                *changed = touched;
                return made;
            }
            Some(assign) => {
                for ((col, row), v) in assign {
                    p.advice_mut()[col][row] = CellValue::Assigned(v);
                    touched.push((col, row));
                }
                made += 1;
            }
        }
    }
    *changed = touched;
    made
}
