#!/usr/bin/env python3
"""Writes /verif/MANIFEST.json from the table below (single source of truth)."""
import json, os
ROOT = os.path.dirname(os.path.dirname(os.path.abspath(__file__)))
ALL = ["C%02d" % i for i in range(1, 21)]

CHECKS = {
 "C01": dict(cat="exploration", tech="deterministic simulation, fault-free configuration (seeded schedule + configuration search)", ref="DESIGN.md 4/C01",
   text="Seeded simulation of the whole proof pipeline (key generator, prover of 1..4 circuits, verifier) over a generated circuit family, with every party's pool size and task order, the blinding stream, the transcript hash and the committed/plain split drawn per run; fault-free configuration. A clean batch is evidence, not proof.",
   note="Trusts the generator to sample the expressible circuits (GenCircuit: gates of degree <= 5 with rotations -2..2, multiplicative/additive selectors, lookup/lookup_any, 5 kinds of copy constraints, 1..3 phases, unblinded columns, both floor planners); SRS from a fixed secret; rayon replaced by the scheduler shim."),
 "C02": dict(cat="fault_enumeration", tech="deterministic simulation with a Byzantine prover (single-cell and public-input faults), differential oracle against the constraint checker", ref="DESIGN.md 4/C02",
   text="The pipeline of C01 with a Byzantine prover: per generated circuit the key is generated once and a list of plans is delivered - no edit, one edited advice cell (sites walked in thorough mode, sampled in quick), one edited public input - to the real prover+verifier and to MockProver; the two verdicts must coincide and every constraint class must be seen rejected by the real verifier.",
   note="Single-cell, non-propagated edits only; the generated family stands for 'all circuits'; a prover that errors or panics on a bad assignment counts as rejection."),
 "C04": dict(cat="exploration", tech="deterministic simulation with a Byzantine prover (faults injected at advice assignment with honest continuation, then bounded local repair of failing gate rows) over an operation registry with a configuration swarm; big-integer reference model", ref="DESIGN.md 3.2, 4/C04",
   text="Every native-field operation of the instruction traits reachable through the standard library (arithmetic, assertions, zero/equality tests, boolean logic, bitwise, bit/byte/chunk (de)composition, canonicity, sign, range checks, comparison, division, select/swap, conversions) runs on boundary-class inputs under a drawn pow2range configuration: the honest run must be satisfiable with the reference result iff the inputs are in the documented domain, and no Byzantine execution (1..3 faulted assignments, continuation from the faulty value, up to 3 re-solved hint cells) may be accepted with public inputs/outputs that contradict the definition.",
   note="MockProver is the constraint model (cross-checked by C02); sampling of fault sites in quick mode, every assignment ordinal of every 4th case in thorough mode; comparison instructions other than lower_than, vectors and maps are not reachable through ZkStdLib and are not yet covered."),
 "C05": dict(cat="exploration", tech="deterministic simulation with a Byzantine prover (assignment faults with honest continuation, local repair) over the emulated-field and BigUint operation registry; modular big-integer reference with a harness-side limb decoder", ref="DESIGN.md 3.2, 4/C05",
   text="Emulated-field operations over secp256k1 Fp/Fq and BLS12-381 Fp (incl. chains that leave elements un-normalised) and BigUint operations of widths 1..2048 bits run on boundary-class operands; the honest run must be satisfiable with the reference result iff the operands are admissible, and no Byzantine execution may be accepted unless the published values, decoded from marker-delimited limb groups, satisfy the operation modulo m with reduced, limb-bounded representations.",
   note="One known finding (non-canonical public-input exposure of emulated elements, see known_findings.json); Curve25519 parameter sets are not reachable through ZkStdLib and are not covered; MockProver is the constraint model."),
 "C06": dict(cat="exploration", tech="deterministic simulation with a Byzantine prover over the elliptic-curve operation registry; affine group law over big integers as reference, harness-side point decoder", ref="DESIGN.md 3.2, 4/C06",
   text="Jubjub (native) assignment, add, double, negate, msm (1..4 terms, bounded and unbounded scalars), multiplication by a constant, point from coordinates, equality / identity tests, select and assertions, and secp256k1 / BLS12-381 G1 (foreign) assignment, add, double, negate, point from coordinates, equality, select and multiplication by a constant run on identity, P=Q, P=-Q, low-order and off-curve operands and boundary scalars; honest runs must be satisfiable with the group-law result iff the operands are admissible, and no Byzantine execution may be accepted unless the published points decode to curve (subgroup) points satisfying the group law.",
   note="Foreign-curve variable-base msm, hash-to-curve and (de)compression are not covered at this commit; MockProver is the constraint model; sampling of fault sites."),
 "C07": dict(cat="exploration", tech="deterministic simulation with a Byzantine prover over the hash operation registry; reference crates and an independent textbook Poseidon as oracles", ref="DESIGN.md 3.2, 4/C07",
   text="SHA-256, SHA-512, SHA3-256, Keccak-256, BLAKE2b-256/512 and fixed-length Poseidon circuits of the standard library hash messages of every length around the padding boundaries; the published input bytes and digest must equal the reference function (for Poseidon: the library's off-circuit hash and a textbook permutation written independently over the repository's constants), honestly and under Byzantine plans with faults sampled over the whole assignment trace and local repair of failing gate rows (incl. additive-selector constraints).",
   note="RIPEMD-160, variable-length SHA-256 / Poseidon and sponge absorb/squeeze sequences are not reachable through ZkStdLib and are not covered at this commit; fault sites are sampled."),
 "C08": dict(cat="exploration", tech="deterministic simulation of the two parties of a public input (verifier-side formatter vs prover-side circuit) with instance-vector faults; read-back of the bound instance through the copy constraints", ref="DESIGN.md 4/C08",
   text="For every Instantiable type reachable through the standard library (bit, byte, native, three emulated fields, Jubjub point and scalar, secp256k1 and BLS12-381 G1 points, BigUint of 1..2048 bits) and every exposure path (constrain_as_public_input, assign_as_public_input, committed instance column) the instance bound by the circuit must equal T::as_public_input(v), every single-position edit of it must be rejected, distinct values must have distinct encodings, and (sampled) the real key generator's nb_public_inputs must make the real verifier accept exactly the off-circuit encoding (not one element fewer or more).",
   note="No schedule or storage dimension (stated in DESIGN.md); vk identity / accumulator / MSM encodings belong to C20's harness and IR value types to C18's; non-canonical exposure under a Byzantine prover is the known finding listed under C05."),
 "C09": dict(cat="exploration", tech="deterministic simulation: invariant monitor on a structure-recording Assignment back end (unknown vs concrete vs Byzantine witnesses), sampled real keygen/prove/verify", ref="DESIGN.md 4/C09",
   text="Each operation circuit of the registry is synthesised with unknown witnesses, with the concrete boundary-class witness and under Byzantine value edits; fixed cells, selectors, the copy-constraint partition, table fills, advice positions and region count must coincide, and for a sample the verifying key made without a witness must verify a real proof made from the witness.",
   note="Covers the operation circuits present in the registry (native family at this commit, extended as the registry grows); the proof pipeline circuits of C01 have witness-independent structure by construction of the generator."),
 "C12": dict(cat="exploration", tech="deterministic simulation with the scheduler as the subject (PRNG-chosen pool size and task order per run), naive-definition oracle", ref="DESIGN.md 4/C12",
   text="Every MSM, FFT and domain-algebra entry point is executed under a drawn pool size (1..64, including pools larger than the input) and task order and compared with its naive definition: all MSM lengths 0..70 for all five MSM entry points, eval_polynomial and parallelize at all lengths 0..64, then sampled sizes up to 2^12 crossing the window switches (4, 32, e^9), FFT sizes 2^0..2^12 over scalars and 2^0..2^6 over G1, domains k=1..10 with quotient degrees 1..8, rotations -3..3, l_i ranges with negative and beyond-n indices.",
   note="Naive definitions use the library's own field and single-point group operations (C10/C11 out of scope); blst's internal pool is disabled, its real single-threaded Pippenger runs; task-order permutation exposes arrival-order dependence, not sub-task data races (there is no shared mutable state in these sections)."),
 "C14": dict(cat="fault_enumeration", tech="deterministic simulation of the opening protocol's two parties with channel faults on the proof and misdelivery faults on the shared query set; schoolbook-evaluation oracle", ref="DESIGN.md 4/C14",
   text="Query sets (every assignment pattern of <= 3 points to <= 3 polynomials - <= 4 in thorough - then sampled sets of up to 12 polynomials x 5 points, with zero / constant / low-degree / identical polynomials, chopped commitments of 2..4 pieces, shared points, shuffled query order) are opened by the real prover under a drawn schedule; the untouched opening must verify and every single fault - each claimed evaluation, evaluation point, commitment or commitment piece on the verifier side, each element of the opening proof replaced by valid and invalid encodings, truncations, appended bytes - must be rejected; a repeated (commitment, point) pair must be refused with DuplicatedQuery by both parties.",
   note="Soundness error ignored; a changed evaluation point on a constant polynomial is skipped (the claim stays true and the honest proof is identical); sizes k=2..7."),
 "C15": dict(cat="exploration", tech="deterministic simulation of a batch verifier receiving honest and faulted deliveries (corruption, misdelivery, duplication, reordering, empty and length-mismatched batches); single-verifier oracle", ref="DESIGN.md 4/C15",
   text="Batches of 0..6 deliveries over two standard-library relations of different size - honest proofs from a pool, or members faulted by a proof bit flip, a wrong / extra / missing public input or the wrong key, in drawn order with repetitions - are given to zk_stdlib::batch_verify, Guard::batch_verify, DualMSM scale/add_msm/check and the off-circuit Accumulator (from_dual_msm, accumulate, collapse, check, with both keys' fixed bases); the verdict must equal the conjunction of the single verifier's verdicts, and empty or length-mismatched batches must return a value.",
   note="Two relations (Poseidon k=6, arithmetic) with four honest proofs each; the random-linear-combination soundness error is ignored; Accumulator::accumulate is exercised on >= 1 accumulators."),
 "C16": dict(cat="fault_enumeration", tech="deterministic simulation with storage/channel faults (truncation at every byte, all 256 values of every header byte, bit flips, splices, appended and random bytes, short reads, EINTR) on every verifier-facing decoder, in rlimited child processes under a counting allocator", ref="DESIGN.md 4/C16",
   text="Every verifier-facing decoder (MidnightVK, ZkStdLibArch, proofs VerifyingKey, verifier parameters, IR programs as JSON and bincode, proof bytes) is fed corrupted encodings; the outcome must be Ok or Err - never a panic, abort, stack overflow, hang or a single allocation above 16 MiB + 64 x input - every key that decodes must then verify proofs without panicking, and checked formats must re-encode to the bytes they consumed with all points on the curve (in the subgroup for compressed points). Truncation points and header bytes are enumerated, body corruption is sampled.",
   note="Fixtures: a Poseidon standard-library relation, an arithmetic relation, one generated circuit, a 10-instruction IR program; proving keys and full parameter sets are exercised and reported only (counters in the evidence); RawBytesUnchecked excluded as the property states."),
 "C17": dict(cat="exploration", tech="deterministic simulation: scheduler (pool size, task order, fresh OS threads) x storage faults (short/interrupted I/O, crash = durable prefix) x restart epochs", ref="DESIGN.md 4/C17",
   text="Key generation is repeated under different simulated pools and task orders on fresh OS threads and must give byte-identical verifying keys; vk, pk and params go through write / restart / read epochs over a fault-injecting disk (short writes and reads, EINTR, crash mid-write) in every compatible format pair and must re-serialise identically, keep their transcript identity and remain interchangeable (proofs from original and reloaded pk under original and reloaded vk); downsize and re-derived parameters are compared byte for byte.",
   note="HashMap iteration order cannot be seeded, so order dependence is detected with probability >= 1 - 2^-5 per run by repetition on fresh threads; GenCircuit family at k <= 8 (standard-library keys are covered through C16's decoders)."),
 "C18": dict(cat="exploration", tech="deterministic simulation of two implementations of one interface (off-circuit interpreter vs compiled circuit) on generated IR programs, with program-corruption faults, a Byzantine prover (witness-cell faults with honest continuation) on the compiled circuit and storage faults (short / interrupted I/O) on the serialised forms; the interpreter is the reference model", ref="DESIGN.md 4/C18",
   text="Generated straight-line IR programs (1..25 instructions over all 17 operations and 6 value types, dataflow reuse, constants, every load published first, results published last) with boundary-class witnesses (0, max BigUint of the declared width, identity point, scalar order-1, scalars >= order through bytes, byte arrays of length 0..70) are evaluated off-circuit and compiled: success with published values P requires the circuit to be satisfiable with exactly format_instance(P) (instance read off the copy constraints), an assertion / range / underflow / encoding failure requires it not to be; ill-typed, wrong-arity, duplicate-name, missing-name and missing-witness variants must get an error value from both sides, never a panic; under a Byzantine prover an accepted execution must publish what the interpreter computes from the loads the circuit binds; the binary form written and read through faulty writers / readers must re-encode identically and decode to the JSON form's instructions.",
   note="The interpreter is one of the two systems under test (hash / arithmetic gadgets get independent references under C04-C07). SHA-256 / SHA-512 instructions only in every 8th program; programs needing k > 13 are skipped (counted). Two known findings (publication of a JubjubScalar decoded from 0 or >= 32 bytes)."),
 "C19": dict(cat="exploration", tech="seeded generation of expressions decided on ALL words by exhaustive exploration of the product of the compiled automaton with the derivative automaton of an independent reference semantics; deterministic simulation of the in-circuit parser and base64 decoder under a Byzantine prover (H1 witness faults with honest continuation, late edits on whole copy cycles with local repair)", ref="DESIGN.md 4/C19",
   text="Generated expressions over all combinators (byte classes, complement classes, words, concatenation, union, intersection with marker unification, complement, difference, star / plus / optional, exact and bounded repetition, separated lists, mark_bytes, replace_markers; depth <= 5) are compiled by the library and compared with Brzozowski derivatives over marked letters on all words (every byte, every marker): a reachable product state where exactly one side accepts is reported with its word. Accepted and rejected words of length 0..40 then go through a circuit built on AutomatonChip: satisfiable exactly for accepted words with the reference markers, also under the Byzantine prover. Fixed-length base64 / base64url decoding in the standard-library circuit for decoded lengths 0..48, padded / unpadded, single-character corruptions, misplaced padding, non-canonical trailing bits: well-formed inputs decode to the standard bytes, malformed ones are unsatisfiable.",
   note="Expressions that are not sequentially output-deterministic are skipped (the library requires it), as are products above 60000 states (counted). Variable-length base64, the credential parser gadget and the shipped serialized automaton's specification (private) are not exercised. Three known findings."),
 "C03": dict(cat="fault_enumeration", tech="deterministic simulation with channel faults (corruption, truncation, duplication, reordering, misdelivery) placed per proof element via the tracing transcript; statement-store oracle", ref="DESIGN.md 4/C03",
   text="Every element of every sampled proof is replaced by other valid and by invalid encodings, the proof is truncated at every element boundary, extended, reordered and bit-flipped, every public-input vector is edited / permuted / shortened / extended / moved, committed instances, vk and transcript hash are swapped; each altered delivery must be rejected with an error and the untouched delivery must still be accepted afterwards.",
   note="Cryptographic soundness error ignored; proofs come from the GenCircuit family at k <= 7; thorough mode flips every bit only of proofs <= 2 KiB."),
}

NA = {
 "C10": "pure function of its operands (field arithmetic): no party, message, storage, scheduler, clock or fault in the statement; see DESIGN.md section 5",
 "C11": "pure function of its operands (curve group law and encodings): nothing for a simulator to schedule or fault; decoders under corrupted bytes are exercised under C16; see DESIGN.md section 5",
 "C13": "pure function of its operands (pairing bilinearity): no schedule, storage or fault dimension; see DESIGN.md section 5",
}

HOOK_COMMITS = ["eefe67f", "d905b28", "a3114a6"]

m = {
 "version": 1,
 "setup_cmd": "cd sim && CARGO_NET_OFFLINE=true cargo build --release --offline",
 "hooks": {
   "guard": "--cfg midnight_zk_verif (rustc cfg)",
   "enable": "RUSTFLAGS=--cfg midnight_zk_verif, set by /verif/sim/.cargo/config.toml for every build of the simulator; /repo crates are path dependencies of /verif/sim and are rebuilt from the working tree by every check",
   "baseline_off_cmd": "cd /repo && (cargo nextest run --workspace --no-fail-fast --test-threads 8 --offline || cargo test --workspace --no-fail-fast --offline)",
   "source_commits": HOOK_COMMITS,
   "add_only": True,
 },
 "engines": [{
   "name": "zksim", "path": "sim", "serves_properties": sorted(CHECKS),
   "kind_free_text": "deterministic simulator: seeded scenarios, PRNG-scheduled rayon replacement (shims/rayon), faulty Read/Write, tracing transcript, Byzantine prover hook, minimiser, replay files",
 }],
 "checks": [],
 "not_applicable": [],
 "notes": "See DESIGN.md. Exit codes of every check: 0 held, 1 VIOLATION (replay file written and re-executed in a fresh process first), 2 harness/build error. known_findings.json lists genuine defects and the fix: commits.",
}
for pid in sorted(CHECKS):
    c = CHECKS[pid]
    m["checks"].append({
        "property_id": pid,
        "quick_cmd": f"./check {pid} quick",
        "thorough_cmd": f"./check {pid} thorough",
        "evidence_file": f"evidence/{pid}.json",
        "replay_cmd_template": "./sim/target/release/zksim replay {path}",
        "engine": "zksim",
        "level_claimed": {"category": c["cat"], "text": c["text"], "design_ref": c["ref"]},
        "level_note": c["note"],
        "technique": c["tech"],
    })
for pid in ALL:
    if pid in CHECKS:
        continue
    reason = NA.get(pid, "not claimed yet: its simulation check is designed (DESIGN.md section 4) but not built at this commit")
    m["not_applicable"].append({"property_id": pid, "reason": reason})
json.dump(m, open(os.path.join(ROOT, "MANIFEST.json"), "w"), indent=2)
print("wrote MANIFEST.json:", len(m["checks"]), "checks")
