#!/usr/bin/env python3
"""Prints the prompt given to a fresh sub-agent that seeds a property-breaking change."""
import json, sys
pid = sys.argv[1]
tag = sys.argv[2] if len(sys.argv) > 2 else pid
p = [json.loads(l) for l in open('/verif/properties.jsonl') if json.loads(l)['id'] == pid][0]
print(f"""You are helping to evaluate a verification effort by seeding a realistic defect into a Rust code base.

Repository: /repo is a git checkout of midnight-zk (Midnight's zero-knowledge stack: BLS12-381/JubJub curves in `curves/`, a halo2-derived PLONK/KZG proof system in `proofs/`, a circuit gadget library in `circuits/`, `zk_stdlib/`, `zkir/`, `aggregator/`). Start from its README and top-level layout and read whatever source you need.

RULES
- Never edit anything under /repo itself and never read or touch /verif (off limits). Work only in your own scratch git worktree:
    git -C /repo worktree add --detach /tmp/seed-{tag}/wt HEAD
    cp /repo/Cargo.lock /tmp/seed-{tag}/wt/Cargo.lock      # Cargo.lock is untracked; the sandbox is offline
  Always build with: CARGO_NET_OFFLINE=true CARGO_TARGET_DIR=/tmp/seed-{tag}/target cargo ... --offline   (run from inside the worktree)
- The machine is shared: pass `-j 4` to cargo and `--test-threads 4` to tests.
- There is no network. Do not try to fetch crates.

THE PROPERTY (of midnight-zk) that your change must break:
  {p['id']} - {p['title']}
  Statement: {p['statement']}
  Intended quantification: {p['quantifier']['text']}

YOUR TASK
Produce a small change to the LIBRARY source (not to tests) that makes the property false, such that
  (a) the workspace still compiles,
  (b) the existing tests still pass (run at least the tests of every crate you touch, e.g. `cargo test -p midnight-proofs --offline -j 4 -- --test-threads 4`; the whole workspace takes ~20 minutes so only run more if you have reason to think other crates are affected; do not edit or delete existing tests), and
  (c) the defect needs something specific to manifest - a particular thread count or interleaving, a fault/crash/truncation at a particular point, a multi-step sequence of operations, an unusual but legal input or configuration, or two cooperating sites that each look fine alone. It must NOT be something ordinary use (or the existing tests) would expose at once. Think of the kind of subtle bug a real maintainer could introduce in a refactoring or optimisation.
Also write a demonstration: a new test file or small example program (kept separate from the patch) that FAILS with your change and PASSES without it, and actually run it both ways.

DELIVERABLES, in /tmp/seed-{tag}/out/ (create it):
  patch.diff   - `git diff` of the library change only (must apply with `git apply` on top of /repo's HEAD)
  demo/        - the demonstration file(s) plus a README.txt with the exact commands to run it (where to copy the file, which cargo command)
  meta.json    - {{"property": "{p['id']}", "summary": "...what the change does...", "needs": "...what is required for it to manifest...", "verified": "...commands you ran and what you observed, with and without the change..."}}
If time allows, produce a second, different change in /tmp/seed-{tag}/out2/ with the same layout (different mechanism, different part of the code).
Budget: about 45 minutes. When done, reply with a 5-line summary (what you changed, what it needs to manifest, that the existing tests you ran pass, that the demo fails with / passes without). Leave the worktree in place (it will be cleaned up by the caller).""")
