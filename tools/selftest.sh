#!/bin/bash
# Determinism and no-false-alarm self-test of every registered check (quick tier).
#  (a) same seed, 16 workers twice and 3 workers once: per-run digests (verdict + counters + events) must be identical
#  (b) VERIF_SEED=1 and VERIF_SEED=777: exit 0 on the unchanged tree
# Appends to tools/selftest.log. Usage: tools/selftest.sh [ID...]
cd "$(dirname "$0")/.." || exit 2
IDS="${*:-C01 C02 C03 C04 C05 C06 C07 C08 C09 C12 C14 C15 C16 C17 C18 C19 C20}"
LOG=tools/selftest.log
D=$(mktemp -d)
( cd sim && cargo build --release >/dev/null 2>&1 ) || { echo "build failed"; exit 2; }
BIN=$D/zksim; cp sim/target/release/zksim $BIN   # a private copy: the tree may be rebuilt meanwhile
echo "== selftest $(date -u +%FT%TZ) /repo $(git -C /repo rev-parse --short HEAD) /verif $(git rev-parse --short HEAD)" >> $LOG
for id in $IDS; do
  Z="env ZKSIM_ROOT=$(pwd) $BIN check $id --tier quick --no-evidence"
  $Z --workers 16 --digest-out $D/$id.a >/dev/null 2>&1; ea=$?
  $Z --workers 16 --digest-out $D/$id.b >/dev/null 2>&1; eb=$?
  $Z --workers 3  --digest-out $D/$id.c >/dev/null 2>&1; ec=$?
  if cmp -s $D/$id.a $D/$id.b && cmp -s $D/$id.a $D/$id.c; then det="deterministic ($(wc -l < $D/$id.a) run digests equal across 16/16/3 workers)"; else det="NONDETERMINISTIC: $(diff $D/$id.a $D/$id.c | head -3 | tr '\n' ' ')"; fi
  VERIF_SEED=1 $Z --workers 16 >/dev/null 2>&1; e1=$?
  VERIF_SEED=777 $Z --workers 16 >/dev/null 2>&1; e2=$?
  echo "$id exits default=$ea/$eb/$ec seed1=$e1 seed777=$e2 $det" | tee -a $LOG
done
rm -rf $D
