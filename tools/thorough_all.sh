#!/bin/bash
# Runs the thorough tier of every registered check, one after the other; one summary line per check.
cd "$(dirname "$0")/.." || exit 2
for id in ${*:-C01 C02 C03 C04 C05 C06 C07 C08 C09 C12 C14 C15 C16 C17 C18 C19 C20}; do
  s=$(date +%s)
  out=$(nice -n 5 ./check $id thorough 2>&1 | grep -v "^\[\|^    \|^}\|^\s*$\|^32>")
  rc=$?
  e=$(( $(date +%s) - s ))
  echo "$id thorough wall=${e}s :: $(echo "$out" | grep -c '^KNOWN-FINDING') known-finding lines :: $(echo "$out" | grep "^VIOLATION\|^HARNESS\|^$id:" | tr '\n' ' ' | cut -c1-400)"
done
