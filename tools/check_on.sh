#!/bin/bash
# usage: check_on.sh <repo checkout> <ID> [tier] [extra zksim args...]
# Builds the simulator against ANOTHER checkout of midnight-zk (a scratch worktree carrying a
# seeded change) and runs one check on it, without touching /repo or the evidence files.
# Used for mutation testing only; registered commands always use /repo (./check).
set -u
WT="$1"; ID="$2"; TIER="${3:-quick}"; shift; shift; shift 2>/dev/null
V="$(cd "$(dirname "$0")/.." && pwd)"
S="/tmp/zksim-on-$(echo "$WT" | tr '/' '_')"
mkdir -p "$S/.cargo"
rm -rf "$S/src"; cp -r "$V/sim/src" "$S/src"
cp "$V/sim/Cargo.lock" "$S/Cargo.lock"
sed -e "s#/repo/#$WT/#g" -e "s#\.\./shims/rayon#$V/shims/rayon#" "$V/sim/Cargo.toml" > "$S/Cargo.toml"
cp "$V/sim/.cargo/config.toml" "$S/.cargo/config.toml"
( cd "$S" && CARGO_NET_OFFLINE=true nice -n 5 cargo build --release > "$S/build.log" 2>&1 ) || { echo "HARNESS-ERROR: build against $WT failed (see $S/build.log)"; tail -5 "$S/build.log"; exit 2; }
ZKSIM_ROOT="$V" "$S/target/release/zksim" check "$ID" --tier "$TIER" --no-evidence "$@"
