#!/usr/bin/env python3
"""Regenerates the generated tables of DESIGN.md (between BEGIN:/END: markers)
from known_findings.json and seeded/*/meta.json."""
import json, os, re, glob
ROOT = os.path.dirname(os.path.dirname(os.path.abspath(__file__)))
k = json.load(open(os.path.join(ROOT, "known_findings.json")))

def esc(s):
    return s.replace("|", "\\|").replace("\n", " ")

fixed = ["| property | commit | what failed on the pinned tree |", "|---|---|---|"]
for e in k["fixed"]:
    m = re.match(r"fixed: property=(\S+) (\S+) (.*)", e)
    fixed.append(f"| {m.group(1)} | `{m.group(2)}` | {esc(m.group(3))} |")

find = ["| property | signature | finding |", "|---|---|---|"]
for f in k["findings"]:
    find.append(f"| {f['property']} | `{esc(f['sig'])}` | {esc(f['text'])} |")

seeds = ["| seeded change | property | what it changes | what it needs | detected |", "|---|---|---|---|---|"]
for d in sorted(glob.glob(os.path.join(ROOT, "seeded", "*"))):
    mp = os.path.join(d, "meta.json")
    if not os.path.exists(mp):
        continue
    m = json.load(open(mp))
    det = m.get("detected", "?")
    note = m.get("note", "")
    out = m.get("check_output", "")
    seeds.append(f"| {os.path.basename(d)} | {m.get('property','')} | {esc(m.get('summary',''))[:400]} | {esc(m.get('needs', m.get('needs_to_manifest','')))[:300]} | **{det}** - {esc(out)[:220]}{(' - ' + esc(note)[:400]) if note else ''} |")

p = os.path.join(ROOT, "DESIGN.md")
s = open(p).read()
for name, rows in [("FIXED", fixed), ("FINDINGS", find), ("SEEDS", seeds)]:
    a = f"<!-- BEGIN:{name} -->"
    b = f"<!-- END:{name} -->"
    if a in s:
        s = s[: s.index(a) + len(a)] + "\n" + "\n".join(rows) + "\n" + s[s.index(b):]
open(p, "w").write(s)
print("tables:", len(fixed) - 2, "fixed,", len(find) - 2, "findings,", len(seeds) - 2, "seeds")
