#!/bin/bash
# usage: confirm_seed.sh <seed root, e.g. /tmp/seed-C01> <out dir name, e.g. out> <crate> <demo test file> [demo dest dir relative to worktree, default <crate dir>/tests]
# Confirms a seeded change in the agent's scratch worktree (never in /repo):
#  1. worktree at /repo's HEAD, clean: demo passes
#  2. patch applied: demo fails
#  3. patch applied: the crate's existing tests pass
# Writes <seed root>/<out>/confirm.log and prints a one-line verdict.
set -u
ROOT="$1"; OUT="$2"; CRATE="$3"; DEMO="$4"; CRATEDIR="${5:-}"
WT="$ROOT/wt"; LOG="$ROOT/$OUT/confirm.log"; : > "$LOG"
export CARGO_NET_OFFLINE=true CARGO_TARGET_DIR="$ROOT/target"
HEAD=$(git -C /repo rev-parse HEAD)
[ -d "$WT" ] || git -C /repo worktree add --detach "$WT" HEAD >/dev/null 2>&1
cd "$WT" || exit 2
git checkout -q -- . && git clean -qfd -e Cargo.lock && git checkout -q --detach "$HEAD" || exit 2
cp /repo/Cargo.lock "$WT/Cargo.lock"
case "$CRATE" in
  midnight-proofs) D=proofs;; midnight-curves) D=curves;; midnight-circuits) D=circuits;;
  midnight-zk-stdlib) D=zk_stdlib;; midnight-zkir) D=zkir;; midnight-aggregator) D=aggregator;; *) D="$CRATEDIR";;
esac
[ -n "$CRATEDIR" ] && D="$CRATEDIR"
TEST=$(basename "$DEMO" .rs)
CREATED_TESTS_DIR=0; [ -d "$WT/$D/tests" ] || { mkdir -p "$WT/$D/tests"; CREATED_TESTS_DIR=1; }
cp "$ROOT/$OUT/demo/$DEMO" "$WT/$D/tests/$DEMO" || exit 2
# CONFIRM_FEATURES (e.g. "--features testing") and CONFIRM_RUSTFLAGS (e.g. "--cfg midnight_zk_verif") apply to the demo only
run_demo() { RUSTFLAGS="${CONFIRM_RUSTFLAGS:-}" nice -n 5 cargo test -p "$CRATE" ${CONFIRM_FEATURES:-} --offline -j 6 --test "$TEST" -- --test-threads 4 >>"$LOG" 2>&1; }
echo "== demo without patch" >>"$LOG"; run_demo; A=$?
git apply "$ROOT/$OUT/patch.diff" >>"$LOG" 2>&1 || { echo "PATCH DOES NOT APPLY"; exit 2; }
echo "== demo with patch" >>"$LOG"; run_demo; B=$?
rm -f "$WT/$D/tests/$DEMO"; [ $CREATED_TESTS_DIR -eq 1 ] && rmdir "$WT/$D/tests"
echo "== existing tests of $CRATE with patch" >>"$LOG"
# CONFIRM_TESTS_CRATE: crate whose existing tests are run with the patch (default: the demo's crate);
# CONFIRM_TEST_ARGS: extra cargo arguments for them (e.g. --lib where the crate's integration tests need files absent offline)
nice -n 5 cargo test -p "${CONFIRM_TESTS_CRATE:-$CRATE}" ${CONFIRM_TEST_ARGS:-} --offline -j 6 -- --test-threads 6 >>"$LOG" 2>&1; C=$?
git checkout -q -- .
echo "seed $ROOT/$OUT: demo_without_patch_exit=$A demo_with_patch_exit=$B existing_tests_with_patch_exit=$C"
[ $A -eq 0 ] && [ $B -ne 0 ] && [ $C -eq 0 ] && echo CONFIRMED || echo NOT-CONFIRMED
