#!/usr/bin/env python3
"""keep_seed.py <seed root> <out dir> <seeded id> <detected: yes|no|after-strengthening> <check output line> [note]
Copies a confirmed seeded change into /verif/seeded/<id>/ (patch.diff, demo/, meta.json)."""
import json, os, shutil, sys
root, out, sid, detected, line = sys.argv[1:6]
note = sys.argv[6] if len(sys.argv) > 6 else ""
src = os.path.join(root, out)
dst = os.path.join("/verif/seeded", sid)
os.makedirs(dst, exist_ok=True)
shutil.copy(os.path.join(src, "patch.diff"), os.path.join(dst, "patch.diff"))
if os.path.isdir(os.path.join(dst, "demo")):
    shutil.rmtree(os.path.join(dst, "demo"))
shutil.copytree(os.path.join(src, "demo"), os.path.join(dst, "demo"))
meta = json.load(open(os.path.join(src, "meta.json")))
confirm = open(os.path.join(src, "confirm.log")).read() if os.path.exists(os.path.join(src, "confirm.log")) else ""
meta.update({
    "breaks_property": meta.get("property"),
    "needs_to_manifest": meta.get("needs"),
    "confirmed_by_me": "tools/confirm_seed.sh in the agent's scratch worktree at /repo's HEAD: demo passes without the patch, fails with it, the touched crate's existing tests pass with it",
    "confirm_log_tail": confirm[-1500:],
    "check_run": f"git -C /repo apply seeded/{sid}/patch.diff; ./check {meta.get('property')} quick; git -C /repo checkout -- .",
    "detected": detected,
    "check_output": line,
    "note": note,
})
json.dump(meta, open(os.path.join(dst, "meta.json"), "w"), indent=1)
print("kept", dst)
