//! Deterministic single-threaded stand-in for rayon: the scheduler seam of the
//! midnight-zk simulator.
//!
//! Every "parallel" construct executes on the calling OS thread. Every choice
//! a real pool could make (pool size seen by `current_num_threads`, the order
//! in which spawned tasks / iterator items run, where folds are split and how
//! partial results are associated) is drawn from a thread-local PRNG that the
//! simulator seeds per run phase. Results are placed by index, which is
//! rayon's ordering contract.
use std::cell::RefCell;

pub mod sim {
    use super::*;

    /// Scheduler state of the current OS thread.
    #[derive(Clone, Debug)]
    pub struct Sched {
        pub state: u64,
        pub threads: usize,
        pub permute: bool,
        /// number of scheduling decisions taken
        pub decisions: u64,
        /// rolling digest of all decisions (identifies the interleaving)
        pub digest: u64,
        /// number of parallel constructs entered (scope / join / par_iter stage)
        pub constructs: u64,
        /// number of tasks / items scheduled
        pub tasks: u64,
    }

    thread_local! {
        pub(crate) static SCHED: RefCell<Sched> = RefCell::new(Sched {
            state: 0x9E37_79B9_7F4A_7C15, threads: 1, permute: false,
            decisions: 0, digest: 0xcbf2_9ce4_8422_2325, constructs: 0, tasks: 0,
        });
    }

    /// Starts a new scheduling phase: pool size `threads`, task order drawn
    /// from `seed` when `permute`, identity order otherwise. Counters and the
    /// digest keep accumulating across phases until `reset_stats`.
    pub fn set(seed: u64, threads: usize, permute: bool) {
        SCHED.with(|s| {
            let mut s = s.borrow_mut();
            s.state = seed.wrapping_mul(0x9E37_79B9_7F4A_7C15) | 1;
            s.threads = threads.max(1);
            s.permute = permute;
            let t = s.threads as u64;
            s.digest = (s.digest ^ (0x5bd1_e995 + t)).wrapping_mul(0x100_0000_01b3);
        });
    }

    pub fn reset_stats() {
        SCHED.with(|s| {
            let mut s = s.borrow_mut();
            s.decisions = 0;
            s.digest = 0xcbf2_9ce4_8422_2325;
            s.constructs = 0;
            s.tasks = 0;
        });
    }

    /// Runs `f` with a sequential identity-order pool of `threads` workers and
    /// restores the previous scheduler state (PRNG, counters, digest)
    /// afterwards: used for fixtures that must not perturb the run's schedule.
    pub fn isolated<R>(threads: usize, f: impl FnOnce() -> R) -> R {
        let saved = get();
        SCHED.with(|s| {
            let mut s = s.borrow_mut();
            s.threads = threads.max(1);
            s.permute = false;
        });
        let r = f();
        SCHED.with(|s| *s.borrow_mut() = saved);
        r
    }

    pub fn get() -> Sched {
        SCHED.with(|s| s.borrow().clone())
    }

    pub(crate) fn next(bound: usize) -> usize {
        SCHED.with(|s| {
            let mut s = s.borrow_mut();
            let mut x = s.state;
            x ^= x << 13;
            x ^= x >> 7;
            x ^= x << 17;
            s.state = x;
            let r = ((x >> 11) % (bound as u64).max(1)) as usize;
            s.decisions += 1;
            s.digest = (s.digest ^ (r as u64 + 1)).wrapping_mul(0x100_0000_01b3);
            r
        })
    }

    pub(crate) fn permute_on() -> bool {
        SCHED.with(|s| s.borrow().permute)
    }

    pub(crate) fn construct(tasks: usize) {
        SCHED.with(|s| {
            let mut s = s.borrow_mut();
            s.constructs += 1;
            s.tasks += tasks as u64;
        });
    }

    /// A PRNG-chosen execution order for `n` independent tasks.
    pub(crate) fn order(n: usize) -> Vec<usize> {
        let mut v: Vec<usize> = (0..n).collect();
        if permute_on() {
            for i in (1..n).rev() {
                let j = next(i + 1);
                v.swap(i, j);
            }
        }
        v
    }
}

pub fn current_num_threads() -> usize {
    sim::SCHED.with(|s| s.borrow().threads)
}

pub fn join<A, B, RA, RB>(a: A, b: B) -> (RA, RB)
where
    A: FnOnce() -> RA + Send,
    B: FnOnce() -> RB + Send,
    RA: Send,
    RB: Send,
{
    sim::construct(2);
    if sim::permute_on() && sim::next(2) == 1 {
        let rb = b();
        let ra = a();
        (ra, rb)
    } else {
        let ra = a();
        let rb = b();
        (ra, rb)
    }
}

type Task<'scope> = Box<dyn FnOnce(&Scope<'scope>) + Send + 'scope>;

pub struct Scope<'scope> {
    q: RefCell<Vec<Task<'scope>>>,
}

impl<'scope> Scope<'scope> {
    pub fn spawn<F>(&self, f: F)
    where
        F: FnOnce(&Scope<'scope>) + Send + 'scope,
    {
        sim::construct(1);
        self.q.borrow_mut().push(Box::new(f));
        // a real pool may start a task at any time after it was spawned: run
        // a PRNG-chosen number of pending tasks now, in PRNG-chosen order
        if sim::permute_on() && sim::next(4) == 0 {
            self.run_some();
        }
    }

    fn run_some(&self) {
        let n = self.q.borrow().len();
        if n == 0 {
            return;
        }
        let k = sim::next(n) + 1;
        for _ in 0..k {
            let t = {
                let mut q = self.q.borrow_mut();
                if q.is_empty() {
                    break;
                }
                let i = sim::next(q.len());
                q.swap_remove(i)
            };
            t(self);
        }
    }

    fn drain(&self) {
        loop {
            let t = {
                let mut q = self.q.borrow_mut();
                if q.is_empty() {
                    break;
                }
                let i = if sim::permute_on() { sim::next(q.len()) } else { 0 };
                q.remove(i)
            };
            t(self);
        }
    }
}

pub fn scope<'scope, OP, R>(op: OP) -> R
where
    OP: FnOnce(&Scope<'scope>) -> R + Send,
    R: Send,
{
    let s = Scope { q: RefCell::new(Vec::new()) };
    let r = op(&s);
    s.drain();
    r
}

pub mod iter {
    //! Eager, Vec-backed parallel iterators: every stage applies its closure
    //! to the items in a PRNG-chosen order and places the results by index.
    use super::sim;

    pub struct ParIter<T> {
        pub(crate) items: Vec<T>,
    }

    pub(crate) fn run_ordered<T, U, F: FnMut(T) -> U>(items: Vec<T>, mut f: F) -> Vec<U> {
        let n = items.len();
        sim::construct(n);
        let ord = sim::order(n);
        let mut src: Vec<Option<T>> = items.into_iter().map(Some).collect();
        let mut dst: Vec<Option<U>> = (0..n).map(|_| None).collect();
        for i in ord {
            dst[i] = Some(f(src[i].take().unwrap()));
        }
        dst.into_iter().map(|x| x.unwrap()).collect()
    }

    /// PRNG-chosen contiguous segments of 0..n (how a real pool splits a fold)
    fn segments(n: usize) -> Vec<(usize, usize)> {
        let mut cuts = vec![];
        let mut pos = 0;
        while pos < n {
            let step = if sim::permute_on() { sim::next(n - pos) + 1 } else { n - pos };
            cuts.push((pos, pos + step));
            pos += step;
        }
        if n == 0 {
            cuts.push((0, 0));
        }
        cuts
    }

    /// Combines partial results with a PRNG-chosen association (adjacent pairs).
    fn reduce_adjacent<T, F: Fn(T, T) -> T>(mut v: Vec<T>, op: F) -> Option<T> {
        while v.len() > 1 {
            let i = if sim::permute_on() { sim::next(v.len() - 1) } else { 0 };
            let b = v.remove(i + 1);
            let a = v.remove(i);
            v.insert(i, op(a, b));
        }
        v.pop()
    }

    /// `Result` / `Option` abstraction for the `try_*` adapters.
    pub trait Try2 {
        type Output;
        type Residual;
        fn branch(self) -> Result<Self::Output, Self::Residual>;
        fn from_output(o: Self::Output) -> Self;
        fn from_residual(r: Self::Residual) -> Self;
    }
    impl<T, E> Try2 for Result<T, E> {
        type Output = T;
        type Residual = E;
        fn branch(self) -> Result<T, E> {
            self
        }
        fn from_output(o: T) -> Self {
            Ok(o)
        }
        fn from_residual(r: E) -> Self {
            Err(r)
        }
    }
    impl<T> Try2 for Option<T> {
        type Output = T;
        type Residual = ();
        fn branch(self) -> Result<T, ()> {
            self.ok_or(())
        }
        fn from_output(o: T) -> Self {
            Some(o)
        }
        fn from_residual(_: ()) -> Self {
            None
        }
    }

    pub trait ParallelIterator: Sized {
        type Item;
        fn into_vec(self) -> Vec<Self::Item>;

        fn for_each<F: Fn(Self::Item) + Sync + Send>(self, f: F) {
            run_ordered(self.into_vec(), f);
        }
        fn for_each_with<T: Clone + Send, F: Fn(&mut T, Self::Item) + Sync + Send>(self, init: T, f: F) {
            run_ordered(self.into_vec(), |x| {
                let mut t = init.clone();
                f(&mut t, x)
            });
        }
        fn for_each_init<T, INIT: Fn() -> T + Sync + Send, F: Fn(&mut T, Self::Item) + Sync + Send>(self, init: INIT, f: F) {
            run_ordered(self.into_vec(), |x| {
                let mut t = init();
                f(&mut t, x)
            });
        }
        fn try_for_each<R: Try2<Output = ()>, F: Fn(Self::Item) -> R + Sync + Send>(self, f: F) -> R {
            for r in run_ordered(self.into_vec(), f) {
                if let Err(e) = r.branch() {
                    return R::from_residual(e);
                }
            }
            R::from_output(())
        }
        fn map<U, F: Fn(Self::Item) -> U + Sync + Send>(self, f: F) -> ParIter<U> {
            ParIter { items: run_ordered(self.into_vec(), f) }
        }
        fn map_with<T: Clone + Send, U, F: Fn(&mut T, Self::Item) -> U + Sync + Send>(self, init: T, f: F) -> ParIter<U> {
            ParIter {
                items: run_ordered(self.into_vec(), |x| {
                    let mut t = init.clone();
                    f(&mut t, x)
                }),
            }
        }
        fn map_init<T, U, INIT: Fn() -> T + Sync + Send, F: Fn(&mut T, Self::Item) -> U + Sync + Send>(self, init: INIT, f: F) -> ParIter<U> {
            ParIter {
                items: run_ordered(self.into_vec(), |x| {
                    let mut t = init();
                    f(&mut t, x)
                }),
            }
        }
        fn inspect<F: Fn(&Self::Item) + Sync + Send>(self, f: F) -> ParIter<Self::Item> {
            ParIter {
                items: run_ordered(self.into_vec(), |x| {
                    f(&x);
                    x
                }),
            }
        }
        fn update<F: Fn(&mut Self::Item) + Sync + Send>(self, f: F) -> ParIter<Self::Item> {
            ParIter {
                items: run_ordered(self.into_vec(), |mut x| {
                    f(&mut x);
                    x
                }),
            }
        }
        fn filter_map<U, F: Fn(Self::Item) -> Option<U> + Sync + Send>(self, f: F) -> ParIter<U> {
            ParIter { items: run_ordered(self.into_vec(), f).into_iter().flatten().collect() }
        }
        fn filter<F: Fn(&Self::Item) -> bool + Sync + Send>(self, f: F) -> ParIter<Self::Item> {
            ParIter {
                items: run_ordered(self.into_vec(), |x| if f(&x) { Some(x) } else { None })
                    .into_iter()
                    .flatten()
                    .collect(),
            }
        }
        fn flat_map<PI: IntoParallelIterator, F: Fn(Self::Item) -> PI + Sync + Send>(self, f: F) -> ParIter<PI::Item> {
            ParIter {
                items: run_ordered(self.into_vec(), |x| f(x).into_par_iter().into_vec())
                    .into_iter()
                    .flatten()
                    .collect(),
            }
        }
        fn flat_map_iter<SI: IntoIterator, F: Fn(Self::Item) -> SI + Sync + Send>(self, f: F) -> ParIter<SI::Item> {
            ParIter {
                items: run_ordered(self.into_vec(), |x| f(x).into_iter().collect::<Vec<_>>())
                    .into_iter()
                    .flatten()
                    .collect(),
            }
        }
        fn flatten(self) -> ParIter<<Self::Item as IntoParallelIterator>::Item>
        where
            Self::Item: IntoParallelIterator,
        {
            ParIter { items: self.into_vec().into_iter().flat_map(|x| x.into_par_iter().into_vec()).collect() }
        }
        fn flatten_iter(self) -> ParIter<<Self::Item as IntoIterator>::Item>
        where
            Self::Item: IntoIterator,
        {
            ParIter { items: self.into_vec().into_iter().flatten().collect() }
        }
        fn all<F: Fn(Self::Item) -> bool + Sync + Send>(self, f: F) -> bool {
            run_ordered(self.into_vec(), f).into_iter().all(|b| b)
        }
        fn any<F: Fn(Self::Item) -> bool + Sync + Send>(self, f: F) -> bool {
            run_ordered(self.into_vec(), f).into_iter().any(|b| b)
        }
        fn find_any<F: Fn(&Self::Item) -> bool + Sync + Send>(self, f: F) -> Option<Self::Item> {
            // any matching item may be returned: pick a PRNG-chosen one
            let mut hits: Vec<Self::Item> = self.filter(f).into_vec();
            if hits.is_empty() {
                None
            } else {
                let i = if sim::permute_on() { sim::next(hits.len()) } else { 0 };
                Some(hits.swap_remove(i))
            }
        }
        fn find_first<F: Fn(&Self::Item) -> bool + Sync + Send>(self, f: F) -> Option<Self::Item> {
            self.filter(f).into_vec().into_iter().next()
        }
        fn find_last<F: Fn(&Self::Item) -> bool + Sync + Send>(self, f: F) -> Option<Self::Item> {
            self.filter(f).into_vec().into_iter().last()
        }
        fn find_map_any<R, F: Fn(Self::Item) -> Option<R> + Sync + Send>(self, f: F) -> Option<R> {
            let mut hits: Vec<R> = self.filter_map(f).into_vec();
            if hits.is_empty() {
                None
            } else {
                let i = if sim::permute_on() { sim::next(hits.len()) } else { 0 };
                Some(hits.swap_remove(i))
            }
        }
        fn find_map_first<R, F: Fn(Self::Item) -> Option<R> + Sync + Send>(self, f: F) -> Option<R> {
            self.filter_map(f).into_vec().into_iter().next()
        }
        fn copied<'a, T: 'a + Copy>(self) -> ParIter<T>
        where
            Self: ParallelIterator<Item = &'a T>,
        {
            ParIter { items: self.into_vec().into_iter().copied().collect() }
        }
        fn cloned<'a, T: 'a + Clone>(self) -> ParIter<T>
        where
            Self: ParallelIterator<Item = &'a T>,
        {
            ParIter { items: self.into_vec().into_iter().cloned().collect() }
        }
        fn chain<C: IntoParallelIterator<Item = Self::Item>>(self, c: C) -> ParIter<Self::Item> {
            let mut v = self.into_vec();
            v.extend(c.into_par_iter().into_vec());
            ParIter { items: v }
        }
        fn collect<C: FromIterator<Self::Item>>(self) -> C {
            self.into_vec().into_iter().collect()
        }
        fn unzip<A, B, FA: Default + Extend<A>, FB: Default + Extend<B>>(self) -> (FA, FB)
        where
            Self: ParallelIterator<Item = (A, B)>,
        {
            self.into_vec().into_iter().unzip()
        }
        fn partition<A: Default + Extend<Self::Item>, B: Default + Extend<Self::Item>, P: Fn(&Self::Item) -> bool + Sync + Send>(self, p: P) -> (A, B) {
            let flags = run_ordered(self.into_vec(), |x| (p(&x), x));
            let (mut a, mut b) = (A::default(), B::default());
            for (f, x) in flags {
                if f {
                    a.extend(Some(x));
                } else {
                    b.extend(Some(x));
                }
            }
            (a, b)
        }
        fn count(self) -> usize {
            self.into_vec().len()
        }
        /// partial results of PRNG-chosen contiguous segments
        fn fold<T, ID: Fn() -> T + Sync + Send, F: Fn(T, Self::Item) -> T + Sync + Send>(self, identity: ID, fold_op: F) -> ParIter<T> {
            let items = self.into_vec();
            let n = items.len();
            sim::construct(n);
            let mut it = items.into_iter();
            let mut out = vec![];
            for (a, b) in segments(n) {
                let mut acc = identity();
                for _ in a..b {
                    acc = fold_op(acc, it.next().unwrap());
                }
                out.push(acc);
            }
            ParIter { items: out }
        }
        fn fold_with<T: Clone + Send + Sync, F: Fn(T, Self::Item) -> T + Sync + Send>(self, init: T, fold_op: F) -> ParIter<T> {
            self.fold(move || init.clone(), fold_op)
        }
        fn reduce<ID: Fn() -> Self::Item + Sync + Send, OP: Fn(Self::Item, Self::Item) -> Self::Item + Sync + Send>(self, identity: ID, op: OP) -> Self::Item {
            // fold every segment from the identity, then combine with a PRNG association
            let parts = self.fold(&identity, &op).into_vec();
            reduce_adjacent(parts, &op).unwrap_or_else(identity)
        }
        fn reduce_with<OP: Fn(Self::Item, Self::Item) -> Self::Item + Sync + Send>(self, op: OP) -> Option<Self::Item> {
            let v = self.into_vec();
            sim::construct(v.len());
            reduce_adjacent(v, &op)
        }
        fn sum<S: std::iter::Sum<Self::Item> + std::iter::Sum<S> + Send>(self) -> S {
            // partial sums of PRNG-chosen segments, then the sum of the partial sums
            let items = self.into_vec();
            let n = items.len();
            sim::construct(n);
            let mut it = items.into_iter();
            let mut parts: Vec<S> = vec![];
            for (a, b) in segments(n) {
                parts.push((&mut it).take(b - a).sum());
            }
            parts.into_iter().sum()
        }
        fn product<P: std::iter::Product<Self::Item> + std::iter::Product<P> + Send>(self) -> P {
            let items = self.into_vec();
            let n = items.len();
            sim::construct(n);
            let mut it = items.into_iter();
            let mut parts: Vec<P> = vec![];
            for (a, b) in segments(n) {
                parts.push((&mut it).take(b - a).product());
            }
            parts.into_iter().product()
        }
        fn min(self) -> Option<Self::Item>
        where
            Self::Item: Ord,
        {
            self.into_vec().into_iter().min()
        }
        fn max(self) -> Option<Self::Item>
        where
            Self::Item: Ord,
        {
            self.into_vec().into_iter().max()
        }
        fn min_by<F: Fn(&Self::Item, &Self::Item) -> std::cmp::Ordering + Sync + Send>(self, f: F) -> Option<Self::Item> {
            self.into_vec().into_iter().min_by(|a, b| f(a, b))
        }
        fn max_by<F: Fn(&Self::Item, &Self::Item) -> std::cmp::Ordering + Sync + Send>(self, f: F) -> Option<Self::Item> {
            self.into_vec().into_iter().max_by(|a, b| f(a, b))
        }
        fn min_by_key<K: Ord + Send, F: Fn(&Self::Item) -> K + Sync + Send>(self, f: F) -> Option<Self::Item> {
            self.into_vec().into_iter().min_by_key(|a| f(a))
        }
        fn max_by_key<K: Ord + Send, F: Fn(&Self::Item) -> K + Sync + Send>(self, f: F) -> Option<Self::Item> {
            self.into_vec().into_iter().max_by_key(|a| f(a))
        }
        fn try_fold<T, R, ID, F>(self, identity: ID, fold_op: F) -> ParIter<R>
        where
            ID: Fn() -> T + Sync + Send,
            F: Fn(T, Self::Item) -> R + Sync + Send,
            R: Try2<Output = T>,
        {
            let items = self.into_vec();
            let n = items.len();
            sim::construct(n);
            let mut it = items.into_iter();
            let mut out = vec![];
            for (a, b) in segments(n) {
                let mut acc: Result<T, R::Residual> = Ok(identity());
                for _ in a..b {
                    let x = it.next().unwrap();
                    acc = match acc {
                        Ok(v) => fold_op(v, x).branch(),
                        e => e,
                    };
                }
                out.push(match acc {
                    Ok(v) => R::from_output(v),
                    Err(e) => R::from_residual(e),
                });
            }
            ParIter { items: out }
        }
        fn try_fold_with<T: Clone + Send + Sync, R, F>(self, init: T, fold_op: F) -> ParIter<R>
        where
            F: Fn(T, Self::Item) -> R + Sync + Send,
            R: Try2<Output = T>,
        {
            self.try_fold(move || init.clone(), fold_op)
        }
        fn try_reduce<T, OP, ID>(self, identity: ID, op: OP) -> Self::Item
        where
            OP: Fn(T, T) -> Self::Item + Sync + Send,
            ID: Fn() -> T + Sync + Send,
            Self::Item: Try2<Output = T>,
        {
            let mut acc = identity();
            for x in self.into_vec() {
                match x.branch() {
                    Ok(v) => match op(acc, v).branch() {
                        Ok(a) => acc = a,
                        Err(e) => return <Self::Item as Try2>::from_residual(e),
                    },
                    Err(e) => return <Self::Item as Try2>::from_residual(e),
                }
            }
            <Self::Item as Try2>::from_output(acc)
        }
        fn try_reduce_with<T, OP>(self, op: OP) -> Option<Self::Item>
        where
            OP: Fn(T, T) -> Self::Item + Sync + Send,
            Self::Item: Try2<Output = T>,
        {
            let mut it = self.into_vec().into_iter();
            let first = it.next()?;
            let mut acc = match first.branch() {
                Ok(v) => v,
                Err(e) => return Some(<Self::Item as Try2>::from_residual(e)),
            };
            for x in it {
                match x.branch() {
                    Ok(v) => match op(acc, v).branch() {
                        Ok(a) => acc = a,
                        Err(e) => return Some(<Self::Item as Try2>::from_residual(e)),
                    },
                    Err(e) => return Some(<Self::Item as Try2>::from_residual(e)),
                }
            }
            Some(<Self::Item as Try2>::from_output(acc))
        }
        fn while_some<T>(self) -> ParIter<T>
        where
            Self: ParallelIterator<Item = Option<T>>,
        {
            ParIter { items: self.into_vec().into_iter().map_while(|x| x).collect() }
        }
        fn panic_fuse(self) -> ParIter<Self::Item> {
            ParIter { items: self.into_vec() }
        }
        fn opt_len(&self) -> Option<usize> {
            None
        }
    }

    pub trait IndexedParallelIterator: ParallelIterator {
        fn enumerate(self) -> ParIter<(usize, Self::Item)> {
            ParIter { items: self.into_vec().into_iter().enumerate().collect() }
        }
        fn rev(self) -> ParIter<Self::Item> {
            let mut v = self.into_vec();
            v.reverse();
            ParIter { items: v }
        }
        fn zip<Z: IntoParallelIterator>(self, z: Z) -> ParIter<(Self::Item, Z::Item)> {
            ParIter { items: self.into_vec().into_iter().zip(z.into_par_iter().into_vec()).collect() }
        }
        fn zip_eq<Z: IntoParallelIterator>(self, z: Z) -> ParIter<(Self::Item, Z::Item)> {
            let (a, b) = (self.into_vec(), z.into_par_iter().into_vec());
            assert_eq!(a.len(), b.len(), "iterators must have the same length");
            ParIter { items: a.into_iter().zip(b).collect() }
        }
        fn interleave<I: IntoParallelIterator<Item = Self::Item>>(self, other: I) -> ParIter<Self::Item> {
            let (a, b) = (self.into_vec(), other.into_par_iter().into_vec());
            let (mut ia, mut ib) = (a.into_iter(), b.into_iter());
            let mut out = vec![];
            loop {
                match (ia.next(), ib.next()) {
                    (None, None) => break,
                    (x, y) => {
                        out.extend(x);
                        out.extend(y);
                    }
                }
            }
            ParIter { items: out }
        }
        fn skip(self, n: usize) -> ParIter<Self::Item> {
            ParIter { items: self.into_vec().into_iter().skip(n).collect() }
        }
        fn take(self, n: usize) -> ParIter<Self::Item> {
            ParIter { items: self.into_vec().into_iter().take(n).collect() }
        }
        fn step_by(self, n: usize) -> ParIter<Self::Item> {
            ParIter { items: self.into_vec().into_iter().step_by(n).collect() }
        }
        fn chunks(self, n: usize) -> ParIter<Vec<Self::Item>> {
            assert!(n != 0, "chunk_size must not be zero");
            let mut out = vec![];
            let mut cur = vec![];
            for x in self.into_vec() {
                cur.push(x);
                if cur.len() == n {
                    out.push(std::mem::take(&mut cur));
                }
            }
            if !cur.is_empty() {
                out.push(cur);
            }
            ParIter { items: out }
        }
        fn fold_chunks<T, ID: Fn() -> T + Sync + Send, F: Fn(T, Self::Item) -> T + Sync + Send>(self, n: usize, identity: ID, f: F) -> ParIter<T> {
            ParIter { items: run_ordered(self.chunks(n).into_vec(), |c| c.into_iter().fold(identity(), &f)) }
        }
        fn position_any<P: Fn(Self::Item) -> bool + Sync + Send>(self, p: P) -> Option<usize> {
            let hits: Vec<usize> = run_ordered(self.into_vec(), p).into_iter().enumerate().filter(|x| x.1).map(|x| x.0).collect();
            if hits.is_empty() {
                None
            } else {
                Some(hits[if sim::permute_on() { sim::next(hits.len()) } else { 0 }])
            }
        }
        fn position_first<P: Fn(Self::Item) -> bool + Sync + Send>(self, p: P) -> Option<usize> {
            run_ordered(self.into_vec(), p).into_iter().position(|b| b)
        }
        fn position_last<P: Fn(Self::Item) -> bool + Sync + Send>(self, p: P) -> Option<usize> {
            run_ordered(self.into_vec(), p).into_iter().rposition(|b| b)
        }
        fn collect_into_vec(self, target: &mut Vec<Self::Item>) {
            *target = self.into_vec();
        }
        fn unzip_into_vecs<A, B>(self, left: &mut Vec<A>, right: &mut Vec<B>)
        where
            Self: IndexedParallelIterator<Item = (A, B)>,
        {
            let (l, r): (Vec<A>, Vec<B>) = self.into_vec().into_iter().unzip();
            *left = l;
            *right = r;
        }
        fn with_min_len(self, _m: usize) -> Self {
            self
        }
        fn with_max_len(self, _m: usize) -> Self {
            self
        }
        fn len(&self) -> usize;
    }
    impl<T> ParallelIterator for ParIter<T> {
        type Item = T;
        fn into_vec(self) -> Vec<T> {
            self.items
        }
        fn opt_len(&self) -> Option<usize> {
            Some(self.items.len())
        }
    }
    impl<T> IndexedParallelIterator for ParIter<T> {
        fn len(&self) -> usize {
            self.items.len()
        }
    }

    pub trait IntoParallelIterator {
        type Item;
        type Iter: ParallelIterator<Item = Self::Item>;
        fn into_par_iter(self) -> Self::Iter;
    }
    impl<T> IntoParallelIterator for ParIter<T> {
        type Item = T;
        type Iter = ParIter<T>;
        fn into_par_iter(self) -> ParIter<T> {
            self
        }
    }
    macro_rules! owned_impl { ($(($($g:tt)*) $t:ty => $item:ty),* $(,)?) => { $(
        impl<$($g)*> IntoParallelIterator for $t {
            type Item = $item; type Iter = ParIter<$item>;
            fn into_par_iter(self) -> ParIter<$item> { ParIter { items: self.into_iter().collect() } }
        } )* } }
    owned_impl!(
        (T) Vec<T> => T,
        (T) Option<T> => T,
        (T) std::collections::VecDeque<T> => T,
        (T) std::collections::BTreeSet<T> => T,
        (T, S) std::collections::HashSet<T, S> => T,
        (K, V) std::collections::BTreeMap<K, V> => (K, V),
        (K, V, S) std::collections::HashMap<K, V, S> => (K, V),
        (T, const N: usize) [T; N] => T,
        ('a, T) &'a Vec<T> => &'a T,
        ('a, T) &'a [T] => &'a T,
        ('a, T, const N: usize) &'a [T; N] => &'a T,
        ('a, T) &'a Option<T> => &'a T,
        ('a, T) &'a std::collections::VecDeque<T> => &'a T,
        ('a, T) &'a std::collections::BTreeSet<T> => &'a T,
        ('a, T, S) &'a std::collections::HashSet<T, S> => &'a T,
        ('a, K, V) &'a std::collections::BTreeMap<K, V> => (&'a K, &'a V),
        ('a, K, V, S) &'a std::collections::HashMap<K, V, S> => (&'a K, &'a V),
        ('a, T) &'a mut Vec<T> => &'a mut T,
        ('a, T) &'a mut [T] => &'a mut T,
        ('a, T, const N: usize) &'a mut [T; N] => &'a mut T,
        ('a, T) &'a mut Option<T> => &'a mut T,
        ('a, K, V) &'a mut std::collections::BTreeMap<K, V> => (&'a K, &'a mut V),
        ('a, K, V, S) &'a mut std::collections::HashMap<K, V, S> => (&'a K, &'a mut V),
    );
    impl<T> IntoParallelIterator for Box<[T]> {
        type Item = T;
        type Iter = ParIter<T>;
        fn into_par_iter(self) -> ParIter<T> {
            ParIter { items: self.into_vec() }
        }
    }
    macro_rules! range_impl { ($($t:ty),*) => { $(
        impl IntoParallelIterator for std::ops::Range<$t> {
            type Item = $t; type Iter = ParIter<$t>;
            fn into_par_iter(self) -> ParIter<$t> { ParIter { items: self.collect() } }
        }
        impl IntoParallelIterator for std::ops::RangeInclusive<$t> {
            type Item = $t; type Iter = ParIter<$t>;
            fn into_par_iter(self) -> ParIter<$t> { ParIter { items: self.collect() } }
        } )* } }
    range_impl!(usize, u8, u16, u32, u64, u128, isize, i8, i16, i32, i64, i128);

    pub trait IntoParallelRefIterator<'data> {
        type Item: 'data;
        type Iter: ParallelIterator<Item = Self::Item>;
        fn par_iter(&'data self) -> Self::Iter;
    }
    impl<'data, I: 'data + ?Sized> IntoParallelRefIterator<'data> for I
    where
        &'data I: IntoParallelIterator,
    {
        type Item = <&'data I as IntoParallelIterator>::Item;
        type Iter = <&'data I as IntoParallelIterator>::Iter;
        fn par_iter(&'data self) -> Self::Iter {
            self.into_par_iter()
        }
    }
    pub trait IntoParallelRefMutIterator<'data> {
        type Item: 'data;
        type Iter: ParallelIterator<Item = Self::Item>;
        fn par_iter_mut(&'data mut self) -> Self::Iter;
    }
    impl<'data, I: 'data + ?Sized> IntoParallelRefMutIterator<'data> for I
    where
        &'data mut I: IntoParallelIterator,
    {
        type Item = <&'data mut I as IntoParallelIterator>::Item;
        type Iter = <&'data mut I as IntoParallelIterator>::Iter;
        fn par_iter_mut(&'data mut self) -> Self::Iter {
            self.into_par_iter()
        }
    }

    pub trait FromParallelIterator<T>: FromIterator<T> {}
    impl<T, C: FromIterator<T>> FromParallelIterator<T> for C {}

    pub trait ParallelExtend<T> {
        fn par_extend<I: IntoParallelIterator<Item = T>>(&mut self, par_iter: I);
    }
    impl<T, C: Extend<T>> ParallelExtend<T> for C {
        fn par_extend<I: IntoParallelIterator<Item = T>>(&mut self, par_iter: I) {
            self.extend(par_iter.into_par_iter().into_vec());
        }
    }

    pub trait ParallelBridge: Sized + Iterator {
        fn par_bridge(self) -> ParIter<Self::Item> {
            ParIter { items: self.collect() }
        }
    }
    impl<I: Iterator> ParallelBridge for I {}

    pub fn repeatn<T: Clone>(x: T, n: usize) -> ParIter<T> {
        ParIter { items: vec![x; n] }
    }
    pub fn empty<T>() -> ParIter<T> {
        ParIter { items: vec![] }
    }
    pub fn once<T>(x: T) -> ParIter<T> {
        ParIter { items: vec![x] }
    }
}

pub mod slice {
    use crate::iter::ParIter;

    pub trait ParallelSlice<T> {
        fn as_parallel_slice(&self) -> &[T];
        fn par_chunks(&self, n: usize) -> ParIter<&[T]> {
            ParIter { items: self.as_parallel_slice().chunks(n).collect() }
        }
        fn par_chunks_exact(&self, n: usize) -> ParIter<&[T]> {
            ParIter { items: self.as_parallel_slice().chunks_exact(n).collect() }
        }
        fn par_rchunks(&self, n: usize) -> ParIter<&[T]> {
            ParIter { items: self.as_parallel_slice().rchunks(n).collect() }
        }
        fn par_windows(&self, n: usize) -> ParIter<&[T]> {
            ParIter { items: self.as_parallel_slice().windows(n).collect() }
        }
        fn par_split<P: Fn(&T) -> bool + Sync + Send>(&self, p: P) -> ParIter<&[T]> {
            ParIter { items: self.as_parallel_slice().split(|x| p(x)).collect() }
        }
    }
    impl<T> ParallelSlice<T> for [T] {
        fn as_parallel_slice(&self) -> &[T] {
            self
        }
    }

    pub trait ParallelSliceMut<T> {
        fn as_parallel_slice_mut(&mut self) -> &mut [T];
        fn par_chunks_mut(&mut self, n: usize) -> ParIter<&mut [T]> {
            ParIter { items: self.as_parallel_slice_mut().chunks_mut(n).collect() }
        }
        fn par_chunks_exact_mut(&mut self, n: usize) -> ParIter<&mut [T]> {
            ParIter { items: self.as_parallel_slice_mut().chunks_exact_mut(n).collect() }
        }
        fn par_rchunks_mut(&mut self, n: usize) -> ParIter<&mut [T]> {
            ParIter { items: self.as_parallel_slice_mut().rchunks_mut(n).collect() }
        }
        fn par_split_mut<P: Fn(&T) -> bool + Sync + Send>(&mut self, p: P) -> ParIter<&mut [T]> {
            ParIter { items: self.as_parallel_slice_mut().split_mut(|x| p(x)).collect() }
        }
        fn par_sort_unstable(&mut self)
        where
            T: Ord,
        {
            self.as_parallel_slice_mut().sort_unstable()
        }
        fn par_sort(&mut self)
        where
            T: Ord,
        {
            self.as_parallel_slice_mut().sort()
        }
        fn par_sort_by<F: Fn(&T, &T) -> std::cmp::Ordering + Sync>(&mut self, f: F) {
            self.as_parallel_slice_mut().sort_by(|a, b| f(a, b))
        }
        fn par_sort_unstable_by<F: Fn(&T, &T) -> std::cmp::Ordering + Sync>(&mut self, f: F) {
            self.as_parallel_slice_mut().sort_unstable_by(|a, b| f(a, b))
        }
        fn par_sort_by_key<K: Ord, F: Fn(&T) -> K + Sync>(&mut self, f: F) {
            self.as_parallel_slice_mut().sort_by_key(|a| f(a))
        }
        fn par_sort_unstable_by_key<K: Ord, F: Fn(&T) -> K + Sync>(&mut self, f: F) {
            self.as_parallel_slice_mut().sort_unstable_by_key(|a| f(a))
        }
        fn par_sort_by_cached_key<K: Ord, F: Fn(&T) -> K + Sync>(&mut self, f: F) {
            self.as_parallel_slice_mut().sort_by_cached_key(|a| f(a))
        }
    }
    impl<T> ParallelSliceMut<T> for [T] {
        fn as_parallel_slice_mut(&mut self) -> &mut [T] {
            self
        }
    }
}

pub mod str {
    use crate::iter::ParIter;
    pub trait ParallelString {
        fn as_parallel_string(&self) -> &str;
        fn par_chars(&self) -> ParIter<char> {
            ParIter { items: self.as_parallel_string().chars().collect() }
        }
        fn par_bytes(&self) -> ParIter<u8> {
            ParIter { items: self.as_parallel_string().bytes().collect() }
        }
        fn par_lines(&self) -> ParIter<&str> {
            ParIter { items: self.as_parallel_string().lines().collect() }
        }
        fn par_split_whitespace(&self) -> ParIter<&str> {
            ParIter { items: self.as_parallel_string().split_whitespace().collect() }
        }
    }
    impl ParallelString for str {
        fn as_parallel_string(&self) -> &str {
            self
        }
    }
}

pub mod prelude {
    pub use crate::iter::{
        FromParallelIterator, IndexedParallelIterator, IntoParallelIterator, IntoParallelRefIterator,
        IntoParallelRefMutIterator, ParallelBridge, ParallelExtend, ParallelIterator,
    };
    pub use crate::slice::{ParallelSlice, ParallelSliceMut};
    pub use crate::str::ParallelString;
}

// ---------------------------------------------------------------- pools

/// A detached task: a real pool may run it any time; the simulator runs it at once.
pub fn spawn<F: FnOnce() + Send + 'static>(f: F) {
    sim::construct(1);
    f()
}
pub fn spawn_fifo<F: FnOnce() + Send + 'static>(f: F) {
    spawn(f)
}
pub fn scope_fifo<'scope, OP, R>(op: OP) -> R
where
    OP: FnOnce(&Scope<'scope>) -> R + Send,
    R: Send,
{
    scope(op)
}
pub fn in_place_scope<'scope, OP, R>(op: OP) -> R
where
    OP: FnOnce(&Scope<'scope>) -> R,
{
    let s = Scope { q: std::cell::RefCell::new(Vec::new()) };
    let r = op(&s);
    s.drain();
    r
}
pub fn current_thread_index() -> Option<usize> {
    None
}
pub fn max_num_threads() -> usize {
    1 << 16
}

#[derive(Debug)]
pub struct ThreadPoolBuildError;
impl std::fmt::Display for ThreadPoolBuildError {
    fn fmt(&self, f: &mut std::fmt::Formatter<'_>) -> std::fmt::Result {
        write!(f, "thread pool build error")
    }
}
impl std::error::Error for ThreadPoolBuildError {}

#[derive(Default, Debug)]
pub struct ThreadPoolBuilder {
    threads: usize,
}
impl ThreadPoolBuilder {
    pub fn new() -> Self {
        Self::default()
    }
    pub fn num_threads(mut self, n: usize) -> Self {
        self.threads = n;
        self
    }
    pub fn thread_name<F: FnMut(usize) -> String + 'static>(self, _f: F) -> Self {
        self
    }
    pub fn stack_size(self, _s: usize) -> Self {
        self
    }
    pub fn build(self) -> Result<ThreadPool, ThreadPoolBuildError> {
        Ok(ThreadPool { threads: self.threads })
    }
    pub fn build_global(self) -> Result<(), ThreadPoolBuildError> {
        Ok(())
    }
}

/// A pool of the simulator: `install` runs the closure inline with the pool's
/// size visible through `current_num_threads`.
#[derive(Debug)]
pub struct ThreadPool {
    threads: usize,
}
impl ThreadPool {
    pub fn install<OP: FnOnce() -> R + Send, R: Send>(&self, op: OP) -> R {
        if self.threads == 0 {
            return op();
        }
        let saved = sim::SCHED.with(|s| {
            let mut s = s.borrow_mut();
            let old = s.threads;
            s.threads = self.threads;
            old
        });
        let r = op();
        sim::SCHED.with(|s| s.borrow_mut().threads = saved);
        r
    }
    pub fn current_num_threads(&self) -> usize {
        if self.threads == 0 {
            current_num_threads()
        } else {
            self.threads
        }
    }
    pub fn join<A, B, RA, RB>(&self, a: A, b: B) -> (RA, RB)
    where
        A: FnOnce() -> RA + Send,
        B: FnOnce() -> RB + Send,
        RA: Send,
        RB: Send,
    {
        self.install(|| join(a, b))
    }
    pub fn scope<'scope, OP, R>(&self, op: OP) -> R
    where
        OP: FnOnce(&Scope<'scope>) -> R + Send,
        R: Send,
    {
        self.install(|| scope(op))
    }
    pub fn spawn<F: FnOnce() + Send + 'static>(&self, f: F) {
        spawn(f)
    }
}
