//! Deterministic single-threaded stand-in for rayon: the scheduler seam of the
//! midnight-zk simulator.
//!
//! Every "parallel" construct executes on the calling OS thread. Every choice
//! a real pool could make (pool size seen by `current_num_threads`, the order
//! in which spawned tasks / iterator items run, where folds are split and how
//! partial results are associated) is drawn from a thread-local PRNG that the
//! simulator seeds per run phase. Results are placed by index, which is
//! rayon's ordering contract.
use std::cell::RefCell;

pub mod sim {
    use super::*;

    /// Scheduler state of the current OS thread.
    #[derive(Clone, Debug)]
    pub struct Sched {
        pub state: u64,
        pub threads: usize,
        pub permute: bool,
        /// number of scheduling decisions taken
        pub decisions: u64,
        /// rolling digest of all decisions (identifies the interleaving)
        pub digest: u64,
        /// number of parallel constructs entered (scope / join / par_iter stage)
        pub constructs: u64,
        /// number of tasks / items scheduled
        pub tasks: u64,
    }

    thread_local! {
        pub(crate) static SCHED: RefCell<Sched> = RefCell::new(Sched {
            state: 0x9E37_79B9_7F4A_7C15, threads: 1, permute: false,
            decisions: 0, digest: 0xcbf2_9ce4_8422_2325, constructs: 0, tasks: 0,
        });
    }

    /// Starts a new scheduling phase: pool size `threads`, task order drawn
    /// from `seed` when `permute`, identity order otherwise. Counters and the
    /// digest keep accumulating across phases until `reset_stats`.
    pub fn set(seed: u64, threads: usize, permute: bool) {
        SCHED.with(|s| {
            let mut s = s.borrow_mut();
            s.state = seed.wrapping_mul(0x9E37_79B9_7F4A_7C15) | 1;
            s.threads = threads.max(1);
            s.permute = permute;
            let t = s.threads as u64;
            s.digest = (s.digest ^ (0x5bd1_e995 + t)).wrapping_mul(0x100_0000_01b3);
        });
    }

    pub fn reset_stats() {
        SCHED.with(|s| {
            let mut s = s.borrow_mut();
            s.decisions = 0;
            s.digest = 0xcbf2_9ce4_8422_2325;
            s.constructs = 0;
            s.tasks = 0;
        });
    }

    /// Runs `f` with a sequential identity-order pool of `threads` workers and
    /// restores the previous scheduler state (PRNG, counters, digest)
    /// afterwards: used for fixtures that must not perturb the run's schedule.
    pub fn isolated<R>(threads: usize, f: impl FnOnce() -> R) -> R {
        let saved = get();
        SCHED.with(|s| {
            let mut s = s.borrow_mut();
            s.threads = threads.max(1);
            s.permute = false;
        });
        let r = f();
        SCHED.with(|s| *s.borrow_mut() = saved);
        r
    }

    pub fn get() -> Sched {
        SCHED.with(|s| s.borrow().clone())
    }

    pub(crate) fn next(bound: usize) -> usize {
        SCHED.with(|s| {
            let mut s = s.borrow_mut();
            let mut x = s.state;
            x ^= x << 13;
            x ^= x >> 7;
            x ^= x << 17;
            s.state = x;
            let r = ((x >> 11) % (bound as u64).max(1)) as usize;
            s.decisions += 1;
            s.digest = (s.digest ^ (r as u64 + 1)).wrapping_mul(0x100_0000_01b3);
            r
        })
    }

    pub(crate) fn permute_on() -> bool {
        SCHED.with(|s| s.borrow().permute)
    }

    pub(crate) fn construct(tasks: usize) {
        SCHED.with(|s| {
            let mut s = s.borrow_mut();
            s.constructs += 1;
            s.tasks += tasks as u64;
        });
    }

    /// A PRNG-chosen execution order for `n` independent tasks.
    pub(crate) fn order(n: usize) -> Vec<usize> {
        let mut v: Vec<usize> = (0..n).collect();
        if permute_on() {
            for i in (1..n).rev() {
                let j = next(i + 1);
                v.swap(i, j);
            }
        }
        v
    }
}

pub fn current_num_threads() -> usize {
    sim::SCHED.with(|s| s.borrow().threads)
}

pub fn join<A, B, RA, RB>(a: A, b: B) -> (RA, RB)
where
    A: FnOnce() -> RA + Send,
    B: FnOnce() -> RB + Send,
    RA: Send,
    RB: Send,
{
    sim::construct(2);
    if sim::permute_on() && sim::next(2) == 1 {
        let rb = b();
        let ra = a();
        (ra, rb)
    } else {
        let ra = a();
        let rb = b();
        (ra, rb)
    }
}

type Task<'scope> = Box<dyn FnOnce(&Scope<'scope>) + Send + 'scope>;

pub struct Scope<'scope> {
    q: RefCell<Vec<Task<'scope>>>,
}

impl<'scope> Scope<'scope> {
    pub fn spawn<F>(&self, f: F)
    where
        F: FnOnce(&Scope<'scope>) + Send + 'scope,
    {
        sim::construct(1);
        self.q.borrow_mut().push(Box::new(f));
        // a real pool may start a task at any time after it was spawned: run
        // a PRNG-chosen number of pending tasks now, in PRNG-chosen order
        if sim::permute_on() && sim::next(4) == 0 {
            self.run_some();
        }
    }

    fn run_some(&self) {
        let n = self.q.borrow().len();
        if n == 0 {
            return;
        }
        let k = sim::next(n) + 1;
        for _ in 0..k {
            let t = {
                let mut q = self.q.borrow_mut();
                if q.is_empty() {
                    break;
                }
                let i = sim::next(q.len());
                q.swap_remove(i)
            };
            t(self);
        }
    }

    fn drain(&self) {
        loop {
            let t = {
                let mut q = self.q.borrow_mut();
                if q.is_empty() {
                    break;
                }
                let i = if sim::permute_on() { sim::next(q.len()) } else { 0 };
                q.remove(i)
            };
            t(self);
        }
    }
}

pub fn scope<'scope, OP, R>(op: OP) -> R
where
    OP: FnOnce(&Scope<'scope>) -> R + Send,
    R: Send,
{
    let s = Scope { q: RefCell::new(Vec::new()) };
    let r = op(&s);
    s.drain();
    r
}

pub mod iter {
    use super::sim;

    pub struct ParIter<T> {
        pub(crate) items: Vec<T>,
    }

    fn run_ordered<T, U, F: Fn(T) -> U>(items: Vec<T>, f: F) -> Vec<U> {
        let n = items.len();
        sim::construct(n);
        let ord = sim::order(n);
        let mut src: Vec<Option<T>> = items.into_iter().map(Some).collect();
        let mut dst: Vec<Option<U>> = (0..n).map(|_| None).collect();
        for i in ord {
            dst[i] = Some(f(src[i].take().unwrap()));
        }
        dst.into_iter().map(|x| x.unwrap()).collect()
    }

    pub trait ParallelIterator: Sized {
        type Item;
        fn into_vec(self) -> Vec<Self::Item>;

        fn for_each<F: Fn(Self::Item) + Sync + Send>(self, f: F) {
            run_ordered(self.into_vec(), f);
        }
        fn map<U, F: Fn(Self::Item) -> U + Sync + Send>(self, f: F) -> ParIter<U> {
            ParIter { items: run_ordered(self.into_vec(), f) }
        }
        fn filter_map<U, F: Fn(Self::Item) -> Option<U> + Sync + Send>(self, f: F) -> ParIter<U> {
            ParIter { items: run_ordered(self.into_vec(), f).into_iter().flatten().collect() }
        }
        fn filter<F: Fn(&Self::Item) -> bool + Sync + Send>(self, f: F) -> ParIter<Self::Item> {
            ParIter {
                items: run_ordered(self.into_vec(), |x| if f(&x) { Some(x) } else { None })
                    .into_iter()
                    .flatten()
                    .collect(),
            }
        }
        fn flat_map<PI: IntoParallelIterator, F: Fn(Self::Item) -> PI + Sync + Send>(
            self,
            f: F,
        ) -> ParIter<PI::Item> {
            ParIter {
                items: run_ordered(self.into_vec(), |x| f(x).into_par_iter().into_vec())
                    .into_iter()
                    .flatten()
                    .collect(),
            }
        }
        fn all<F: Fn(Self::Item) -> bool + Sync + Send>(self, f: F) -> bool {
            run_ordered(self.into_vec(), f).into_iter().all(|b| b)
        }
        fn any<F: Fn(Self::Item) -> bool + Sync + Send>(self, f: F) -> bool {
            run_ordered(self.into_vec(), f).into_iter().any(|b| b)
        }
        fn copied<'a, T: 'a + Copy>(self) -> ParIter<T>
        where
            Self: ParallelIterator<Item = &'a T>,
        {
            ParIter { items: self.into_vec().into_iter().copied().collect() }
        }
        fn cloned<'a, T: 'a + Clone>(self) -> ParIter<T>
        where
            Self: ParallelIterator<Item = &'a T>,
        {
            ParIter { items: self.into_vec().into_iter().cloned().collect() }
        }
        fn chain<C: IntoParallelIterator<Item = Self::Item>>(self, c: C) -> ParIter<Self::Item> {
            let mut v = self.into_vec();
            v.extend(c.into_par_iter().into_vec());
            ParIter { items: v }
        }
        fn collect<C: FromIterator<Self::Item>>(self) -> C {
            self.into_vec().into_iter().collect()
        }
        fn sum<S: std::iter::Sum<Self::Item>>(self) -> S {
            self.into_vec().into_iter().sum()
        }
        fn count(self) -> usize {
            self.into_vec().len()
        }
        fn try_fold<T, R, ID, F>(self, identity: ID, fold_op: F) -> ParIter<Result<T, E2<R>>>
        where
            ID: Fn() -> T + Sync + Send,
            F: Fn(T, Self::Item) -> R + Sync + Send,
            R: TryLike<T>,
        {
            // split into PRNG-chosen contiguous segments, fold each from identity
            let items = self.into_vec();
            let n = items.len();
            sim::construct(n);
            let mut cuts = vec![0usize];
            let mut pos = 0;
            while pos < n {
                let step = if sim::permute_on() { sim::next(n - pos) + 1 } else { n - pos };
                pos += step;
                cuts.push(pos);
            }
            if n == 0 {
                cuts.push(0);
            }
            let mut it = items.into_iter();
            let mut out = Vec::new();
            for w in cuts.windows(2) {
                let mut acc: Result<T, E2<R>> = Ok(identity());
                for _ in w[0]..w[1] {
                    let x = it.next().unwrap();
                    acc = match acc {
                        Ok(a) => fold_op(a, x).into_result().map_err(E2),
                        e => e,
                    };
                }
                out.push(acc);
            }
            ParIter { items: out }
        }
    }

    pub struct E2<R>(pub R::Err)
    where
        R: TryLikeErr;
    pub trait TryLikeErr {
        type Err;
    }
    pub trait TryLike<T>: TryLikeErr {
        fn into_result(self) -> Result<T, Self::Err>;
        fn from_ok(t: T) -> Self;
        fn from_err(e: Self::Err) -> Self;
    }
    impl<T, E> TryLikeErr for Result<T, E> {
        type Err = E;
    }
    impl<T, E> TryLike<T> for Result<T, E> {
        fn into_result(self) -> Result<T, E> {
            self
        }
        fn from_ok(t: T) -> Self {
            Ok(t)
        }
        fn from_err(e: E) -> Self {
            Err(e)
        }
    }
    impl<T, R: TryLike<T>> ParIter<Result<T, E2<R>>> {
        pub fn try_reduce<ID, F>(self, identity: ID, op: F) -> R
        where
            ID: Fn() -> T + Sync + Send,
            F: Fn(T, T) -> R + Sync + Send,
        {
            let mut acc = identity();
            for x in self.items {
                match x {
                    Ok(v) => match op(acc, v).into_result() {
                        Ok(a) => acc = a,
                        Err(e) => return R::from_err(e),
                    },
                    Err(E2(e)) => return R::from_err(e),
                }
            }
            R::from_ok(acc)
        }
    }

    pub trait IndexedParallelIterator: ParallelIterator {
        fn enumerate(self) -> ParIter<(usize, Self::Item)> {
            ParIter { items: self.into_vec().into_iter().enumerate().collect() }
        }
        fn rev(self) -> ParIter<Self::Item> {
            let mut v = self.into_vec();
            v.reverse();
            ParIter { items: v }
        }
        fn zip<Z: IntoParallelIterator>(self, z: Z) -> ParIter<(Self::Item, Z::Item)> {
            ParIter {
                items: self.into_vec().into_iter().zip(z.into_par_iter().into_vec()).collect(),
            }
        }
        fn with_min_len(self, _m: usize) -> Self {
            self
        }
        fn len(&self) -> usize;
    }
    impl<T> ParallelIterator for ParIter<T> {
        type Item = T;
        fn into_vec(self) -> Vec<T> {
            self.items
        }
    }
    impl<T> IndexedParallelIterator for ParIter<T> {
        fn len(&self) -> usize {
            self.items.len()
        }
    }

    pub trait IntoParallelIterator {
        type Item;
        type Iter: ParallelIterator<Item = Self::Item>;
        fn into_par_iter(self) -> Self::Iter;
    }
    impl<T> IntoParallelIterator for ParIter<T> {
        type Item = T;
        type Iter = ParIter<T>;
        fn into_par_iter(self) -> ParIter<T> {
            self
        }
    }
    impl<T> IntoParallelIterator for Vec<T> {
        type Item = T;
        type Iter = ParIter<T>;
        fn into_par_iter(self) -> ParIter<T> {
            ParIter { items: self }
        }
    }
    impl<'a, T> IntoParallelIterator for &'a Vec<T> {
        type Item = &'a T;
        type Iter = ParIter<&'a T>;
        fn into_par_iter(self) -> ParIter<&'a T> {
            ParIter { items: self.iter().collect() }
        }
    }
    impl<'a, T> IntoParallelIterator for &'a [T] {
        type Item = &'a T;
        type Iter = ParIter<&'a T>;
        fn into_par_iter(self) -> ParIter<&'a T> {
            ParIter { items: self.iter().collect() }
        }
    }
    impl<'a, T> IntoParallelIterator for &'a mut Vec<T> {
        type Item = &'a mut T;
        type Iter = ParIter<&'a mut T>;
        fn into_par_iter(self) -> ParIter<&'a mut T> {
            ParIter { items: self.iter_mut().collect() }
        }
    }
    impl<'a, T> IntoParallelIterator for &'a mut [T] {
        type Item = &'a mut T;
        type Iter = ParIter<&'a mut T>;
        fn into_par_iter(self) -> ParIter<&'a mut T> {
            ParIter { items: self.iter_mut().collect() }
        }
    }
    macro_rules! range_impl { ($($t:ty),*) => { $(
        impl IntoParallelIterator for std::ops::Range<$t> {
            type Item = $t; type Iter = ParIter<$t>;
            fn into_par_iter(self) -> ParIter<$t> { ParIter { items: self.collect() } }
        } )* } }
    range_impl!(usize, u32, u64, i32, i64, u8, u16);

    pub trait IntoParallelRefIterator<'data> {
        type Item: 'data;
        type Iter: ParallelIterator<Item = Self::Item>;
        fn par_iter(&'data self) -> Self::Iter;
    }
    impl<'data, I: 'data + ?Sized> IntoParallelRefIterator<'data> for I
    where
        &'data I: IntoParallelIterator,
    {
        type Item = <&'data I as IntoParallelIterator>::Item;
        type Iter = <&'data I as IntoParallelIterator>::Iter;
        fn par_iter(&'data self) -> Self::Iter {
            self.into_par_iter()
        }
    }
    pub trait IntoParallelRefMutIterator<'data> {
        type Item: 'data;
        type Iter: ParallelIterator<Item = Self::Item>;
        fn par_iter_mut(&'data mut self) -> Self::Iter;
    }
    impl<'data, I: 'data + ?Sized> IntoParallelRefMutIterator<'data> for I
    where
        &'data mut I: IntoParallelIterator,
    {
        type Item = <&'data mut I as IntoParallelIterator>::Item;
        type Iter = <&'data mut I as IntoParallelIterator>::Iter;
        fn par_iter_mut(&'data mut self) -> Self::Iter {
            self.into_par_iter()
        }
    }
}

pub mod slice {
    pub trait ParallelSliceMut<T> {
        fn as_parallel_slice_mut(&mut self) -> &mut [T];
        fn par_sort_unstable(&mut self)
        where
            T: Ord,
        {
            self.as_parallel_slice_mut().sort_unstable()
        }
        fn par_sort(&mut self)
        where
            T: Ord,
        {
            self.as_parallel_slice_mut().sort()
        }
    }
    impl<T> ParallelSliceMut<T> for [T] {
        fn as_parallel_slice_mut(&mut self) -> &mut [T] {
            self
        }
    }
}

pub mod prelude {
    pub use crate::iter::*;
    pub use crate::slice::*;
}
